"""C05 - direct samples follow the distribution's own density and the given random stream.

Nothing is sampled.  The check owns the random stream (vfw.stream) and reads off what the sampler
does with it:

* gauss / lognormal / gallery / gmrf cells (E2+E3): every standard-normal request is answered with the
  complete basis {0, e_1..e_n} (+ one linearity probe) -> the draw is ``offset + T xi`` exactly;  the
  object's own ``logpdf`` is read on {0, +-e_i, e_i+e_j} (exact second-order model + two quadraticity
  probes) -> mean and covariance *implied by the density the same object reports*.  Required:
  affine, offset == implied mean, T T^T == kron(implied covariance, I_N) (independent columns).
  Singular (intrinsic) precisions are compared on the range of the precision only.  The dense reference
  covariance from the parameters is a cross-check / fall-back when the object refuses to report a
  density; both square-root conventions (R^T R, R R^T) are accepted there.
* gen cells: the numpy / scipy generator call is recorded (generator, broadcast parameters, size,
  random_state) and answered with a tagged array; post-processing must be a pure re-arrangement, the
  rng handed in must be the one that is used, and the law of the recorded call (hand-written textbook
  densities, self-checked against scipy) must equal the object's logpdf on a product grid up to an
  additive constant (normalisation is C04's subject).
* mhn cells: proposal draws from a finite alphabet, symbolic uniform; the exact acceptance
  probability a(b) is read off the decision point; validity of rejection sampling is
  g(b) a(b) / (|phi'(b)| exp(logpdf(phi(b)))) == const and a(b) <= 1 over the alphabet.
* disc / cond cells: real generators: same rng state -> bit-identical draws, global numpy state
  untouched, N=1 -> CUQIarray with the distribution's geometry, N>1 -> Samples with N columns,
  conditional distributions refuse to sample.
* how the generator is handed over (facet of every family and every N): ``sample(N, rng=r)`` is the
  baseline on which the laws above are decided; ``sample(N, r)`` (positional second argument) is executed
  with the same owned stream / recorder / proposal alphabet and must issue the very same generator
  requests and return the very same draws without touching a global numpy function; with real generators
  (disc / derived cells) ``sample(N, r)``, ``sample(N=N, rng=r)`` and ``sample(rng=r)`` must give the
  draws of the baseline from an equal generator state, leave the generator in the same (advanced) state
  and leave the global numpy state alone.  Refusing a call form with TypeError is accepted.
* derived cells: the same discipline on objects obtained from other objects: fully conditioned
  conditionals (all at once / conditioned again / one variable at a time in every order must draw
  identically from equal generator states), members and reductions of a JointDistribution against the
  stand-alone distribution, Lognormal as a joint member, a UserDefinedDistribution whose sample_func is a
  script (the API hands it no generator: every call form returns the script), density-only gallery
  members (refuse).
* udd cells: the one place where a distribution draws by calling user code (UserDefinedDistribution.sample_func;
  DistributionGallery passes no sample_func, its BivariateGaussian member borrows Gaussian._sample and is decided as an
  affine family).  The harness scripts the user's function (the t-th call returns the t-th scripted draw) and enumerates
  what the function hands back: memory owner {fresh object, one reused object overwritten in place, a new view per
  call onto one persistent overwritten array} x form {(dim,) float64, strided, read-only, float32, int64, CUQIarray,
  (dim,1) column, (1,dim) row, python list, 0-d / python float for dim 1}.  One live object per (owner, form, route)
  executes the complete history N in {1,2,3,dim,dim+1} x all call forms (+ every N once more); after every call:
  column i of the result is the i-th draw the function produced during that very call (each draw used once, in
  call order), N=1 -> CUQIarray / N>1 -> Samples with the distribution's geometry, the global numpy stream is
  untouched, and every result returned EARLIER still holds the values it was returned with (results never share
  memory with the user's work space or with each other).  Refusing a return form that is not a 1-D array of
  length dim is accepted.
"""
import contextlib
import itertools
import math

import numpy as np

from vfw import refs
from vfw.core import CellResult, HarnessError, close
from vfw.stream import (Stream, Decisions, explore, affine_probe, UnownedRandomness, _PATCHED)

PROPERTY = "C05"
RULE = ("cells = (Gaussian: parameterisation x matrix form x dim) + (Lognormal form x dim) + gallery + "
        "(GMRF: physical_dim x n x bc x order) + (generator family x parameter-form x dim) + "
        "(parameter representation: 14 families x {python int, list, int64, int32, float32}; inside the cell every scalar/vector "
        "parameter form x dim {1,2,3} x N {1,2,3} x {rng=, global}: real draws from equal generator states must equal those of the "
        "object built from the same integer-valued numbers as float64, its logpdf at those draws must equal the float64 object's, and "
        "for the 7 generator families the recorded request to the primitive generator must be the textbook float64 transform) + "
        "(MHN: alpha x beta x gamma, internal sampler and public path) + (discipline objects) + (conditionals) + "
        "(derived objects: conditioned conditionals, joint members/reductions, scripted user-defined sampler, gallery) + "
        "(user-supplied sampler: dim x memory owner of what sample_func returns; inside the cell every return form x route to the "
        "object x the complete call history N in {1,2,3,dim,dim+1} x call forms on ONE live object, all earlier results "
        "re-read after every later call); "
        "inside a cell every mean kind x N in {1,2,3} x {rng= keyword, rng positional, global numpy} is executed: the "
        "keyword and global forms on the complete standard-normal basis / the whole proposal alphabet / the whole grid, "
        "the positional form differentially against the keyword form on the same owned stream (zero + generic noise vector "
        "/ recorded generator calls / whole proposal alphabet); discipline and derived cells run real generators through "
        "the call forms sample(N, rng=r), sample(N, r), sample(N=N, rng=r), sample(rng=r); a cell is non-trivial when the "
        "object was constructed and at least one draw was compared with the object's own density / the baseline call form")
BOUND = {
    "quick": "one value catalogue (seed % 3). Gaussian: 4 parameterisations x 9 matrix forms {scalar, vector, diag, lower, "
             "upper, non-symmetric full, sparse(triangular/banded), sparse(full), sparse diag} x dim {1,2,3} x mean {vector, scalar} "
             "x N {1,2,3} x {rng= keyword, rng positional, global numpy}, plus dim 76 (above the sparse switch) with N {1,2}; Lognormal 4 forms x dim "
             "{1,2,3}; gallery BivariateGaussian; GMRF 1-D n=2..6 and 2-D 2x2, 3x3 x bc {zero, periodic, neumann} x order "
             "{0,1,2}; 7 generator families x all scalar/vector parameter forms x dim {1,2,3} x N {1,2,3} x 3 paths (law on 4^dim..5^dim "
             "grids for keyword and global, recorded calls and draws of the positional form equal to the keyword form); "
             "parameter representation: {Normal, Gamma, Laplace, Uniform, Beta, InverseGamma, Cauchy, Gaussian cov/prec/sqrtcov/sqrtprec, "
             "Lognormal, GMRF, ModifiedHalfNormal} x 5 representations {python int, list of floats / python float, int64, int32, float32 "
             "(numpy scalars for scalar parameters, ndarrays for vectors)} of integer-valued parameters of modulus > 1 x all scalar/vector "
             "forms x dim {1,2,3} (MHN dim 1, GMRF dim 2,3) x N {1,2,3} x {rng=, global numpy}; MHN "
             "internal sampler 5 alpha x 2 beta x 6 gamma (keyword, global) and public path 5 x 2 x 6 (keyword, positional, "
             "global), 8-point proposal alphabets, complete decision trees (positional: whole alphabet, accept branch); "
             "48 discipline objects x N {1,2,3} x 3 rng kinds {RandomState, advanced RandomState, Generator} x 4 call forms; "
             "21 conditional objects x all proper subsets of their conditioning variables; 34 derived objects (21 conditioned "
             "conditionals with all conditioning orders, 6 joint members/reductions, 1 scripted user-defined sampler, 6 "
             "density-only gallery members) x N {1,2,3} x 3 rng kinds x 4 call forms x {keyword, positional} per alternative route; "
             "user-supplied sampler (UserDefinedDistribution.sample_func, scripted): dim {1,2,3,4} x owner {fresh, reused buffer, "
             "view of a persistent overwritten array} x 11 return forms {(dim,) float64, strided, read-only, float32, int64, "
             "CUQIarray, (dim,1), (1,dim), list, 0-d and python float for dim 1} (those that exist for the owner) x 3 routes "
             "{stand-alone, geometry assigned afterwards, copy returned by calling the object} x one history of all N in "
             "{1,2,3,dim,dim+1} x 6 call forms {sample(N), sample(N, rng=r), sample(N, r), sample(N=N, rng=r), sample(rng=r), "
             "sample()} followed by every N again; every returned result re-read after each later call and after one further "
             "call of the user's function",
    "thorough": "all three value catalogues; Gaussian dims 76 and 77 with N {1,2,3}; GMRF 1-D n=2..9 and n=76, 2-D up to 4x4; "
                "12-point MHN alphabets; otherwise as quick",
}
ASSUMPTIONS = [
    "trusted base: the law of numpy/scipy primitive generators (normal, gamma, laplace, uniform, scipy beta/invgamma/"
    "cauchy rvs) is the textbook law of their recorded arguments; hand-written log-densities are self-checked "
    "against scipy.stats on every grid",
    "a Gaussian-type sampler is decided through affinity in the owned standard-normal stream: basis + one linearity probe",
    "singular GMRF precisions (periodic/neumann): draws and density are compared on the range of the precision; "
    "the component of a draw in the null space is unconstrained (the density is flat there)",
    "the normalising constant of logpdf is not compared here (C04); laws are compared up to an additive constant",
    "when an object refuses to report a density (sparse matrices without cholmod) the draws are compared with the "
    "dense reference covariance under either square-root convention",
    "MHN: the first proposal of a draw is enumerated over the alphabet; later proposals are checked to repeat the same "
    "generator request (i.i.d. proposals); the transform derivative is read by Richardson differences (1e-6)",
    "values outside the catalogues/alphabets and dimensions other than {1,2,3,76,77} are not covered",
    "the positional call form sample(N, r) is decided differentially: its law is the law identified for sample(N, rng=r) once "
    "the same owned stream gives the same requests and bit-identical draws (zero noise and one generic noise vector for the "
    "affine samplers; tagged generator answers for the generator families; every first proposal of the alphabet for MHN)",
    "refusing a call form other than sample(N, rng=r) with TypeError/NotImplementedError is accepted; generator types a "
    "family cannot use (numpy Generator for randn-based samplers) are accepted refusals",
    "UserDefinedDistribution: the API hands no generator to sample_func, so only 'every call form returns the user's script "
    "and leaves the global stream alone' is decided; a sample_func that itself draws from numpy's global stream is outside "
    "the statement's reach",
    "user-supplied sampler: the draws are scripted (deterministic, all entries distinct), so 'independent draws' is decided as "
    "'column i is the i-th value the user's function produced during this call'; extra calls of the function whose value is "
    "discarded are tolerated (columns must be draws of this call, each used once, in call order); return forms other than a "
    "1-D array(-subclass) of length dim ((dim,1), (1,dim), list, 0-d, python float) may be refused with any exception; "
    "user callables of samplers (MH/CWMH proposals) are not direct draws from a distribution and belong to the sampler properties",
    "parameter representation: draws are compared with the float64 object of the same numbers from equal real-generator states, "
    "bit-identical for the integer and list representations (int -> float64 conversion is exact) and to relative 1e-5 for float32 "
    "(1/rate, sqrt(cov) are rounded in float32); refusing a representation at construction is accepted, raising at sample() when "
    "the float64 twin draws is not; only integer-valued parameters of one value set per catalogue are covered, object-dtype and "
    "0-d array parameters are not",
    "alternative routes to a derived object (conditioning order, joint reduction, stand-alone construction with the same "
    "parameters) are required to draw bit-identically from equal generator states: same class, same parameters",
]

TOL_OWN = 1e-7      # quantities read from the object's logpdf by exact differences
TOL_REG = 1e-5      # eps-regularised GMRF constructions
NS = (1, 2, 3)
# how the random source is handed over: rng= keyword / positional second argument / nothing (global numpy)
PATHS = ("rng", "rng-pos", "global")
HANDOVER = "rng-handover"      # operation name of every verdict about a call form other than ``sample(N, rng=r)``
# call forms with a real generator r (engine D): sample(N, rng=r) / sample(N, r) / sample(N=N, rng=r) / sample(rng=r) [N=1]
CALL_FORMS = ("rng", "rng-pos", "rng-Nkw", "rng-noN")
DIFFERENTIAL_FORMS = ("rng-pos", "rng-Nkw", "rng-noN")
FORM_TEXT = {"rng": "sample(N, rng=r)", "rng-pos": "sample(N, r)", "rng-Nkw": "sample(N=N, rng=r)", "rng-noN": "sample(rng=r)"}


# =========================================================================================
# small utilities
# =========================================================================================
class _Agg:
    """Collects failing instances over the inner axes of a cell and emits one narrow signature per
    (component, operation): an axis value enters the signature only if the failure is specific to it."""

    def __init__(self, axes):
        self.axes = axes            # axis -> tuple of all values explored in this cell
        self.items = {}
        self.skipped = []           # instances whose law could not be evaluated (wrong shape / refused)

    def skip(self, where):
        self.skipped.append(dict(where))

    def _universe(self, op):
        """axis -> values for which ``op`` was actually evaluated (a law cannot be compared on a draw of the
        wrong shape: such instances must not make a law signature look N-specific)."""
        if op in ("sample-shape", "sample-raises", "rng-ignored") or not self.skipped:
            return {ax: set(v) for ax, v in self.axes.items()}
        names = list(self.axes)
        uni = {ax: set() for ax in names}
        for combo in itertools.product(*[self.axes[a] for a in names]):
            w = dict(zip(names, combo))
            if any(all(sk.get(a, w[a]) == w[a] for a in names) for sk in self.skipped):
                continue
            for a in names:
                uni[a].add(w[a])
        return uni

    def add(self, fam, op, facet, where, msg, **detail):
        self.items.setdefault((fam, op, facet), []).append((dict(where), msg, detail))

    def emit(self, res):
        for (fam, op, facet), lst in sorted(self.items.items()):
            extra = []
            for ax, allv in self._universe(op).items():
                seen = sorted({w[ax] for w, _, _ in lst if ax in w}, key=str)
                if ax == "path":
                    # the call forms other than sample(N, rng=r) are decided differentially (operation 'rng-handover'):
                    # they are not part of the universe of an operation that was only evaluated on the keyword / global forms
                    allv = set(allv) - (set(DIFFERENTIAL_FORMS) - set(seen))
                if not seen or len(allv) <= 1 or set(seen) >= set(allv):
                    continue
                if ax == "N":
                    extra.append("N=1" if seen == [1] else ("N>1" if 1 not in seen else "N=" + "/".join(map(str, seen))))
                else:
                    extra.append("%s=%s" % (ax, "/".join(map(str, seen))))
            sig = "C05|%s|%s|%s" % (fam, op, ",".join([f for f in [facet] + extra if f]))
            w, msg, detail = lst[0]
            res.fail(sig, msg + " [first at %s; %d instance(s)]" % (w, len(lst)), focus=w, **detail)


def _f(x):
    return float(np.asarray(x, dtype=float).ravel()[0])


def _dense(M):
    return np.asarray(M.todense()) if hasattr(M, "todense") else np.asarray(M, dtype=float)


def _quad_model(f, d):
    """Exact second-order model (f0, g, H) of f from {0, +-e_i, e_i+e_j}; ok = f is that quadratic at two
    further generic points.  None when f is not finite on the stencil."""
    E = np.eye(d)
    f0 = f(np.zeros(d))
    fp = np.array([f(E[i]) for i in range(d)])
    fm = np.array([f(-E[i]) for i in range(d)])
    if not (np.isfinite(f0) and np.all(np.isfinite(fp)) and np.all(np.isfinite(fm))):
        return None
    g = (fp - fm) / 2
    H = np.zeros((d, d))
    for i in range(d):
        H[i, i] = fp[i] + fm[i] - 2 * f0
        for j in range(i + 1, d):
            H[i, j] = H[j, i] = f(E[i] + E[j]) - fp[i] - fp[j] + f0
    if not np.all(np.isfinite(H)):
        return None
    ok = True
    for v in (refs.dyadic_vec(d, 1, scale=0.125), -0.5 * refs.dyadic_vec(d, 4, scale=0.125)):
        pred = f0 + g @ v + 0.5 * v @ H @ v
        got = f(v)
        ok = ok and bool(abs(got - pred) <= 1e-8 * max(1.0, abs(pred), abs(f0)))
    return f0, g, H, ok


def _implied(H, g):
    """Mean / covariance / range projector implied by a concave quadratic log-density."""
    P = -(H + H.T) / 2
    w, V = np.linalg.eigh(P)
    wmax = float(np.max(np.abs(w))) if w.size else 0.0
    if wmax == 0 or float(np.min(w)) < -1e-8 * wmax:
        return None
    pos = w > 1e-7 * wmax
    Vr = V[:, pos]
    Sig = (Vr / w[pos]) @ Vr.T
    Q = Vr @ Vr.T
    return {"mean": Sig @ g, "cov": Sig, "Q": Q, "rank": int(pos.sum()), "prec": P,
            "prec_min": float(w[pos].min())}


class _WrapViolation(Exception):
    pass


def _wrap_problem(out, N, dist):
    """None, or a description of why ``out`` is not 'a CUQIarray with the distribution's geometry' (N=1) /
    'a Samples with one column per draw' (N>1)."""
    from cuqi.array import CUQIarray
    from cuqi.samples import Samples
    dim = dist.dim
    geom = dist.geometry
    if N == 1:
        if not isinstance(out, CUQIarray):
            return "N=1 returned %s, not a CUQIarray" % type(out).__name__
        a = np.asarray(out)
        if not (a.shape == tuple(geom.par_shape) or (dim == 1 and a.shape == ())):
            return "one draw has shape %s, the geometry has par_shape %s" % (a.shape, tuple(geom.par_shape))
        if not (out.geometry is geom or out.geometry == geom):
            return "the returned array carries geometry %r, the distribution has %r" % (out.geometry, geom)
        return None
    if not isinstance(out, Samples):
        return "N=%d returned %s, not Samples" % (N, type(out).__name__)
    a = np.asarray(out.samples)
    if not (a.shape == (dim, N) or (dim == 1 and a.shape == (N,))):
        return "%d draws have shape %s, expected (%d, %d)" % (N, a.shape, dim, N)
    if out.Ns != N:
        return "Samples.Ns = %r for N=%d" % (out.Ns, N)
    if not (out.geometry is geom or out.geometry == geom):
        return "the sample collection carries geometry %r, the distribution has %r" % (out.geometry, geom)
    return None


def _matrix(out, N, dim):
    a = np.asarray(out if N == 1 else out.samples, dtype=float)
    return a.reshape(dim, N)


# =========================================================================================
# engine A: samplers that are affine in an owned standard-normal stream
# =========================================================================================
class _RngIgnored(Exception):
    pass


def _run_normal_script(dist, N, path, xi=None):
    """One execution of dist.sample with every standard-normal request answered from ``xi`` (flat,
    concatenated over requests; None = zeros, sizing run).  Returns (out, stream)."""
    pos = [0]

    def answer(n, i):
        if xi is None:
            return np.zeros(n)
        v = np.asarray(xi[pos[0]:pos[0] + n], dtype=float)
        if v.size != n:
            raise HarnessError("the sampler consumed more normals than in its sizing run")
        pos[0] += n
        return v
    s = Stream(normal=answer)
    if path in ("rng", "rng-pos"):
        guard = Stream()          # every global numpy.random function raises while an rng is given
        try:
            with guard.installed():
                out = dist.sample(N, rng=s.rng()) if path == "rng" else dist.sample(N, s.rng())
        except UnownedRandomness as e:
            raise _RngIgnored(str(e))
    else:
        with s.installed():
            out = dist.sample(N)
    if xi is not None and pos[0] != len(xi):
        raise HarnessError("the sampler consumed fewer normals than in its sizing run")
    return out, s


def _affine_law(dist, N, path, post=None):
    """-> dict(problem=..)/dict(offset, T, affine, n, requests) for the (dim*N)-vector of draws (C order)."""
    dim = dist.dim
    out, s = _run_normal_script(dist, N, path, None)
    prob = _wrap_problem(out, N, dist)
    if prob:
        return {"problem": prob}
    n = int(sum(int(np.prod(r["shape"])) if r["shape"] else 1 for r in s.log))
    reqs = [(r.get("fn"), tuple(r["shape"])) for r in s.log]

    def draw(xi):
        o, _ = _run_normal_script(dist, N, path, xi)
        p = _wrap_problem(o, N, dist)
        if p:
            raise _WrapViolation("wrapping changed between executions: " + p)
        m = _matrix(o, N, dim)
        return (post(m) if post else m).ravel()
    try:
        z0, T, _ = affine_probe(draw, n, lin_check=False)
    except _WrapViolation as e:
        return {"problem": str(e)}
    v = np.array([(-1) ** i * (0.5 + 0.25 * (i % 7)) for i in range(n)])
    return {"offset": z0, "T": T, "n": n, "requests": reqs, "executions": n + 2 + 1, "probe": (v, draw(v))}


def _handover_affine(res, agg, fam, dist, N, where, kw_law, post):
    """The generator handed over as positional second argument, ``sample(N, rng)``: same owned stream -> the very same
    requests and the very same draws as ``sample(N, rng=rng)``; no global numpy function may be touched.
    kw_law: the law identified for the keyword form (None when that form gave no usable draw: then only the
    discipline part is decided)."""
    dim = dist.dim
    runs = []
    v = kw_law["probe"][0] if kw_law is not None else None
    for xi in ((None,) if kw_law is None else (None, v)):
        try:
            out, s = _run_normal_script(dist, N, "rng-pos", xi)
        except _RngIgnored as e:
            agg.add(fam, HANDOVER, "", where, "global numpy.random was used although a generator was passed as "
                    "positional second argument of sample(): %s" % e)
            res.outcomes.add("positional-rng-ignored")
            return
        except HarnessError as e:
            if kw_law is None:
                raise
            agg.add(fam, HANDOVER, "", where, "sample(N, rng) does not consume the generator like sample(N, rng=rng): %s" % e)
            return
        except Exception as e:
            res.transitions += 1
            res.refused += 1
            res.outcomes.add("positional-refused:%s" % type(e).__name__)
            if kw_law is not None and not isinstance(e, (TypeError, NotImplementedError)):
                agg.add(fam, "sample-raises", "", where, "sample(%d, rng) raised %r although sample(%d, rng=rng) draws" % (N, e, N))
            return
        res.transitions += 1
        if kw_law is None:
            res.outcomes.add("positional-discipline-only")
            return
        prob = _wrap_problem(out, N, dist)
        reqs = [(r.get("fn"), tuple(r["shape"])) for r in s.log]
        if prob or reqs != kw_law["requests"]:
            agg.add(fam, HANDOVER, "", where, "sample(N, rng) %s; sample(N, rng=rng) gives a well-formed draw from the requests %s"
                    % (prob or "asks the generator for %s" % (reqs,), kw_law["requests"]))
            return
        m = _matrix(out, N, dim)
        runs.append((post(m) if post else m).ravel())
    res.evaluations += 2
    same0 = np.array_equal(runs[0], kw_law["offset"], equal_nan=True)
    same1 = np.array_equal(runs[1], kw_law["probe"][1], equal_nan=True)
    if not (same0 and same1):
        agg.add(fam, HANDOVER, "", where, "the same generator answers give different draws through sample(N, rng) and "
                "sample(N, rng=rng)", positional=runs[1][:6], keyword=kw_law["probe"][1][:6])
        return
    res.outcomes.add("positional==keyword:N=%d" % N)


def _own_density(res, logf, dim):
    """Read the object's own log-density as a quadratic.  -> (implied dict | None, status string)."""
    try:
        qm = _quad_model(logf, dim)
    except NotImplementedError:
        return None, "refused"
    res.transitions += 1 + 2 * dim + dim * (dim - 1) // 2 + 2
    if qm is None:
        return None, "nonfinite"
    f0, g, H, ok = qm
    if not ok:
        return None, "not-quadratic"
    imp = _implied(H, g)
    if imp is None:
        return None, "not-concave"
    return imp, "ok"


def _compare_law(agg, res, fam, facet, where, law, N, mean_ref, cov_ref, Q, tol, what):
    """offset / covariance of the (dim*N)-vector of draws against mean_ref / kron(cov_ref, I_N) on range Q."""
    IN = np.eye(N)
    Qf = np.kron(Q, IN)
    off = Qf @ (law["offset"] - np.kron(mean_ref, np.ones(N)))
    res.evaluations += 2
    good = True
    if not close(off, np.zeros_like(off), tol, atol=tol * max(1.0, float(np.max(np.abs(mean_ref))))):
        agg.add(fam, "sample-mean", facet, where,
                "with the noise answered by zero the draw is not the mean of %s" % what,
                offset=law["offset"], expected=np.kron(mean_ref, np.ones(N)))
        good = False
    C = Qf @ (law["T"] @ law["T"].T) @ Qf
    Cref = np.kron(cov_ref, IN)
    if not close(C, Cref, tol):
        cols_indep = close(C * (1 - np.kron(np.ones_like(cov_ref), IN)), np.zeros_like(C), tol,
                           atol=tol * max(1.0, float(np.max(np.abs(Cref)))))
        agg.add(fam, "sample-cov" if cols_indep else "sample-columns-dependent", facet, where,
                "covariance of the draws (T T^T from the complete noise basis) differs from the covariance of %s" % what,
                cov_draws=C[::N, ::N] if C.shape[0] <= 12 * N else "omitted", cov_expected=cov_ref if cov_ref.shape[0] <= 12 else "omitted")
        good = False
    return good


def _check_affine_family(res, agg, fam, facet, dist, logf, mean_kind, ref=None, post=None, ns=NS, paths=PATHS,
                         regularised=False, shape_facet=None):
    """Shared body: own density once, then all N x paths.  ref = dict(mean, covs=[candidates]) or None."""
    dim = dist.dim
    imp, status = _own_density(res, logf, dim)
    res.count("own-density:" + status)
    if status in ("not-quadratic", "not-concave"):
        agg.add(fam, "density-not-gaussian", facet, {"mean": mean_kind},
                "the object's logpdf is not a concave quadratic (%s); cannot be the density of its affine draws" % status)
    tol = TOL_OWN
    if regularised:
        # the library regularises singular precisions with sqrt(eps)*I: relative bias 2 sqrt(eps)/lambda_min(operator)
        lam = (1.0 / regularised) * (imp["prec_min"] if imp is not None else (ref["prec_min"] if ref else 1.0))
        tol = max(TOL_REG, 4.0 * math.sqrt(np.finfo(float).eps) / max(lam, 1e-300))
        res.count("regularised-tolerance>1e-5" if tol > TOL_REG else "regularised-tolerance=1e-5")
    if imp is not None and ref is not None:
        # cross-check of the harness' reading of the density with the dense reference
        match = [i for i, c in enumerate(ref["covs"]) if imp["rank"] == dim and close(imp["cov"], c, 1e-6)]
        if ref.get("prec") is not None:
            match = [0] if close(imp["prec"], ref["prec"], 1e-6) else []
        res.count("density-vs-reference:" + ("neither" if not match else "/".join(ref["names"][i] for i in match)))
    kw_law = {}
    for N in ns:
        for path in paths:
            where = {"mean": mean_kind, "N": N, "path": path}
            res.state("%s/N=%d/%s" % (mean_kind, N, path))
            if path == "rng-pos":
                _handover_affine(res, agg, fam, dist, N, where, kw_law.get(N), post)
                continue
            try:
                law = _affine_law(dist, N, path, post)
            except _RngIgnored as e:
                agg.add(fam, "rng-ignored", facet, where, "global numpy.random was used although an rng was passed: %s" % e)
                continue
            except NotImplementedError as e:
                res.refused += 1
                agg.skip(where)
                res.outcomes.add("sample-refused:%s" % type(e).__name__)
                continue
            except HarnessError:
                raise
            except Exception as e:       # a crash of sample() on a non-conditional object: no draw is returned
                res.transitions += 1
                agg.add(fam, "sample-raises", shape_facet or facet, where, "sample(%d) raised %r" % (N, e))
                agg.skip(where)
                res.outcomes.add("sample-raises:%s" % type(e).__name__)
                continue
            if "problem" in law:
                res.transitions += 1
                agg.add(fam, "sample-shape", shape_facet or facet, where, law["problem"])
                agg.skip(where)
                res.outcomes.add("shape-problem")
                continue
            res.transitions += law["executions"]
            res.traces += 1
            if path == "rng":
                kw_law[N] = law
            # linearity probe (on the range of the precision for intrinsic fields: the eps-regularised solves
            # amplify rounding noise in the null space, where nothing is demanded)
            Qa = imp["Q"] if imp is not None else (ref.get("Q") if ref is not None else None)
            v, got = law["probe"]
            lin = got - (law["offset"] + law["T"] @ v)
            if Qa is not None:
                lin = np.kron(Qa, np.eye(N)) @ lin
            if not np.all(np.isfinite(got)) or float(np.max(np.abs(lin))) > 1e-8 * max(1.0, float(np.max(np.abs(got)))):
                agg.add(fam, "sample-not-affine", facet, where, "the draw is not an affine function of the standard-normal answers")
                continue
            if imp is not None:
                _compare_law(agg, res, fam, facet, where, law, N, imp["mean"], imp["cov"], imp["Q"], tol,
                             "the object's own logpdf")
            elif ref is not None:
                # density refused / not finite: fall back to the reference, any convention
                okc = None
                Tm = law["T"]
                C = Tm @ Tm.T
                res.evaluations += 1
                for name, c in zip(ref["names"], ref["covs"]):
                    if close(C, np.kron(c, np.eye(N)), 1e-6):
                        okc = name
                Qr = ref.get("Q")
                if okc is None and Qr is not None:
                    Qf = np.kron(Qr, np.eye(N))
                    if close(Qf @ C @ Qf, np.kron(ref["covs"][0], np.eye(N)), tol):
                        okc = ref["names"][0]
                if okc is None:
                    agg.add(fam, "sample-cov", facet + ",density=" + status, where,
                            "the object reports no usable density (%s); covariance of the draws matches no reference "
                            "convention %s" % (status, ref["names"]), cov_draws=C[::N, ::N] if dim <= 12 else "omitted")
                else:
                    res.count("fallback-convention:" + okc)
                m = np.kron(ref["mean"], np.ones(N))
                dlt = law["offset"] - m
                if Qr is not None:
                    dlt = np.kron(Qr, np.eye(N)) @ dlt
                if not close(dlt, np.zeros_like(dlt), 1e-6, atol=1e-6 * max(1.0, float(np.max(np.abs(m))))):
                    agg.add(fam, "sample-mean", facet + ",density=" + status, where, "zero-noise draw is not the mean parameter")
            res.outcomes.add("law:%s:N=%d:n=%d:%s" % (facet, N, law["n"], law["requests"][0][0]))
            if res.sample is None:
                res.sample = {"family": fam, "facet": facet, "N": N, "path": path, "normal_requests": law["requests"],
                              "offset": law["offset"][:6], "T_first_rows": law["T"][:3, :6],
                              "implied_cov_first_rows": (imp["cov"][:3, :3] if imp else None)}


# ---- Gaussian ---------------------------------------------------------------------------
G_PARAMS = ("cov", "prec", "sqrtcov", "sqrtprec")
G_FORMS = ("scalar", "vector", "diag", "lower", "upper", "full", "sparse", "sparsefull", "sparsediag")


def _gen_matrix(n, k):
    """Deterministic non-symmetric full matrix, cond < ~10 for every n (off-diagonal mass scaled by n)."""
    sc = 1.0 / max(1.0, n / 3.0)

    def e(i, j):
        v = (2 * i + 3 * j + i * j + k) % 9 - 4
        return v if v != 0 else 2          # no accidental zeros: 'full' is never triangular, 'lower' never diagonal
    A = np.array([[sc * e(i, j) / 4.0 for j in range(n)] for i in range(n)])
    for i in range(n):
        A[i, i] = 2.0 + 0.125 * ((i + k) % 5)
    return A


def _spd(n, k):
    if n <= 8:
        return refs.spd_matrix(n, k)
    A = _gen_matrix(n, k)
    return A @ A.T / 2.0


def _pos_vec(n, k):
    return 0.5 + np.abs(refs.dyadic_vec(n, k + 1, scale=0.25))


def _gauss_matrix(param, form, dim, k):
    """-> (value handed to the library, dense reference matrix R of the same meaning, is_sqrt)"""
    import scipy.sparse as sp
    sqrt = param.startswith("sqrt")
    if form == "scalar":
        v = [1.5, 0.5, 2.0][k]
        return v, v * np.eye(dim)
    if form == "vector":
        v = _pos_vec(dim, k)
        return v, np.diag(v)
    if form == "diag":
        M = np.diag(_pos_vec(dim, k + 2))
        return M, M
    if form == "sparsediag":
        v = _pos_vec(dim, k + 3)
        return sp.diags(v), np.diag(v)
    if form == "lower":
        M = np.tril(_gen_matrix(dim, k))
        return M, M
    if form == "upper":
        M = np.triu(_gen_matrix(dim, k))
        return M, M
    if form == "full":
        M = _gen_matrix(dim, k) if sqrt else _spd(dim, k)
        return M, M
    if form == "sparse":      # sparse storage of a triangular root / of a banded SPD matrix
        if sqrt:
            M = np.tril(_gen_matrix(dim, k + 1))
            M[np.abs(np.subtract.outer(np.arange(dim), np.arange(dim))) > 2] = 0.0
        else:
            B = np.tril(_gen_matrix(dim, k + 1))
            B[np.abs(np.subtract.outer(np.arange(dim), np.arange(dim))) > 1] = 0.0
            M = B @ B.T
        return sp.csr_matrix(M), M
    if form == "sparsefull":  # sparse storage of a non-symmetric root / SPD matrix
        M = _gen_matrix(dim, k + 2) if sqrt else _spd(dim, k + 1)
        return sp.csc_matrix(M), M
    raise ValueError(form)


def _gauss_reference(param, R):
    """Candidate covariances of the documented meaning (both root conventions for square roots)."""
    inv = np.linalg.inv
    if param == "cov":
        return ["cov"], [R]
    if param == "prec":
        return ["inv(prec)"], [inv(R)]
    if param == "sqrtcov":
        return ["R^T R (documented)", "R R^T"], [R.T @ R, R @ R.T]
    return ["inv(R^T R) (documented)", "inv(R R^T)"], [inv(R.T @ R), inv(R @ R.T)]


def _sqrtprec_structure(g):
    """Label of the code path Gaussian._sample takes: every parameterisation is converted to a stored square-root
    precision and the sampler only looks at that matrix (label for the signature only, never an oracle)."""
    import scipy.sparse as sp
    try:
        S = g.sqrtprec
        if sp.issparse(S):
            return "sparse"
        S = np.asarray(S, dtype=float)
        if S.ndim != 2:
            return "dense-other"
        off = S - np.diag(np.diag(S))
        if not np.any(off):
            return "dense-diag"
        if not np.any(np.triu(S, 1)):
            return "dense-lower"
        if not np.any(np.tril(S, -1)):
            return "dense-upper"
        return "dense-full"
    except Exception:
        return "unknown"


def _gauss_cells(tier, k):
    dims_small = (1, 2, 3)
    for param in G_PARAMS:
        for form in G_FORMS:
            for dim in dims_small:
                if dim == 1 and form in ("lower", "upper", "full", "sparsefull"):
                    continue    # identical to 'diag'/'sparse' for a 1x1 matrix
                yield {"kind": "gauss", "param": param, "form": form, "dim": dim, "cat": k, "ns": [1, 2, 3]}
            for dim in ((76,) if tier == "quick" else (76, 77)):
                yield {"kind": "gauss", "param": param, "form": form, "dim": dim, "cat": k,
                       "ns": [1, 2] if tier == "quick" else [1, 2, 3]}


def _eval_gauss(cell, res):
    import cuqi
    param, form, dim, k = cell["param"], cell["form"], cell["dim"], cell["cat"]
    regime = "dense" if dim <= 75 else "sparse-switch"
    facet = "param=%s,form=%s,regime=%s" % (param, form, regime)
    ns = tuple(cell["ns"])
    agg = _Agg({"mean": ("vector", "scalar"), "N": ns, "path": PATHS})
    value, R = _gauss_matrix(param, form, dim, k)
    names, covs = None, None
    symmetric_needed = param in ("cov", "prec") and form in ("lower", "upper")
    if not symmetric_needed:
        names, covs = _gauss_reference(param, R)
    for mean_kind in ("vector", "scalar"):
        mean = refs.dyadic_vec(dim, k, scale=0.25) if mean_kind == "vector" else [0.75, -0.5, 1.25][k]
        mref = np.broadcast_to(np.asarray(mean, float), (dim,)).copy()
        kw = {param: value}
        if mean_kind == "scalar" and form == "scalar":
            kw["geometry"] = dim
        try:
            g = cuqi.distribution.Gaussian(mean, **kw)
            if g.dim != dim:
                raise ValueError("dimension not inferred")
        except Exception as e:
            res.refused += 1
            res.transitions += 1
            res.outcomes.add("construct-refused:%s" % type(e).__name__)
            res.state("refused/" + mean_kind)
            continue
        ref = {"mean": mref, "names": names, "covs": covs} if covs is not None else None
        facet = "sqrtprec=" + _sqrtprec_structure(g)
        res.count("stored-" + facet)
        _check_affine_family(res, agg, "Gaussian", facet, g, lambda x: _f(g.logpdf(x)), mean_kind, ref=ref, ns=ns)
    agg.emit(res)
    if not res.traces:
        res.nontrivial = False
    return res


# ---- Lognormal / gallery / joint -----------------------------------------------------------
def _eval_lognormal(cell, res):
    import cuqi
    form, dim, k = cell["form"], cell["dim"], cell["cat"]
    facet = "form=%s" % form
    agg = _Agg({"mean": ("vector", "scalar"), "N": NS, "path": PATHS})
    value, R = _gauss_matrix("cov", form, dim, k)
    for mean_kind in ("vector", "scalar"):
        mean = refs.dyadic_vec(dim, k, scale=0.125) if mean_kind == "vector" else np.full(dim, [0.25, -0.5, 0.5][k])
        try:
            d = cuqi.distribution.Lognormal(mean, value)
            if d.dim != dim:
                raise ValueError("dim")
        except Exception as e:
            res.refused += 1
            res.transitions += 1
            res.outcomes.add("construct-refused:%s" % type(e).__name__)
            continue

        def logf(y):   # density of log X by the change of variables x = exp(y)
            return _f(d.logpdf(np.exp(y))) + float(np.sum(y))
        ref = {"mean": np.asarray(mean, float), "names": ["cov"], "covs": [R]}
        _check_affine_family(res, agg, "Lognormal", facet, d, logf, mean_kind, ref=ref, post=_safe_log)
    agg.emit(res)
    return res


def _safe_log(m):
    if np.any(m <= 0):
        return np.full_like(m, np.nan)
    return np.log(m)


def _eval_gallery(cell, res):
    import cuqi
    agg = _Agg({"N": NS, "path": PATHS})
    d = cuqi.distribution.DistributionGallery("BivariateGaussian")
    _check_affine_family(res, agg, "DistributionGallery", "name=BivariateGaussian", d, lambda x: _f(d.logpdf(x)), "fixed")
    # JointGaussianSqrtPrec: direct sampling is refused (allowed); if it ever answers it must be a CUQIarray/Samples
    try:
        j = cuqi.distribution.JointGaussianSqrtPrec([np.zeros(2), np.ones(2)], [np.eye(2), 2 * np.eye(2)])
        res.transitions += 1
        j.sample(1)
        res.outcomes.add("joint-sqrtprec-sampled")
    except Exception as e:
        res.refused += 1
        res.outcomes.add("joint-sqrtprec-refused:%s" % type(e).__name__)
    agg.emit(res)
    return res


# ---- GMRF -----------------------------------------------------------------------------------
BCS = ("zero", "periodic", "neumann")


def _gmrf_cells(tier, k):
    n1 = list(range(2, 7)) if tier == "quick" else list(range(2, 10)) + [76]
    n2 = (2, 3) if tier == "quick" else (2, 3, 4)
    for pd, sizes in ((1, n1), (2, n2)):
        for n in sizes:
            for bc in BCS:
                for order in (0, 1, 2):
                    yield {"kind": "gmrf", "pd": pd, "n": n, "bc": bc, "order": order, "cat": k}


def _eval_gmrf(cell, res):
    import cuqi
    pd, n, bc, order, k = cell["pd"], cell["n"], cell["bc"], cell["order"], cell["cat"]
    dim = n if pd == 1 else n * n
    facet = "bc=%s,order=%d" % (bc, order)
    ns = NS if dim <= 20 else (1, 2)
    agg = _Agg({"mean": ("vector", "scalar"), "N": ns, "path": PATHS})
    prec = [2.0, 0.5, 3.0][k]
    geom = n if pd == 1 else cuqi.geometry.Image2D((n, n))
    wide = (bc == "periodic" and order == 2 and n < 3) or (bc == "neumann" and order > 0 and n - order < 1)
    Pref = None
    if not wide:
        D = refs.fd_ref(n, bc, order, pd)
        Pref = prec * (D.T @ D)
    for mean_kind in ("vector", "scalar"):
        mean = refs.dyadic_vec(dim, k + 2, scale=0.125) if mean_kind == "vector" else np.full(dim, [0.75, -0.5, 1.25][k])
        try:
            g = cuqi.distribution.GMRF(mean, prec, bc_type=bc, order=order, geometry=geom)
        except Exception as e:
            res.refused += 1
            res.transitions += 1
            res.outcomes.add("construct-refused:%s" % type(e).__name__)
            continue
        ref = None
        if Pref is not None:
            w, V = np.linalg.eigh(Pref)
            pos = w > 1e-9 * w.max()
            Vr = V[:, pos]
            ref = {"mean": np.asarray(mean, float), "names": ["pinv(prec*D^T D)"], "covs": [(Vr / w[pos]) @ Vr.T],
                   "Q": Vr @ Vr.T, "prec": Pref, "prec_min": float(w[pos].min())}
        _check_affine_family(res, agg, "GMRF", facet, g, lambda x: _f(g.logpdf(x)), mean_kind, ref=ref, ns=ns,
                             regularised=(prec if bc != "zero" else False), shape_facet="bc=%s" % bc)
    agg.emit(res)
    if not res.traces:
        res.nontrivial = False
    return res


# =========================================================================================
# engine B: generator families
# =========================================================================================
LOG2PI = math.log(2 * math.pi)


def _law_normal(x, loc, scale):
    return -0.5 * LOG2PI - np.log(scale) - 0.5 * ((x - loc) / scale) ** 2


def _law_gamma(x, shape, scale):
    if x <= 0:
        return -np.inf
    return (shape - 1) * np.log(x) - x / scale - shape * np.log(scale) - math.lgamma(shape)


def _law_laplace(x, loc, scale):
    return -np.log(2 * scale) - abs(x - loc) / scale


def _law_uniform(x, low, high):
    return -np.log(high - low) if low <= x < high else -np.inf


def _law_beta(x, a, b):
    if not (0 < x < 1):
        return -np.inf
    return (a - 1) * np.log(x) + (b - 1) * np.log1p(-x) + math.lgamma(a + b) - math.lgamma(a) - math.lgamma(b)


def _law_invgamma(x, a, loc, scale):
    y = x - loc
    if y <= 0:
        return -np.inf
    return a * np.log(scale) - math.lgamma(a) - (a + 1) * np.log(y) - scale / y


def _law_cauchy(x, loc, scale):
    return -np.log(np.pi * scale * (1 + ((x - loc) / scale) ** 2))


def _scipy_twin(gen, x, p):
    import scipy.stats as sps
    if gen == "normal":
        return sps.norm.logpdf(x, p["loc"], p["scale"])
    if gen == "gamma":
        return sps.gamma.logpdf(x, p["shape"], scale=p["scale"])
    if gen == "laplace":
        return sps.laplace.logpdf(x, p["loc"], p["scale"])
    if gen == "uniform":
        return sps.uniform.logpdf(x, p["low"], p["high"] - p["low"]) if x != p["high"] else -np.inf
    if gen == "beta":
        return sps.beta.logpdf(x, p["a"], p["b"])
    if gen == "invgamma":
        return sps.invgamma.logpdf(x, p["a"], loc=p["loc"], scale=p["scale"])
    if gen == "cauchy":
        return sps.cauchy.logpdf(x, p["loc"], p["scale"])
    raise ValueError(gen)


LAWS = {"normal": (_law_normal, ("loc", "scale")), "gamma": (_law_gamma, ("shape", "scale")),
        "laplace": (_law_laplace, ("loc", "scale")), "uniform": (_law_uniform, ("low", "high")),
        "beta": (_law_beta, ("a", "b")), "invgamma": (_law_invgamma, ("a", "loc", "scale")),
        "cauchy": (_law_cauchy, ("loc", "scale"))}
NUMPY_GENS = ("normal", "gamma", "laplace", "uniform")
SCIPY_GENS = ("beta", "invgamma", "cauchy")

# family -> (constructor parameter names, which may be vectors, generator)
FAMILIES = {
    "Normal": (("mean", "std"), (True, True), "normal"),
    "Gamma": (("shape", "rate"), (True, True), "gamma"),
    "Laplace": (("location", "scale"), (True, False), "laplace"),
    "Uniform": (("low", "high"), (True, True), "uniform"),
    "Beta": (("alpha", "beta"), (True, True), "beta"),
    "InverseGamma": (("shape", "location", "scale"), (True, True, True), "invgamma"),
    "Cauchy": (("location", "scale"), (True, True), "cauchy"),
}


def _family_value(fam, pname, vec, dim, k):
    """Deterministic parameter values inside each family's domain."""
    base = {"mean": (0.75, -1.25), "std": (1.5, 0.5), "shape": (2.5, 1.25), "rate": (2.0, 0.5),
            "location": (0.5, -0.75), "scale": (1.25, 0.5), "low": (-1.0, 0.25), "high": (2.0, 3.5),
            "alpha": (2.0, 0.75), "beta": (3.0, 1.5)}[pname]
    if not vec:
        return base[0] * (1 + 0.25 * k) if pname not in ("mean", "location", "low") else base[0] + 0.25 * k
    step = {"mean": 0.5, "std": 0.25, "shape": 0.5, "rate": 0.75, "location": -0.5, "scale": 0.375, "low": -0.25,
            "high": 0.5, "alpha": 0.75, "beta": 0.5}[pname]
    return np.array([base[1] + 0.125 * k + step * i for i in range(dim)])


def _gen_cells(tier, k):
    for fam, (pnames, vecok, gen) in FAMILIES.items():
        forms = [f for f in itertools.product("sv", repeat=len(pnames))
                 if all(vecok[i] or c == "s" for i, c in enumerate(f))]
        if len(pnames) == 3:
            forms = [f for f in forms if f.count("v") in (0, 1, 3)]
        for f in forms:
            for dim in (1, 2, 3):
                yield {"kind": "gen", "family": fam, "pform": "".join(f), "dim": dim, "cat": k}


class _Recorder:
    """Answers recorded generator calls with tagged arrays (all entries distinct)."""

    def __init__(self):
        self.calls = []

    def answer(self, gen, params, size, random_state="n/a"):
        shape = tuple(int(s) for s in (size if isinstance(size, (tuple, list)) else (size,))) if size is not None else \
            np.broadcast(*[np.asarray(p) for p in params.values()]).shape
        n0 = sum(c["out"].size for c in self.calls)
        out = (0.28125 + (np.arange(int(np.prod(shape)) if shape else 1) + n0) * 2.0 ** -7).reshape(shape)
        self.calls.append({"gen": gen, "params": {a: np.array(v, dtype=float, copy=True) for a, v in params.items()},
                           "shape": shape, "out": out.copy(), "random_state": random_state})
        return out


def _call_summary(rec):
    return [(c["gen"], sorted((a, np.asarray(v).tolist()) for a, v in c["params"].items()), tuple(c["shape"])) for c in rec.calls]


def _recording_rng(rec):
    class RecRS(np.random.RandomState):
        def normal(self, loc=0.0, scale=1.0, size=None):
            return rec.answer("normal", {"loc": loc, "scale": scale}, size, self)

        def gamma(self, shape, scale=1.0, size=None):
            return rec.answer("gamma", {"shape": shape, "scale": scale}, size, self)

        def laplace(self, loc=0.0, scale=1.0, size=None):
            return rec.answer("laplace", {"loc": loc, "scale": scale}, size, self)

        def uniform(self, low=0.0, high=1.0, size=None):
            return rec.answer("uniform", {"low": low, "high": high}, size, self)
    r = RecRS(0)
    for name in _PATCHED:
        if name not in NUMPY_GENS and name not in ("seed", "default_rng") and hasattr(r, name):
            def bad(*a, _n=name, **kw):
                raise UnownedRandomness("rng.%s drawn by a generator-family sampler" % _n)
            try:
                setattr(r, name, bad)
            except AttributeError:
                pass
    return r


@contextlib.contextmanager
def _recording_installed(rec, allow_global):
    """Patch numpy.random module functions and scipy.stats.<d>.rvs.  allow_global=False: every global numpy
    function raises (an rng was handed in and must be the only source)."""
    import scipy.stats as sps
    saved = {}

    def unowned(name):
        def f(*a, **kw):
            raise UnownedRandomness("numpy.random.%s" % name)
        return f
    table = {
        "normal": lambda loc=0.0, scale=1.0, size=None: rec.answer("normal", {"loc": loc, "scale": scale}, size, None),
        "gamma": lambda shape, scale=1.0, size=None: rec.answer("gamma", {"shape": shape, "scale": scale}, size, None),
        "laplace": lambda loc=0.0, scale=1.0, size=None: rec.answer("laplace", {"loc": loc, "scale": scale}, size, None),
        "uniform": lambda low=0.0, high=1.0, size=None: rec.answer("uniform", {"low": low, "high": high}, size, None),
    }
    for name in _PATCHED:
        if hasattr(np.random, name):
            saved[name] = getattr(np.random, name)
            setattr(np.random, name, table[name] if (allow_global and name in table) else unowned(name))

    def mk(gen, names):
        def rvs(*args, **kw):
            size = kw.pop("size", None)
            rs = kw.pop("random_state", None)
            p = dict(zip(names, args))
            p.update(kw)
            full = {"beta": ("a", "b"), "invgamma": ("a", "loc", "scale"), "cauchy": ("loc", "scale")}[gen]
            defaults = {"loc": 0.0, "scale": 1.0}
            unknown = set(p) - set(full)
            if unknown:
                raise HarnessError("unexpected rvs arguments %s" % unknown)
            params = {a: p.get(a, defaults.get(a)) for a in full}
            return rec.answer(gen, params, size, rs)
        return rvs
    sp_objs = {"beta": (sps.beta, ("a", "b")), "invgamma": (sps.invgamma, ("a",)), "cauchy": (sps.cauchy, ())}
    for gen, (obj, names) in sp_objs.items():
        obj.rvs = mk(gen, names + ("loc", "scale"))
    state0 = np.random.get_state()
    try:
        yield
    finally:
        for name, f in saved.items():
            setattr(np.random, name, f)
        for gen, (obj, _) in sp_objs.items():
            del obj.rvs
    state1 = np.random.get_state()
    if not (np.array_equal(state0[1], state1[1]) and state0[2:] == state1[2:]):
        raise UnownedRandomness("the global generator advanced during a recorded execution")


def _grid_values(gen, p):
    """Per-coordinate alphabet of evaluation points (inside and, where it exists, outside the support)."""
    if gen in ("normal", "laplace", "cauchy"):
        return [p["loc"] - 1.5 * p["scale"], p["loc"] - 0.25, p["loc"] + 0.5 * p["scale"], p["loc"] + 2.0]
    if gen == "gamma":
        return [-0.5, 0.25 * p["scale"], p["shape"] * p["scale"], 3.0 * p["shape"] * p["scale"] + 0.5]
    if gen == "uniform":
        w = p["high"] - p["low"]
        return [p["low"] - 0.5, p["low"] + 0.125 * w, p["low"] + 0.75 * w, p["high"] + 0.25]
    if gen == "beta":
        return [-0.25, 0.125, 0.5, 0.875, 1.25]
    if gen == "invgamma":
        return [p["loc"] - 0.5, p["loc"] + 0.25 * p["scale"], p["loc"] + p["scale"], p["loc"] + 4.0 * p["scale"]]
    raise ValueError(gen)


def _eval_gen(cell, res):
    import cuqi
    fam, pform, dim, k = cell["family"], cell["pform"], cell["dim"], cell["cat"]
    pnames, _, gen = FAMILIES[fam]
    law, lnames = LAWS[gen]
    facet = "pform=%s" % pform
    agg = _Agg({"N": NS, "path": PATHS})
    vals = {pn: _family_value(fam, pn, c == "v", dim, k) for pn, c in zip(pnames, pform)}
    kw = dict(vals)
    if "v" not in pform:
        kw["geometry"] = dim
    try:
        d = getattr(cuqi.distribution, fam)(**kw)
        if d.dim != dim:
            raise ValueError("dim")
    except Exception as e:
        res.refused += 1
        res.transitions += 1
        res.nontrivial = False
        res.outcomes.add("construct-refused:%s" % type(e).__name__)
        return res
    kw_run = {}
    for N in NS:
        for path in PATHS:
            where = {"N": N, "path": path}
            res.state("N=%d/%s" % (N, path))
            rec = _Recorder()
            rng = _recording_rng(rec) if path != "global" else None
            # verdicts about the positional call form do not depend on the parameter form: one signature per family
            ign_op, ign_facet = ("rng-ignored", facet) if path != "rng-pos" else (HANDOVER, "")
            try:
                with _recording_installed(rec, allow_global=(path == "global")):
                    out = d.sample(N, rng=rng) if path == "rng" else (d.sample(N, rng) if path == "rng-pos" else d.sample(N))
            except UnownedRandomness as e:
                if path != "global":
                    agg.add(fam, ign_op, ign_facet, where, "a draw went around the rng that was passed%s: %s"
                            % (" as positional second argument" if path == "rng-pos" else "", e))
                    continue
                raise
            except HarnessError:
                raise
            except Exception as e:
                res.transitions += 1
                if path == "rng-pos":
                    # refusing the positional form (TypeError) is allowed; any other crash while the keyword form draws is not
                    res.refused += 1
                    res.outcomes.add("positional-refused:%s" % type(e).__name__)
                    if N in kw_run and not isinstance(e, (TypeError, NotImplementedError)):
                        agg.add(fam, "sample-raises", "", where, "sample(%d, rng) raised %r although sample(%d, rng=rng) draws" % (N, e, N))
                    continue
                agg.add(fam, "sample-raises", facet, where, "sample(%d) raised %r" % (N, e))
                continue
            res.transitions += 1
            foreign = path != "global" and any(c["random_state"] is not rng for c in rec.calls)
            if path == "rng-pos":
                if foreign:
                    agg.add(fam, HANDOVER, "", where, "the generator call did not receive the rng that was passed as positional "
                            "second argument (random_state=%r)" % (rec.calls[0]["random_state"],))
                    continue
                if N not in kw_run:
                    res.count("positional-discipline-only")      # the keyword form gave no usable draw to compare with
                    continue
            prob = _wrap_problem(out, N, d)
            if prob:
                agg.add(fam, "sample-shape" if path != "rng-pos" else HANDOVER, facet if path != "rng-pos" else "", where, prob)
                continue
            if foreign:
                agg.add(fam, "rng-ignored", facet, where, "the generator call did not receive the rng that was passed "
                        "(random_state=%r)" % (rec.calls[0]["random_state"],))
                continue
            if path == "rng-pos":
                # same generator, same state -> the very same generator calls and the very same draws as sample(N, rng=rng)
                res.evaluations += 1
                calls_kw, M_kw = kw_run[N]
                calls = _call_summary(rec)
                if calls != calls_kw or not np.array_equal(_matrix(out, N, dim), M_kw):
                    agg.add(fam, HANDOVER, "", where, "sample(N, rng) and sample(N, rng=rng) differ for the same generator: "
                            "calls %s vs %s" % (calls, calls_kw), positional=_matrix(out, N, dim), keyword=M_kw)
                else:
                    res.outcomes.add("%s:positional==keyword:N=%d" % (fam, N))
                continue
            if not rec.calls:
                agg.add(fam, "no-generator-call", facet, where, "sample() returned without asking any generator")
                continue
            # post-processing must be a pure re-arrangement: every output entry is one generated value, none used twice
            M = _matrix(out, N, dim)
            tags = {}
            for ci, c in enumerate(rec.calls):
                if c["gen"] != gen:
                    res.count("other-generator:" + c["gen"])
                flat = c["out"].ravel()
                for idx in range(flat.size):
                    tags[float(flat[idx])] = (ci, idx)
            used, entry, bad = set(), {}, None
            for i in range(dim):
                for j in range(N):
                    t = tags.get(float(M[i, j]))
                    if t is None or t in used:
                        bad = (i, j)
                        break
                    used.add(t)
                    entry[(i, j)] = t
                if bad:
                    break
            res.evaluations += 1
            if bad:
                agg.add(fam, "postprocess", facet, where, "entry %s of the draws is not a (fresh) value returned by the "
                        "generator: post-processing is not identity/transposition" % (bad,), draws=M, generated=rec.calls[0]["out"])
                continue
            # law of column j = product over i of the generator law with the parameters broadcast to that entry
            ok_all = True
            for j in range(N):
                pars = []
                for i in range(dim):
                    ci, idx = entry[(i, j)]
                    c = rec.calls[ci]
                    pars.append((c["gen"], {a: float(np.broadcast_to(v, c["shape"]).ravel()[idx]) for a, v in c["params"].items()}))
                axes = [_grid_values(gn, p) for gn, p in pars]
                diffs, pattern_bad = [], None
                for x in itertools.product(*axes):
                    xa = np.array(x, dtype=float)
                    reflp = 0.0
                    for xi, (gn, p) in zip(x, pars):
                        lw, ln = LAWS[gn]
                        v = float(lw(xi, *[p[a] for a in ln]))
                        tw = float(_scipy_twin(gn, xi, p))
                        if not ((np.isinf(v) and np.isinf(tw)) or abs(v - tw) <= 1e-10 * max(1, abs(v))):
                            raise HarnessError("hand-written %s law %r != scipy %r at %r %r" % (gn, v, tw, xi, p))
                        reflp += v
                    own = _f(d.logpdf(xa))
                    res.transitions += 1
                    if np.isinf(reflp) or np.isinf(own) or np.isnan(own):
                        if not (np.isinf(reflp) and reflp < 0 and np.isinf(own) and own < 0):
                            pattern_bad = (x, own, reflp)
                    else:
                        diffs.append(own - reflp)
                res.evaluations += 1
                if pattern_bad is not None:
                    agg.add(fam, "generator-support", facet, where, "support of the recorded %s call and of the object's logpdf "
                            "differ at x=%s: logpdf=%r, law of the call=%r" % ((gen,) + pattern_bad), call=pars)
                    ok_all = False
                    break
                if not diffs:
                    raise HarnessError("empty in-support grid")
                dd = np.array(diffs)
                if float(dd.max() - dd.min()) > 1e-9 * max(1.0, float(np.max(np.abs(dd)))):
                    agg.add(fam, "generator-law", facet, where, "the law of the recorded call %s differs from the object's "
                            "logpdf by more than a constant over the grid (spread %.3g)" % (pars, dd.max() - dd.min()), call=pars)
                    ok_all = False
                    break
            res.traces += 1
            if path == "rng":
                kw_run[N] = (_call_summary(rec), M.copy())
            if ok_all:
                res.outcomes.add("%s:%s:%s:N=%d" % (fam, pform, rec.calls[0]["shape"], N))
            if res.sample is None:
                res.sample = {"family": fam, "N": N, "path": path, "generator": rec.calls[0]["gen"],
                              "params": rec.calls[0]["params"], "size": rec.calls[0]["shape"], "draws": M}
    agg.emit(res)
    return res


# =========================================================================================
# engine B': representation of the parameters (float64 / python int / list / integer ndarray / float32)
# =========================================================================================
REPS = ("pyint", "list", "int64", "int32", "float32")
REP_PATHS = ("rng", "global")
# family -> (class, ((parameter, allowed forms), ...), textbook request of the primitive generator or None)
REP_FAMILIES = {
    "Normal": ("Normal", (("mean", "sv"), ("std", "sv")), lambda p: {"loc": p["mean"], "scale": p["std"]}),
    "Gamma": ("Gamma", (("shape", "sv"), ("rate", "sv")), lambda p: {"shape": p["shape"], "scale": 1.0 / p["rate"]}),
    "Laplace": ("Laplace", (("location", "sv"), ("scale", "s")), lambda p: {"loc": p["location"], "scale": p["scale"]}),
    "Uniform": ("Uniform", (("low", "sv"), ("high", "sv")), lambda p: {"low": p["low"], "high": p["high"]}),
    "Beta": ("Beta", (("alpha", "sv"), ("beta", "sv")), lambda p: {"a": p["alpha"], "b": p["beta"]}),
    "InverseGamma": ("InverseGamma", (("shape", "sv"), ("location", "sv"), ("scale", "sv")),
                     lambda p: {"a": p["shape"], "loc": p["location"], "scale": p["scale"]}),
    "Cauchy": ("Cauchy", (("location", "sv"), ("scale", "sv")), lambda p: {"loc": p["location"], "scale": p["scale"]}),
    "Gaussian/cov": ("Gaussian", (("mean", "sv"), ("cov", "sv")), None),
    "Gaussian/prec": ("Gaussian", (("mean", "sv"), ("prec", "sv")), None),
    "Gaussian/sqrtcov": ("Gaussian", (("mean", "sv"), ("sqrtcov", "sv")), None),
    "Gaussian/sqrtprec": ("Gaussian", (("mean", "sv"), ("sqrtprec", "sv")), None),
    "Lognormal": ("Lognormal", (("mean", "v"), ("cov", "sv")), None),
    "GMRF": ("GMRF", (("mean", "v"), ("prec", "s")), None),
    "ModifiedHalfNormal": ("ModifiedHalfNormal", (("alpha", "s"), ("beta", "s"), ("gamma", "s")), None),
}
# integer-valued parameters (> 1 in modulus, so that integer arithmetic differs from float arithmetic): (scalar, vector)
_REP_VALUES = {"mean": (3, (2, -3, 4)), "std": (2, (2, 3, 5)), "shape": (3, (2, 3, 4)), "rate": (4, (2, 5, 3)),
               "location": (2, (2, -3, 4)), "scale": (3, (2, 3, 5)), "low": (-2, (-3, -2, 2)), "high": (5, (6, 7, 9)),
               "alpha": (2, (2, 3, 4)), "beta": (3, (3, 2, 5)), "cov": (4, (4, 2, 9)), "prec": (4, (4, 2, 9)),
               "sqrtcov": (2, (2, 3, 5)), "sqrtprec": (2, (2, 3, 5)), "gamma": (2, (2, 3, 4))}


def _rep_cells(tier, k):
    for fam in REP_FAMILIES:
        for rep in REPS:
            yield {"kind": "rep", "family": fam, "rep": rep, "cat": k}


def _rep_value(pname, vec, dim, k):
    s, v = _REP_VALUES[pname]
    bump = k if s > 0 and pname not in ("low",) else 0
    if not vec:
        return float(s + bump)
    return np.array([float(v[i] + (bump if v[i] > 0 else 0)) for i in range(dim)])


def _rep_convert(v, rep):
    """The same integer-valued numbers in another representation."""
    vec = isinstance(v, np.ndarray)
    if rep == "pyint":
        return [int(x) for x in v] if vec else int(v)
    if rep == "list":
        return [float(x) for x in v] if vec else float(v)
    if rep in ("int64", "int32"):
        t = np.int64 if rep == "int64" else np.int32
        return v.astype(t) if vec else t(v)
    if rep == "float32":
        return v.astype(np.float32) if vec else np.float32(v)
    raise ValueError(rep)


def _rep_build(cls, vals, dim):
    import cuqi
    kw = dict(vals)
    if not any(isinstance(v, (np.ndarray, list)) for v in vals.values()):
        kw["geometry"] = dim
    d = getattr(cuqi.distribution, cls)(**kw)
    if d.dim != dim:
        raise ValueError("dim %r != %d" % (d.dim, dim))
    return d


def _rep_draw(d, N, path, seed):
    """Real draws under a real generator of known state (the global stream is put back afterwards)."""
    if path == "rng":
        return d.sample(N, rng=np.random.RandomState(seed))
    st = np.random.get_state()
    try:
        np.random.seed(seed)
        return d.sample(N)
    finally:
        np.random.set_state(st)


def _eval_rep(cell, res):
    fam, rep, k = cell["family"], cell["rep"], cell["cat"]
    cls, pspec, textbook = REP_FAMILIES[fam]
    comp = fam.split("/")[0]
    facet = ("%s,rep=%s" % (fam.split("/")[1], rep)) if "/" in fam else "rep=%s" % rep
    rtol = 1e-5 if rep == "float32" else 0.0      # derived quantities (1/rate, sqrt) are rounded in float32
    forms = ["".join(f) for f in itertools.product(*[opts for _, opts in pspec])]
    dims = (1, 2, 3) if comp != "ModifiedHalfNormal" else (1,)
    agg = _Agg({"N": NS, "path": REP_PATHS, "dim": dims, "pform": tuple(forms)})
    compared = 0

    def same(a, b):
        a, b = np.asarray(a, dtype=float), np.asarray(b, dtype=float)
        if a.shape != b.shape:
            return False
        return bool(np.array_equal(a, b)) if rtol == 0.0 else bool(np.allclose(a, b, rtol=rtol, atol=1e-12))

    for pform in forms:
        for dim in dims:
            if comp == "GMRF" and dim == 1:
                continue
            base = {"dim": dim, "pform": pform}
            f64 = {pn: _rep_value(pn, c == "v", dim, k) for (pn, _), c in zip(pspec, pform)}
            try:
                d0 = _rep_build(cls, f64, dim)
            except Exception as e:
                res.refused += 1
                res.outcomes.add("float64-construct-refused:%s" % type(e).__name__)
                continue
            try:
                d1 = _rep_build(cls, {pn: _rep_convert(v, rep) for pn, v in f64.items()}, dim)
            except Exception as e:
                # the statement quantifies over parameter values; refusing a representation at construction is not a draw
                res.refused += 1
                res.transitions += 1
                res.outcomes.add("%s-construct-refused:%s" % (rep, type(e).__name__))
                continue
            for N in NS:
                for path in REP_PATHS:
                    where = dict(base, N=N, path=path)
                    res.state("%s/dim=%d/N=%d/%s" % (pform, dim, N, path))
                    seed = 1000 + 17 * N + dim
                    try:
                        o0 = _rep_draw(d0, N, path, seed)
                        M0 = _matrix(o0, N, dim)
                    except Exception as e:
                        res.refused += 1
                        res.outcomes.add("float64-sample-raised:%s" % type(e).__name__)
                        continue
                    res.transitions += 2
                    try:
                        o1 = _rep_draw(d1, N, path, seed)
                    except Exception as e:
                        # one signature for all numpy scalar types when every parameter is a scalar
                        np_scalar = "v" not in pform and rep in ("int64", "int32", "float32")
                        agg.add(comp, "sample-raises", facet.replace("rep=" + rep, "rep=numpy-scalar") if np_scalar else facet, where,
                                "sample(%d) raised %r for parameters given as %s although the same numbers as float64 draw" % (N, e, rep))
                        continue
                    prob = _wrap_problem(o1, N, d1)
                    if prob:
                        agg.add(comp, "sample-shape", facet, where, prob)
                        agg.skip(where)
                        continue
                    M1 = _matrix(o1, N, dim)
                    res.evaluations += 1
                    compared += 1
                    if not same(M1, M0):
                        agg.add(comp, "parameter-representation", facet, where, "equal generator states, the same numbers as "
                                "float64 and as %s: the draws differ" % rep, float64=M0, other=M1, parameters=f64)
                    # the density the object reports must be the density of the float64 object at the float64 draws
                    try:
                        l0 = [_f(d0.logpdf(M0[:, j])) for j in range(N)]
                        l1 = [_f(d1.logpdf(M0[:, j])) for j in range(N)]
                    except Exception as e:
                        res.count("density-refused:%s" % type(e).__name__)
                    else:
                        res.evaluations += 1
                        if not close(l1, l0, rtol=max(rtol, 1e-10)):
                            agg.add(comp, "density-representation", facet, where, "logpdf of the object built from %s parameters "
                                    "differs from the float64 object's at its draws: %r vs %r" % (rep, l1, l0), parameters=f64)
                    if textbook is None:
                        continue
                    # reference transform: the request to the primitive generator is the textbook one in float64
                    rec = _Recorder()
                    rng = _recording_rng(rec) if path == "rng" else None
                    try:
                        with _recording_installed(rec, allow_global=(path == "global")):
                            d1.sample(N, rng=rng) if path == "rng" else d1.sample(N)
                    except HarnessError:
                        raise
                    except Exception as e:
                        agg.add(comp, "sample-raises", facet, where, "recorded sample(%d) raised %r" % (N, e))
                        continue
                    res.transitions += 1
                    want = textbook({pn: np.asarray(v, dtype=float) for pn, v in f64.items()})
                    bad = None
                    if len(rec.calls) != 1:
                        bad = "%d generator calls" % len(rec.calls)
                    else:
                        c = rec.calls[0]
                        for a, w in want.items():
                            try:
                                got = np.broadcast_to(c["params"][a], c["shape"])
                                exp = np.broadcast_to(w, c["shape"])
                            except (KeyError, ValueError) as e:
                                bad = "argument %s: %r" % (a, e)
                                break
                            if not same(got, exp):
                                bad = "argument %s = %s, textbook %s" % (a, np.asarray(c["params"][a]).tolist(), np.asarray(w).tolist())
                                break
                    res.evaluations += 1
                    if bad:
                        agg.add(comp, "parameter-representation", facet, where, "parameters given as %s: the request to the "
                                "primitive generator is not the textbook transform of the numbers (%s)" % (rep, bad), parameters=f64)
                    res.traces += 1
    if compared:
        res.outcomes.add("%s:%s:draws==float64" % (fam, rep))
    res.nontrivial = compared > 0
    agg.emit(res)
    return res


# =========================================================================================
# engine C: ModifiedHalfNormal rejection samplers
# =========================================================================================
class _Stop(Exception):
    pass


class _SampleRaised(Exception):
    pass


def _mhn_cells(tier, k):
    alphas = (0.5, 1.0, 1.5, 2.0, 3.0)
    betas = ((0.5, 2.0), (0.75, 1.5), (1.0, 3.0))[k]
    gammas = ((-2.0, -0.5, 0.0, 0.5, 3.0, 6.0), (-1.5, -0.25, 0.0, 0.75, 2.5, 5.0), (-3.0, -1.0, 0.0, 0.25, 2.0, 7.0))[k]
    big = tier != "quick"
    for a in alphas:
        for b in betas:
            for c in gammas:
                yield {"kind": "mhn", "mode": "internal", "alpha": a, "beta": b, "gamma": c, "big": big, "cat": k}
    for a in (0.5, 1.0, 1.5, 3.0, 6.0):
        for b in betas:
            for c in gammas:
                yield {"kind": "mhn", "mode": "public", "alpha": a, "beta": b, "gamma": c, "big": big, "cat": k}


def _mhn_alphabet(kind, big):
    if kind == "gamma":     # multiples of the proposal mean
        a = [0.03125, 0.125, 0.375, 0.75, 1.0, 1.5, 2.5, 4.0]
        return a + [0.0625, 0.25, 2.0, 6.0] if big else a
    a = [-3.0, -1.5, -0.75, -0.25, 0.0, 0.5, 1.0, 2.0]
    return a + [-2.0, -0.5, 0.25, 3.0] if big else a


def _eval_mhn(cell, res):
    import cuqi
    mode, al, be, ga = cell["mode"], cell["alpha"], cell["beta"], cell["gamma"]
    # the private sampler has no positional generator slot (its fourth positional argument is the mode m)
    paths = PATHS if mode == "public" else tuple(p for p in PATHS if p != "rng-pos")
    agg = _Agg({"path": paths})
    d = cuqi.distribution.ModifiedHalfNormal(al, be, ga)
    if mode == "internal":
        def target(x):            # documented un-normalised MHN density of the parameters handed to the sampler
            return (al - 1) * np.log(x) - be * x * x + ga * x

        def call(rng, positional=False):
            return d._MHN_sample(al, be, ga, rng=rng)
        branch = "gamma<=0" if ga <= 0 else ("alpha>1" if al > 1 else "alpha<=1")
        facet = "internal,%s" % branch
    else:
        def target(x):
            return _f(d.logpdf(np.array([x])))

        def call(rng, positional=False):
            out = (d.sample(1, rng) if positional else d.sample(1, rng=rng)) if rng is not None else d.sample(1)
            p = _wrap_problem(out, 1, d)
            if p:
                raise _WrapViolation(p)      # a verdict about the library (wrong wrapping of the draw), not a harness error
            return _f(out)
        facet = "public"
    for path in paths:
        where = {"path": path}
        res.state(path)
        try:
            _mhn_path(res, agg, cell, path, where, facet, call, target, mode)
        except _SampleRaised as e:
            res.transitions += 1
            agg.add("ModifiedHalfNormal", "sample-raises", facet, where, "the sampler raised %s" % e)
        except _WrapViolation as e:
            res.transitions += 1
            agg.add("ModifiedHalfNormal", "sample-shape", facet, where, str(e))
    agg.emit(res)
    return res


def _canon_log(boxes):
    """Request logs of executions in a comparable form."""
    def canon(v):
        if isinstance(v, dict):
            return sorted((str(k), canon(x)) for k, x in v.items())
        if isinstance(v, (list, tuple)):
            return [canon(x) for x in v]
        if isinstance(v, np.ndarray) or isinstance(v, (float, int, np.floating, np.integer)):
            return np.asarray(v, dtype=float).tolist()
        return str(v)
    return [canon(lg) for lg in boxes]


def _mhn_path(res, agg, cell, path, where, facet, call, target, mode):
    al, be, ga = cell["alpha"], cell["beta"], cell["gamma"]
    if True:

        def execute(base, decisions, kindbox, how=None):
            """one execution: first proposal answered by ``base`` (gamma: the value; normal: the standard score)."""
            how = how or path

            def first_only(rec_or_n, i):
                if i >= 1:
                    raise _Stop()
                return base
            s = Stream(normal=(lambda n, i: first_only(n, i)), gamma=(lambda rec, i: first_only(rec, i)), decisions=decisions)
            try:
                if how in ("rng", "rng-pos"):
                    guard = Stream()
                    with guard.installed():
                        x = call(s.rng(), how == "rng-pos")
                else:
                    with s.installed():
                        x = call(None)
                obs = ("accept", float(x))
            except _Stop:
                obs = ("reject", None)
            except (HarnessError, _SampleRaised, _WrapViolation):
                raise
            except Exception as e:       # a crash of the sampler itself is a verdict, not a harness error
                raise _SampleRaised(repr(e))
            kindbox.append(s.log)
            return obs

        # which proposal does this parameter set use?  (sizing run at a harmless value, first decision forced)
        box = []
        try:
            execute(1.0, Decisions([True]), box)
        except UnownedRandomness as e:
            if path == "rng-pos":
                agg.add("ModifiedHalfNormal", HANDOVER, "", where, "a generator passed as positional second argument of "
                        "sample() is not the source of the draws: %s" % e)
            else:
                agg.add("ModifiedHalfNormal", "rng-ignored", facet, where, str(e))
            return
        first = box[0][0]
        kind = first["kind"]
        if kind == "gamma":
            k_shape, theta = _f(first["shape_param"]), _f(first["scale"])
            bases = [m * k_shape * theta for m in _mhn_alphabet("gamma", cell["big"])]

            def logg(b):
                return (k_shape - 1) * np.log(b) - b / theta - k_shape * np.log(theta) - math.lgamma(k_shape)
        elif kind == "normal":
            bases = list(_mhn_alphabet("normal", cell["big"]))

            def logg(b):
                return -0.5 * LOG2PI - 0.5 * b * b
        else:
            raise HarnessError("unexpected first request %r" % first)
        res.count("proposal:" + kind)
        fct = facet + ",proposal=" + kind
        if path == "rng-pos":
            # positional hand-over: over the whole proposal alphabet, accept branch forced, the same generator answers
            # give the same requests and the same value as sample(1, rng=rng); the rejection law itself was decided
            # on the keyword path
            for b in bases:
                lp, lk = [], []
                try:
                    op = execute(b, Decisions([True]), lp, "rng-pos")
                    ok = execute(b, Decisions([True]), lk, "rng")
                except UnownedRandomness as e:
                    agg.add("ModifiedHalfNormal", HANDOVER, "", where, "positional generator bypassed: %s" % e)
                    return
                res.transitions += 2
                res.evaluations += 1
                if op != ok or _canon_log(lp) != _canon_log(lk):
                    agg.add("ModifiedHalfNormal", HANDOVER, "", where, "sample(1, rng) and sample(1, rng=rng) differ for the "
                            "same generator answers (first proposal %r): %r vs %r" % (b, op, ok))
                    return
            res.traces += 1
            res.outcomes.add("%s:positional==keyword" % fct)
            return
        Ls, info = [], []
        for b in bases:
            boxes = []
            leaves = explore(lambda dcs: execute(b, dcs, boxes))
            res.transitions += len(leaves)
            res.traces += 1
            acc = [(dcs, o) for dcs, o in leaves if o[0] == "accept"]
            rej = [(dcs, o) for dcs, o in leaves if o[0] == "reject"]
            # later proposals repeat the same generator request (i.i.d. proposals)
            for lg in boxes:
                reqs = [r for r in lg if r["kind"] in ("gamma", "normal")]
                for r in reqs[1:]:
                    same = all(np.array_equal(np.asarray(r.get(a)), np.asarray(reqs[0].get(a)))
                               for a in ("shape_param", "scale", "loc") if a in reqs[0])
                    if not same:
                        agg.add("ModifiedHalfNormal", "proposal-changes", fct, where, "a later proposal request differs from the first")
            if not acc:
                # never accepted: fine only outside the support (x <= 0) -- we cannot see x; use the transform at +-0
                info.append((b, None, 0.0))
                res.outcomes.add("never-accepted")
                # the only legitimate reason is a non-positive candidate: normal proposal with mu+sd*b <= 0
                if kind == "gamma":
                    agg.add("ModifiedHalfNormal", "acceptance-zero", fct, where,
                            "a positive candidate (gamma proposal %r) is never accepted although the density is positive there" % b)
                else:
                    xcand = _f(first["loc"]) + _f(first["scale"]) * b
                    if xcand > 0 and np.isfinite(target(xcand)):
                        agg.add("ModifiedHalfNormal", "acceptance-zero", fct, where,
                                "candidate %r > 0 is never accepted although the density is positive there" % xcand)
                continue
            dcs, (_, x) = acc[0]
            pts = [p for p in dcs.points]
            if len(pts) != 1:
                raise HarnessError("expected exactly one decision on the accept path, got %r" % (pts,))
            p_true, _, pinfo = pts[0]
            if pinfo[0] != "log":
                raise HarnessError("acceptance is not a log-uniform comparison: %r" % (pinfo,))
            log_a = float(pinfo[2])
            # derivative of the observed transform base -> x (accept branch forced)
            h = 0.04 * abs(b) if kind == "gamma" else 0.04

            def phi(bb):
                o = execute(bb, Decisions([True]), [])
                if o[0] != "accept":
                    return np.nan
                return o[1]
            if kind == "normal" and x == _f(first["loc"]) + _f(first["scale"]) * b:
                dphi = _f(first["scale"])       # the returned value is the proposal itself: numpy's loc + scale*z
                res.count("transform:identity")
            else:
                d1 = (phi(b + h) - phi(b - h)) / (2 * h)
                d2 = (phi(b + h / 2) - phi(b - h / 2)) / (h)
                d3 = (phi(b + h / 4) - phi(b - h / 4)) / (h / 2)
                res.transitions += 6
                dphi = (16 * (4 * d3 - d2) / 3 - (4 * d2 - d1) / 3) / 15
                res.count("transform:differentiated")
            if not np.isfinite(dphi) or dphi == 0:
                res.count("alphabet-point-without-derivative")     # a neighbour is rejected with probability one
                continue
            if x <= 0:
                agg.add("ModifiedHalfNormal", "support", fct, where, "a non-positive value %r was returned" % x)
                continue
            res.evaluations += 1
            if log_a > 1e-9:
                agg.add("ModifiedHalfNormal", "acceptance-above-one", fct, where,
                        "acceptance threshold exp(%.6g) > 1 at x=%r: the envelope does not dominate the target" % (log_a, x))
            L = logg(b) + log_a - np.log(abs(dphi)) - target(x)
            Ls.append(L)
            info.append((b, x, math.exp(min(log_a, 0.0))))
            if rej and abs(sum(dc.prob for dc, _ in leaves) - 1.0) > 1e-12:
                raise HarnessError("leaf probabilities do not sum to one")
        if Ls:
            Ls = np.array(Ls)
            res.evaluations += 1
            if not np.all(np.isfinite(Ls)) or float(Ls.max() - Ls.min()) > 1e-6 * max(1.0, float(np.max(np.abs(Ls)))):
                agg.add("ModifiedHalfNormal", "rejection-law", fct, where,
                        "proposal density x acceptance probability is not proportional to %s over the alphabet "
                        "(log-ratio spread %.3g)" % ("the documented MHN density" if mode == "internal" else "the object's logpdf",
                                                      float(np.nanmax(Ls) - np.nanmin(Ls))), table=info)
            res.outcomes.add("%s:%.6g" % (fct, float(Ls[0])))
        if res.sample is None:
            res.sample = {"params": [al, be, ga], "mode": mode, "proposal": kind, "base_x_accept": info[:6]}


# =========================================================================================
# engine D: stream discipline with real generators, wrapping, conditionals
# =========================================================================================
def _disc_specs():
    import scipy.sparse as sp
    S3 = refs.spd_matrix(3, 0)
    R3 = _gen_matrix(3, 0)
    specs = {}

    def add(name, fam, facet, mk):
        specs[name] = (fam, facet, mk)
    import cuqi
    D = cuqi.distribution
    add("gauss-cov-scalar", "Gaussian", "param=cov,form=scalar,regime=dense", lambda: D.Gaussian(np.zeros(3), 2.0))
    add("gauss-cov-full", "Gaussian", "param=cov,form=full,regime=dense", lambda: D.Gaussian(refs.dyadic_vec(3), S3))
    add("gauss-prec-sparse", "Gaussian", "param=prec,form=sparse,regime=dense", lambda: D.Gaussian(np.zeros(3), prec=sp.csr_matrix(S3)))
    add("gauss-sqrtcov-full", "Gaussian", "param=sqrtcov,form=full,regime=dense", lambda: D.Gaussian(np.zeros(3), sqrtcov=R3))
    add("gauss-sqrtprec-upper", "Gaussian", "param=sqrtprec,form=upper,regime=dense", lambda: D.Gaussian(np.ones(3), sqrtprec=np.triu(R3)))
    add("gauss-sqrtprec-sparsediag", "Gaussian", "param=sqrtprec,form=sparsediag,regime=dense",
        lambda: D.Gaussian(np.ones(3), sqrtprec=sp.diags([1.0, 2.0, 0.5])))
    add("gauss-dim1", "Gaussian", "param=cov,form=scalar,regime=dense", lambda: D.Gaussian(0.5, 2.0))
    add("gauss-large", "Gaussian", "param=cov,form=full,regime=sparse-switch", lambda: D.Gaussian(np.zeros(76), _spd(76, 0)))
    add("gauss-continuous1d", "Gaussian", "param=cov,form=vector,regime=dense",
        lambda: D.Gaussian(np.zeros(4), np.array([1.0, 2.0, 3.0, 4.0]), geometry=cuqi.geometry.Continuous1D(np.linspace(0, 1, 4))))
    add("gauss-image2d", "Gaussian", "param=cov,form=scalar,regime=dense",
        lambda: D.Gaussian(np.zeros(6), 1.5, geometry=cuqi.geometry.Image2D((2, 3))))
    add("gauss-kl", "Gaussian", "param=cov,form=scalar,regime=dense",
        lambda: D.Gaussian(np.zeros(3), 1.0, geometry=cuqi.geometry.KLExpansion(np.linspace(0, 1, 8), num_modes=3)))
    for bc in BCS:
        add("gmrf-1d-" + bc, "GMRF", "bc=%s,order=1" % bc, lambda bc=bc: D.GMRF(np.zeros(5), 2.0, bc_type=bc, geometry=5))
        add("gmrf-1d-o2-" + bc, "GMRF", "bc=%s,order=2" % bc, lambda bc=bc: D.GMRF(np.zeros(5), 2.0, bc_type=bc, order=2, geometry=5))
        add("gmrf-2d-" + bc, "GMRF", "bc=%s,order=1" % bc,
            lambda bc=bc: D.GMRF(np.zeros(9), 2.0, bc_type=bc, geometry=cuqi.geometry.Image2D((3, 3))))
    add("lognormal", "Lognormal", "form=full", lambda: D.Lognormal(np.zeros(3), S3))
    add("lognormal-dim1", "Lognormal", "form=scalar", lambda: D.Lognormal(np.zeros(1), 0.5))
    add("gallery", "DistributionGallery", "name=BivariateGaussian", lambda: D.DistributionGallery("BivariateGaussian"))
    for fam, (pnames, vecok, gen) in FAMILIES.items():
        add(fam.lower() + "-dim1", fam, "pform=" + "s" * len(pnames),
            lambda fam=fam, pnames=pnames: getattr(D, fam)(**{p: _family_value(fam, p, False, 1, 0) for p in pnames}))
        add(fam.lower() + "-dim3", fam, "pform=" + "v" + "s" * (len(pnames) - 1),
            lambda fam=fam, pnames=pnames: getattr(D, fam)(**{p: _family_value(fam, p, i == 0, 3, 0) for i, p in enumerate(pnames)}))
        add(fam.lower() + "-dim3-geom", fam, "pform=" + "s" * len(pnames),
            lambda fam=fam, pnames=pnames: getattr(D, fam)(geometry=3, **{p: _family_value(fam, p, False, 3, 0) for p in pnames}))
    add("mhn-scalar", "ModifiedHalfNormal", "params=scalar", lambda: D.ModifiedHalfNormal(2.0, 1.0, 0.5))
    add("mhn-scalar-neg", "ModifiedHalfNormal", "params=scalar", lambda: D.ModifiedHalfNormal(0.75, 1.5, -0.5))
    add("mhn-vector", "ModifiedHalfNormal", "dim>1",
        lambda: D.ModifiedHalfNormal(np.array([2.0, 3.0]), np.array([1.0, 1.5]), np.array([0.5, -0.5])))
    add("mhn-scalar-geom", "ModifiedHalfNormal", "dim>1", lambda: D.ModifiedHalfNormal(2.0, 1.0, 0.5, geometry=3))
    return specs


RNG_KINDS = ("RandomState", "RandomState-advanced", "Generator")


def _shape_facet(fam, facet):
    if fam == "GMRF":
        return [f for f in facet.split(",") if f.startswith("bc=")][0]
    return facet


def _mk_rng(kind, seed):
    if kind == "RandomState":
        return np.random.RandomState(seed)
    if kind == "RandomState-advanced":
        r = np.random.RandomState(seed)
        r.standard_normal(5)
        r.uniform(size=3)
        return r
    return np.random.default_rng(seed)


def _raw(out, N):
    return np.array(np.asarray(out if N == 1 else out.samples), dtype=float, copy=True)


def _call_form(d, form, N, r):
    if form == "rng":
        return d.sample(N, rng=r)
    if form == "rng-pos":
        return d.sample(N, r)
    if form == "rng-Nkw":
        return d.sample(N=N, rng=r)
    if form == "rng-noN":
        if N != 1:
            raise HarnessError("sample(rng=r) draws once")
        return d.sample(rng=r)
    raise HarnessError(form)


def _rng_state(r):
    if isinstance(r, np.random.RandomState):
        st = r.get_state()
        return (st[0], st[1].tobytes()) + tuple(st[2:])
    return repr(r.bit_generator.state)


def _global_state():
    st = np.random.get_state()
    return (st[0], st[1].tobytes()) + tuple(st[2:])


def _same_draws(o1, o2, N):
    """type, shape and every value identical"""
    if type(o1) is not type(o2):
        return False
    try:
        a1, a2 = _raw(o1, N), _raw(o2, N)
    except Exception:
        return False
    return a1.shape == a2.shape and np.array_equal(a1, a2, equal_nan=True)


def _forms_probe(res, agg, fam, d, N, kind, seed, where, o1, s1, reset=None):
    """Real generator of ``kind`` in the state ``seed``; o1 = d.sample(N, rng=r) left r in state s1.  Every other call form
    must be the same function of the generator: identical draws from an equal state, generator left in the identical state,
    equal states -> equal draws, global numpy stream untouched.  Refusing a call form (TypeError) is allowed.
    -> the set of call forms that did not pass."""
    failed = set()
    for form in DIFFERENTIAL_FORMS:
        if form == "rng-noN" and N != 1:
            continue
        w = dict(where, path=form)
        if form == "rng-noN":
            w.pop("N", None)            # exists for one N only: must not make a signature look N-specific
        res.state("N=%d/%s/%s" % (N, kind, form))
        r = _mk_rng(kind, seed)
        np.random.seed(4242)
        g0 = _global_state()
        try:
            if reset:
                reset()
            p1 = _call_form(d, form, N, r)
            g1 = _global_state()
            sp = _rng_state(r)
            if reset:
                reset()
            p2 = _call_form(d, form, N, _mk_rng(kind, seed))
        except HarnessError:
            raise
        except Exception as e:
            res.refused += 1
            res.transitions += 1
            res.outcomes.add("form-refused:%s:%s" % (form, type(e).__name__))
            if not isinstance(e, (TypeError, NotImplementedError)):
                agg.add(fam, "sample-raises", "", w, "%s raised %r although sample(N, rng=r) draws" % (FORM_TEXT[form], e))
            failed.add(form)
            continue
        res.transitions += 2
        res.evaluations += 4
        problems = []
        if g1 != g0:
            problems.append("the global numpy generator advanced")
        if not _same_draws(p1, o1, N):
            problems.append("the draws differ from those of sample(N, rng=r) for an equal generator state")
        if not _same_draws(p1, p2, N):
            problems.append("two generators in the same state gave different draws")
        if sp != s1:
            problems.append("the generator is left in another state than by sample(N, rng=r)")
        if problems:
            agg.add(fam, HANDOVER, "", w, "%s: %s" % (FORM_TEXT[form], "; ".join(problems)))
            failed.add(form)
        else:
            res.outcomes.add("%s==keyword:%s:N=%d" % (form, kind, N))
    return failed


def _eval_disc(cell, res):
    specs = _disc_specs()
    fam, facet, mk = specs[cell["spec"]]
    agg = _Agg({"N": NS, "rng": RNG_KINDS, "path": CALL_FORMS})
    try:
        d = mk()
    except Exception as e:
        res.refused += 1
        res.transitions += 1
        res.nontrivial = False
        res.outcomes.add("construct-refused:%s" % type(e).__name__)
        return res
    if fam == "Gaussian":
        facet = "sqrtprec=" + _sqrtprec_structure(d)
    seed = 11 + cell["cat"]
    for N in NS:
        for kind in RNG_KINDS:
            where = {"N": N, "rng": kind}
            res.state("N=%d/%s" % (N, kind))
            np.random.seed(4242)
            g0 = np.random.get_state()
            r1 = _mk_rng(kind, seed)
            s0 = _rng_state(r1)
            try:
                o1 = d.sample(N, rng=r1)
                g1 = np.random.get_state()
                s1 = _rng_state(r1)
                o2 = d.sample(N, rng=_mk_rng(kind, seed))
                o3 = d.sample(N, rng=_mk_rng(kind, seed + 1))
            except Exception as e:
                # refusing a generator type / an unsupported sampler is allowed; it must not have touched the global state
                res.refused += 1
                res.transitions += 1
                res.outcomes.add("refused:%s:%s" % (kind, type(e).__name__))
                agg.skip(where)
                if kind != "Generator" and not isinstance(e, NotImplementedError):
                    agg.add(fam, "sample-raises", facet, {"N": N}, "sample(N, rng=RandomState) raised %r" % (e,))
                continue
            res.transitions += 3
            res.evaluations += 3
            same_global = (g0[0] == g1[0] and np.array_equal(g0[1], g1[1]) and g0[2:] == g1[2:])
            if not same_global:
                agg.add(fam, "global-state-moved", facet, where, "the global numpy generator advanced although an rng was passed")
            prob = _wrap_problem(o1, N, d)
            if prob:
                agg.add(fam, "sample-shape", _shape_facet(fam, facet), ({"rng": kind} if facet == "dim>1" else where), prob)
            a1, a2, a3 = _raw(o1, N), _raw(o2, N), _raw(o3, N)
            if a1.shape != a2.shape or not np.array_equal(a1, a2):
                agg.add(fam, "not-deterministic", facet, where, "two generators in the same state gave different draws")
            if not np.all(np.isfinite(a1)):
                agg.add(fam, "non-finite-draw", facet, where, "a draw is not finite")
            res.outcomes.add("%s:%s:%s:%s" % (cell["spec"], kind, a1.shape, "dep" if (a1.shape != a3.shape or not np.array_equal(a1, a3)) else "const"))
            if a1.shape == a3.shape and np.array_equal(a1, a3):
                res.count("draw-independent-of-rng-state")
            if N > 1 and not prob:
                cols = a1.reshape(-1, N)
                if any(np.array_equal(cols[:, 0], cols[:, j]) for j in range(1, N)):
                    agg.add(fam, "repeated-columns", facet, where, "two of the N draws are identical")
            res.evaluations += 1
            if s1 == s0:
                agg.add(fam, "rng-not-advanced", facet, where, "sample(N, rng=r) returned draws but left the generator r in the "
                        "state it was given in")
            _forms_probe(res, agg, fam, d, N, kind, seed, where, o1, s1)
    res.traces += 1
    if res.sample is None:
        res.sample = {"spec": cell["spec"], "family": fam, "facet": facet, "N": list(NS), "rng_kinds": list(RNG_KINDS),
                      "call_forms": [FORM_TEXT[f] for f in CALL_FORMS]}
    agg.emit(res)
    return res


def _cond_makers():
    import cuqi
    D = cuqi.distribution
    one = np.ones(2)
    return {
        "Gaussian/mean=None": ("Gaussian", lambda: D.Gaussian(None, 1.0, geometry=2), {"mean": one}),
        "Gaussian/mean=callable": ("Gaussian", lambda: D.Gaussian(lambda z: z * one, 1.0), {"z": 2.0}),
        "Gaussian/cov=callable": ("Gaussian", lambda: D.Gaussian(np.zeros(2), cov=lambda s: s), {"s": 2.0}),
        "Gaussian/prec=callable": ("Gaussian", lambda: D.Gaussian(np.zeros(2), prec=lambda s: s), {"s": 2.0}),
        "Gaussian/sqrtprec=callable": ("Gaussian", lambda: D.Gaussian(np.zeros(2), sqrtprec=lambda s: s), {"s": 2.0}),
        "Gaussian/two": ("Gaussian", lambda: D.Gaussian(lambda z: z * one, cov=lambda s: s), {"z": 1.0, "s": 2.0}),
        "Gaussian/two,geometry": ("Gaussian", lambda: D.Gaussian(lambda z: z * one, cov=lambda s: s, geometry=2), {"z": 1.0, "s": 2.0}),
        "Normal/two": ("Normal", lambda: D.Normal(lambda m: m, lambda s: s), {"m": 0.5, "s": 2.0}),
        "GMRF/prec=callable": ("GMRF", lambda: D.GMRF(np.zeros(4), lambda dlt: dlt, geometry=4), {"dlt": 2.0}),
        "GMRF/prec=None": ("GMRF", lambda: D.GMRF(np.zeros(4), None, geometry=4), {"prec": 2.0}),
        "Lognormal/mean=None": ("Lognormal", lambda: D.Lognormal(None, 1.0, geometry=2), {"mean": one}),
        "Normal/mean=None": ("Normal", lambda: D.Normal(None, 1.0), {"mean": 0.5}),
        "Normal/std=callable": ("Normal", lambda: D.Normal(0.0, lambda s: s), {"s": 2.0}),
        "Gamma/shape=callable": ("Gamma", lambda: D.Gamma(lambda s: s, 1.0), {"s": 2.0}),
        "Gamma/rate=None": ("Gamma", lambda: D.Gamma(2.0, None), {"rate": 2.0}),
        "Laplace/location=None": ("Laplace", lambda: D.Laplace(None, 1.0, geometry=2), {"location": one}),
        "Uniform/low=None": ("Uniform", lambda: D.Uniform(None, 1.0, geometry=2), {"low": -one}),
        "Beta/alpha=None": ("Beta", lambda: D.Beta(None, 1.0, geometry=2), {"alpha": 2 * one}),
        "InverseGamma/shape=None": ("InverseGamma", lambda: D.InverseGamma(None, 0.0, 1.0, geometry=2), {"shape": 2 * one}),
        "Cauchy/location=None": ("Cauchy", lambda: D.Cauchy(None, 1.0, geometry=2), {"location": one}),
        "Cauchy/scale=callable": ("Cauchy", lambda: D.Cauchy(0.0, lambda s: s), {"s": 2.0}),
    }


def _eval_cond(cell, res):
    fam, mk, full = _cond_makers()[cell["spec"]]
    facet = cell["spec"].split("/", 1)[1]
    try:
        d = mk()
    except Exception as e:
        res.refused += 1
        res.transitions += 1
        res.nontrivial = False
        res.outcomes.add("construct-refused:%s" % type(e).__name__)
        return res
    if not d.is_cond:
        raise HarnessError("the harness built a non-conditional object for %s" % cell["spec"])

    def must_refuse(obj, label):
        for N, rng in ((1, None), (2, None), (1, np.random.RandomState(0)), (3, np.random.RandomState(0))):
            res.transitions += 1
            res.state("%s/N=%d/%s" % (label, N, "rng" if rng is not None else "global"))
            try:
                out = obj.sample(N, rng=rng) if rng is not None else obj.sample(N)
            except Exception as e:
                res.outcomes.add("refused:%s" % type(e).__name__)
                continue
            res.fail("C05|%s|conditional-sampled|%s" % (fam, facet), "a conditional distribution (%s, missing %s) returned a draw %r"
                     % (label, obj.get_conditioning_variables(), np.asarray(out if N == 1 else out.samples).ravel()[:3]))
            return
    must_refuse(d, "unconditioned")
    keys = list(full)
    for r in range(1, len(keys)):           # every proper subset of the conditioning variables
        for sub in itertools.combinations(keys, r):
            try:
                part = d(**{a: full[a] for a in sub})
            except Exception as e:
                res.refused += 1
                res.outcomes.add("partial-conditioning-refused:%s" % type(e).__name__)
                continue
            if part.is_cond:
                must_refuse(part, "partially conditioned on %s" % (sub,))
    try:
        done = d(**full)
        out = done.sample(2, rng=np.random.RandomState(1))
        res.transitions += 1
        prob = _wrap_problem(out, 2, done)
        if prob:
            res.fail("C05|%s|sample-shape|conditioned,%s" % (fam, facet), prob)
        res.outcomes.add("conditioned-samples")
    except Exception as e:
        res.refused += 1
        res.outcomes.add("conditioned-refused:%s" % type(e).__name__)
    # differential oracle: the fully conditioned object is the distribution one gets by passing the same values directly
    direct = _cond_direct().get(cell["spec"])
    if direct is not None:
        try:
            done, twin = d(**full), direct()
        except Exception as e:
            res.outcomes.add("direct-twin-refused:%s" % type(e).__name__)
            done = twin = None
        if done is not None:
            res.transitions += 2
            res.state("conditioned-vs-direct")
            obs = []
            for o in (done, twin):
                try:
                    sm = np.asarray(o.sample(3, rng=np.random.RandomState(1)).samples, float)
                except Exception as e:
                    sm = "raises:" + type(e).__name__
                try:
                    lp = float(np.asarray(o.logpdf(np.arange(1, (twin.dim or 1) + 1) * 0.25)).ravel()[0])
                except Exception as e:
                    lp = "raises:" + type(e).__name__
                obs.append((sm, lp))
            (sa, la), (sb, lb) = obs
            same_s = (isinstance(sa, str) and sa == sb) or (not isinstance(sa, str) and not isinstance(sb, str) and sa.shape == sb.shape and close(sa, sb, 1e-12))
            same_l = (isinstance(la, str) and la == lb) or (not isinstance(la, str) and not isinstance(lb, str) and close(la, lb, 1e-12))
            if not (same_s and same_l) and not isinstance(sb, str):
                res.fail("C05|%s|conditioned-vs-direct|%s" % (fam, facet), "the fully conditioned distribution does not draw / report its density like the "
                         "same distribution constructed directly from the same values: draws %s vs %s, logpdf %r vs %r"
                         % (sa if isinstance(sa, str) else sa[:, 0], sb if isinstance(sb, str) else sb[:, 0], la, lb))
            res.outcomes.add("conditioned-vs-direct:%s" % (same_s and same_l))
    res.traces += 1
    res.evaluations += 1
    return res


def _cond_direct():
    """spec -> constructor of the non-conditional twin (same family, same values given directly, same geometry option)."""
    import cuqi
    D = cuqi.distribution
    one = np.ones(2)
    return {
        "Gaussian/mean=None": lambda: D.Gaussian(one, 1.0, geometry=2),
        "Gaussian/mean=callable": lambda: D.Gaussian(2.0 * one, 1.0),
        "Gaussian/cov=callable": lambda: D.Gaussian(np.zeros(2), cov=2.0),
        "Gaussian/prec=callable": lambda: D.Gaussian(np.zeros(2), prec=2.0),
        "Gaussian/sqrtprec=callable": lambda: D.Gaussian(np.zeros(2), sqrtprec=2.0),
        "Gaussian/two,geometry": lambda: D.Gaussian(one, cov=2.0, geometry=2),
        "Normal/two": lambda: D.Normal(0.5, 2.0),
        "GMRF/prec=callable": lambda: D.GMRF(np.zeros(4), 2.0, geometry=4),
        "GMRF/prec=None": lambda: D.GMRF(np.zeros(4), 2.0, geometry=4),
        "Lognormal/mean=None": lambda: D.Lognormal(one, 1.0, geometry=2),
        "Normal/mean=None": lambda: D.Normal(0.5, 1.0),
        "Normal/std=callable": lambda: D.Normal(0.0, 2.0),
        "Gamma/shape=callable": lambda: D.Gamma(2.0, 1.0),
        "Gamma/rate=None": lambda: D.Gamma(2.0, 2.0),
        "Laplace/location=None": lambda: D.Laplace(one, 1.0, geometry=2),
        "Uniform/low=None": lambda: D.Uniform(-one, 1.0, geometry=2),
        "Beta/alpha=None": lambda: D.Beta(2 * one, 1.0, geometry=2),
        "InverseGamma/shape=None": lambda: D.InverseGamma(2 * one, 0.0, 1.0, geometry=2),
        "Cauchy/location=None": lambda: D.Cauchy(one, 1.0, geometry=2),
        "Cauchy/scale=callable": lambda: D.Cauchy(0.0, 2.0),
    }


# ---- objects derived from other objects: conditioning calls, joint distributions, user-defined samplers ---------------
GALLERY_OTHER = ("CalSom91", "funnel", "mixture", "squiggle", "donut", "banana")


def _derived_specs():
    """name -> (family, facet, build); build() -> dict(obj, twins=[(route, object that must draw identically)], reset, uses_rng)"""
    import cuqi
    D = cuqi.distribution
    specs = {}
    for name, (fam, mk, full) in _cond_makers().items():
        def build(mk=mk, full=full):
            d = mk()
            keys = list(full)
            twins = [("conditioned-again", d(**full))]
            if len(keys) > 1:                # one variable at a time, every order
                for perm in itertools.permutations(keys):
                    t = d
                    for a in perm:
                        t = t(**{a: full[a]})
                    twins.append(("one-at-a-time:" + ">".join(perm), t))
            return {"obj": d(**full), "twins": twins}
        specs["cond:" + name] = (fam, "conditioned," + name.split("/", 1)[1], build)

    v2 = np.array([0.5, -1.25])
    c2 = np.array([1.0, 0.5])

    def joint2():
        x = D.Gaussian(np.zeros(2), 1.5, geometry=2, name="x")
        y = D.Gaussian(lambda x: 2 * x, c2, geometry=2, name="y")
        return x, y, D.JointDistribution(x, y)

    def b_member():
        x, y, J = joint2()
        return {"obj": J.get_density("x"), "twins": [("stand-alone", D.Gaussian(np.zeros(2), 1.5, geometry=2))]}

    def b_reduced():
        x, y, J = joint2()
        return {"obj": J(x=v2), "twins": [("member-conditioned", J.get_density("y")(x=v2)),
                                          ("stand-alone", D.Gaussian(2 * v2, c2, geometry=2))]}
    specs["joint:member"] = ("Gaussian", "joint-member", b_member)
    specs["joint:reduced"] = ("Gaussian", "joint-reduced", b_reduced)

    def hier():
        sd = D.Gamma(2.0, 1.0, name="s")
        x = D.Gaussian(np.zeros(3), cov=lambda s: 1.0 / s, geometry=3, name="x")
        return sd, x, D.JointDistribution(sd, x)

    def b_hier_x():
        sd, x, J = hier()
        return {"obj": J(s=2.0), "twins": [("member-conditioned", x(s=2.0)), ("stand-alone", D.Gaussian(np.zeros(3), cov=0.5, geometry=3))]}

    def b_hier_s():             # conditioning on the data leaves a posterior: direct sampling is refused (allowed)
        sd, x, J = hier()
        return {"obj": J(x=np.ones(3)), "twins": []}

    def b_hier_member():
        sd, x, J = hier()
        return {"obj": J.get_density("s"), "twins": [("stand-alone", D.Gamma(2.0, 1.0))]}
    specs["joint:hier-x"] = ("Gaussian", "joint-reduced", b_hier_x)
    specs["joint:hier-s"] = ("Posterior", "joint-reduced", b_hier_s)
    specs["joint:hier-member"] = ("Gamma", "joint-member", b_hier_member)

    def b_logn_member():
        z = D.Lognormal(np.array([0.25, -0.5]), np.array([[1.0, 0.25], [0.25, 0.5]]), name="z")
        w = D.Gaussian(lambda z: z, 1.0, geometry=2, name="w")
        J = D.JointDistribution(z, w)
        return {"obj": J.get_density("z"), "twins": [("stand-alone", D.Lognormal(np.array([0.25, -0.5]), np.array([[1.0, 0.25], [0.25, 0.5]])))]}
    specs["joint:lognormal-member"] = ("Lognormal", "joint-member", b_logn_member)

    def b_udd():
        # the API hands no generator to sample_func: the user's callable is the only source of the draws, whatever the call form
        box = [0]

        def sample_func():
            box[0] += 1
            return np.array([box[0] + 0.25, -0.5 * box[0]])

        def reset():
            box[0] = 0
        u = D.UserDefinedDistribution(dim=2, logpdf_func=lambda x: -0.5 * float(np.sum(np.square(x))), sample_func=sample_func)
        return {"obj": u, "twins": [], "reset": reset, "uses_rng": False}
    specs["udd:scripted"] = ("UserDefinedDistribution", "sample_func=scripted", b_udd)
    for nm in GALLERY_OTHER:     # density-only gallery members: sampling is refused (allowed) in every call form
        specs["gallery:" + nm] = ("DistributionGallery", "name=" + nm, lambda nm=nm: {"obj": D.DistributionGallery(nm), "twins": []})
    return specs


def _eval_derived(cell, res):
    fam, facet, build = _derived_specs()[cell["spec"]]
    agg = _Agg({"N": NS, "rng": RNG_KINDS, "path": CALL_FORMS})
    try:
        built = build()
    except Exception as e:
        res.refused += 1
        res.transitions += 1
        res.nontrivial = False
        res.outcomes.add("construct-refused:%s" % type(e).__name__)
        return res
    d, twins, reset, uses_rng = built["obj"], built.get("twins", []), built.get("reset"), built.get("uses_rng", True)
    seed = 23 + cell["cat"]
    drew = False
    for N in NS:
        for kind in RNG_KINDS:
            where = {"N": N, "rng": kind}
            res.state("N=%d/%s" % (N, kind))
            np.random.seed(4242)
            g0 = _global_state()
            r1 = _mk_rng(kind, seed)
            s0 = _rng_state(r1)
            try:
                if reset:
                    reset()
                o1 = d.sample(N, rng=r1)
                g1 = _global_state()
                s1 = _rng_state(r1)
                if reset:
                    reset()
                o2 = d.sample(N, rng=_mk_rng(kind, seed))
            except Exception as e:
                # a derived object may refuse direct sampling (posterior, density-only gallery member, generator type)
                res.refused += 1
                res.transitions += 1
                res.outcomes.add("refused:%s:%s" % (kind, type(e).__name__))
                agg.skip(where)
                continue
            drew = True
            res.transitions += 2
            res.evaluations += 3
            if g1 != g0:
                agg.add(fam, "global-state-moved", facet, where, "the global numpy generator advanced although an rng was passed")
            if not _same_draws(o1, o2, N):
                agg.add(fam, "not-deterministic", facet, where, "two generators in the same state gave different draws")
            if uses_rng and s1 == s0:
                agg.add(fam, "rng-not-advanced", facet, where, "sample(N, rng=r) returned draws but left the generator r in the "
                        "state it was given in")
            prob = _wrap_problem(o1, N, d)
            if prob:
                agg.add(fam, "sample-shape", facet, where, prob)
            failed = _forms_probe(res, agg, fam, d, N, kind, seed, where, o1, s1, reset=reset)
            # the same distribution reached by another route draws identically from an equal generator state
            for route, t in twins:
                for form in ("rng", "rng-pos"):
                    if form in failed:
                        continue        # this call form is already reported for the reference object itself
                    res.transitions += 1
                    res.evaluations += 1
                    try:
                        p = _call_form(t, form, N, _mk_rng(kind, seed))
                    except Exception as e:
                        agg.add(fam, "derived-route", facet + ",route=" + route.split(":")[0], dict(where, path=form),
                                "%s of the object reached by '%s' raised %r; the reference object draws" % (FORM_TEXT[form], route, e))
                        continue
                    if not _same_draws(p, o1, N):
                        agg.add(fam, "derived-route", facet + ",route=" + route.split(":")[0], dict(where, path=form),
                                "the object reached by '%s' and the reference object give different draws from generators in "
                                "the same state" % route)
                    else:
                        res.outcomes.add("route:%s:%s" % (route, form))
    res.traces += 1
    if not drew:
        res.count("derived-object-refuses-sampling")
        res.nontrivial = False
    if res.sample is None:
        res.sample = {"spec": cell["spec"], "family": fam, "facet": facet, "routes": [r for r, _ in twins],
                      "call_forms": [FORM_TEXT[f] for f in CALL_FORMS], "sampled": drew}
    agg.emit(res)
    return res


# =========================================================================================
# engine E: samplers that call user code for every draw (UserDefinedDistribution.sample_func)
# =========================================================================================
# what the user's function hands back: who owns the memory x in which shape / container / dtype
UDD_OWNERS = ("fresh", "reused", "view")
#   fresh  : a new object with its own memory on every call
#   reused : the very same object on every call, overwritten in place between calls (pre-allocated work buffer)
#   view   : a new view object on every call onto one persistent array that is overwritten in place between calls
_ALL_OWNERS = UDD_OWNERS
# form -> (owners for which it exists, strict = a 1-D array(-subclass) of length dim: refusing it is not accepted, dims or None)
UDD_FORMS = {
    "flat": (_ALL_OWNERS, True, None),                    # float64 ndarray of shape (dim,)
    "strided": (("reused", "view"), True, None),          # non-contiguous (dim,) view: one column of a 2-D work array
    "readonly": (("fresh", "view"), True, None),          # (dim,) array flagged non-writeable
    "float32": (("fresh", "reused"), True, None),
    "int64": (("fresh", "reused"), True, None),
    "cuqiarray": (("fresh", "reused"), True, None),       # what ``lambda: other_distribution.sample()`` returns
    "column": (_ALL_OWNERS, False, None),                 # (dim, 1), the idiom of the class docstring
    "row": (_ALL_OWNERS, False, None),                    # (1, dim)
    "list": (("fresh", "reused"), False, None),           # python list of floats
    "0d": (_ALL_OWNERS, False, (1,)),                     # numpy scalar / 0-d array for a one-dimensional distribution
    "pyfloat": (("fresh",), False, (1,)),                 # python float for a one-dimensional distribution
}
UDD_ROUTES = ("stand-alone", "geometry-assigned", "copy-by-call")
UDD_DIMS = (1, 2, 3, 4)
# call forms: sample(N) / sample(N, rng=r) / sample(N, r) / sample(N=N, rng=r) and, for one draw, sample(rng=r) / sample()
UDD_PATHS = ("global", "rng", "rng-pos", "rng-Nkw", "rng-noN", "bare")
UDD_FORM_TEXT = dict(FORM_TEXT, **{"global": "sample(N)", "bare": "sample()"})


def _udd_ns(dim):
    return tuple(sorted({1, 2, 3, dim, dim + 1}))


def _udd_history(dim):
    """The complete call history executed on ONE live object: every N x every call form, then every N once more (a result
    of the same size as an earlier one is requested again after results of every other size)."""
    hist = []
    for N in _udd_ns(dim):
        for p in UDD_PATHS:
            if p in ("rng-noN", "bare") and N != 1:
                continue
            hist.append((N, p))
    for N in _udd_ns(dim):
        hist.append((N, "global"))
    return hist


class _UserSampler:
    """The user's sample_func: the t-th call returns the t-th scripted draw (all entries of all draws distinct, exactly
    representable in float32 / as integers) in the container described by (owner, form)."""

    def __init__(self, owner, form, dim, scale):
        self.dim = dim
        self.scale = 1.0 if form == "int64" else scale
        self.t = 0
        self._emit = self._make_emit(owner, form, dim)

    def value(self, t):
        return np.array([(-1) ** i * (8 * (t + 1) + i + 1) for i in range(self.dim)], dtype=float) * self.scale

    def __call__(self):
        v = self.value(self.t)
        self.t += 1
        return self._emit(v)

    @staticmethod
    def _make_emit(owner, form, dim):
        from cuqi.array import CUQIarray
        import cuqi
        dt = {"float32": np.float32, "int64": np.int64}.get(form, float)
        if owner == "fresh":
            table = {
                "flat": lambda v: v.copy(),
                "float32": lambda v: v.astype(dt),
                "int64": lambda v: v.astype(dt),
                "column": lambda v: v.reshape(dim, 1).copy(),
                "row": lambda v: v.reshape(1, dim).copy(),
                "list": lambda v: v.tolist(),
                "cuqiarray": lambda v: CUQIarray(v.copy(), geometry=cuqi.geometry.Continuous1D(dim)),
                "0d": lambda v: np.float64(v[0]),
                "pyfloat": lambda v: float(v[0]),
            }
            if form == "readonly":
                def ro(v):
                    a = v.copy()
                    a.flags.writeable = False
                    return a
                return ro
            return table[form]
        if owner == "reused":
            if form == "list":
                lst = [0.0] * dim

                def e(v):
                    lst[:] = v.tolist()
                    return lst
                return e
            if form == "strided":
                work = np.zeros((dim, 2))[:, 0]
            elif form == "cuqiarray":
                work = CUQIarray(np.zeros(dim), geometry=cuqi.geometry.Continuous1D(dim))
            else:
                shape = {"flat": (dim,), "float32": (dim,), "int64": (dim,), "column": (dim, 1), "row": (1, dim), "0d": ()}[form]
                work = np.zeros(shape, dtype=dt)

            def e(v):
                work[...] = v.reshape(work.shape)
                return work
            return e
        # owner == "view": a new view object per call onto persistent, overwritten memory
        if form in ("flat", "readonly"):
            big = np.zeros(dim + 2)

            def e(v):
                big[1:1 + dim] = v
                w = big[1:1 + dim]
                if form == "readonly":
                    w.flags.writeable = False
                return w
            return e
        if form == "strided":
            big = np.zeros((dim, 2))

            def e(v):
                big[:, 0] = v
                return big[:, 0]
            return e
        if form == "column":
            big = np.zeros((dim, 3))

            def e(v):
                big[:, 1] = v
                return big[:, 1:2]
            return e
        if form == "row":
            big = np.zeros((3, dim))

            def e(v):
                big[1, :] = v
                return big[1:2, :]
            return e
        if form == "0d":
            big = np.zeros(3)

            def e(v):
                big[1] = v[0]
                return big[1:2].reshape(())
            return e
        raise HarnessError("no user sampler for %s/%s" % (owner, form))


def _udd_build(route, smp, dim):
    import cuqi
    u = cuqi.distribution.UserDefinedDistribution(dim=dim, logpdf_func=lambda x: -0.5 * float(np.sum(np.square(x))), sample_func=smp)
    if route == "geometry-assigned":
        u.geometry = cuqi.geometry.Continuous1D(np.linspace(0.0, 1.0, dim))
    elif route == "copy-by-call":
        u = u()                   # no conditioning variables: the call returns a copy that shares the user's function
    if u.dim != dim:
        raise ValueError("dimension lost")
    return u


def _udd_cells(tier, k):
    for dim in UDD_DIMS:
        for owner in UDD_OWNERS:
            yield {"kind": "udd", "dim": dim, "owner": owner, "cat": k}


def _eval_udd(cell, res):
    dim, owner, k = cell["dim"], cell["owner"], cell["cat"]
    fam = "UserDefinedDistribution"
    scale = 2.0 ** -(2 + k)
    hist = _udd_history(dim)
    fails = []          # (operation, where, message, detail)
    evaluated = []      # every (form, route, N, path) executed
    for form, (owners, strict, dims) in UDD_FORMS.items():
        if owner not in owners or (dims is not None and dim not in dims):
            continue
        for route in UDD_ROUTES:
            smp = _UserSampler(owner, form, dim, scale)
            try:
                d = _udd_build(route, smp, dim)
            except Exception as e:
                res.refused += 1
                res.transitions += 1
                res.outcomes.add("construct-refused:%s:%s" % (route, type(e).__name__))
                continue
            kept = []       # [returned object, private copy of its values, where, text of the call, already reported]

            def verify_kept(later):
                for item in kept:
                    if item[4]:
                        continue
                    res.evaluations += 1
                    try:
                        now = _matrix(item[0], item[2]["N"], dim)
                        same = np.array_equal(now, item[1], equal_nan=True)
                    except Exception:
                        now, same = None, False
                    if not same:
                        item[4] = True
                        fails.append(("draw-aliased", item[2], "the draws returned by %s changed when %s was executed afterwards: the "
                                      "returned object shares memory with the user's work space" % (item[3], later),
                                      {"returned": item[1], "now": now}))

            for N, path in hist:
                where = {"form": form, "route": route, "N": N, "path": path}
                evaluated.append(where)
                res.state("%s/%s/N=%d/%s" % (form, route, N, path))
                text = "%s with N=%d" % (UDD_FORM_TEXT[path], N)
                np.random.seed(4242)
                g0 = _global_state()
                t0 = smp.t
                r = np.random.RandomState(7) if path.startswith("rng") else None
                try:
                    out = d.sample(N) if path == "global" else (d.sample() if path == "bare" else _call_form(d, path, N, r))
                except HarnessError:
                    raise
                except Exception as e:
                    res.transitions += 1
                    res.refused += 1
                    res.outcomes.add("refused:%s:%s:%s" % (form, "N=1" if N == 1 else "N>1", type(e).__name__))
                    baseline = path in ("global", "rng")
                    if strict and (baseline or not isinstance(e, (TypeError, NotImplementedError))):
                        fails.append(("sample-raises", where, "%s raised %r although sample_func returns an array of shape (dim,)" % (text, e), {}))
                    verify_kept(text)
                    continue
                res.transitions += 1
                t1 = smp.t
                if _global_state() != g0:
                    fails.append(("global-state-moved", where, "the global numpy generator advanced although sample_func does not use it", {}))
                prob = _wrap_problem(out, N, d)
                if prob:
                    fails.append(("sample-shape", where, prob, {}))
                    verify_kept(text)
                    continue
                M = _matrix(out, N, dim)
                # column j must be one of the draws sample_func produced during this very call, in call order, none used twice
                idx = []
                for j in range(N):
                    hit = [t for t in range(t0, t1) if np.array_equal(M[:, j], smp.value(t))]
                    idx.append(hit[0] - t0 if hit else None)
                res.evaluations += 1
                ok = all(i is not None for i in idx) and all(idx[j] < idx[j + 1] for j in range(N - 1))
                if not ok:
                    fails.append(("draw-columns", where, "%s called sample_func %d time(s); the columns of the result are the draws number %s of "
                                  "that call sequence (None = no draw of this call); expected one column per draw, in call order"
                                  % (text, t1 - t0, idx), {"result": M, "scripted": np.array([smp.value(t) for t in range(t0, t1)]).T}))
                else:
                    res.outcomes.add("udd:%s:%s:N=%d:calls=%s" % (owner, form, N, "N" if t1 - t0 == N else t1 - t0))
                where["returned"] = True
                kept.append([out, M.copy(), where, text, False])
                verify_kept(text)
            smp()           # the user draws once more for himself: the work space is overwritten
            verify_kept("the user's own next call of sample_func")
            res.traces += 1
            if res.sample is None:
                res.sample = {"owner": owner, "form": form, "route": route, "dim": dim, "history": [list(h) for h in hist],
                              "scripted_draws_first3": [smp.value(t) for t in range(3)]}
    # one narrow signature per operation: the owner always, another axis only when the failure is specific to it
    # (universe of an axis = the instances in which the operation could be evaluated at all: for verdicts about a returned
    # result these are the calls that returned a well-formed result)
    by_op = {}
    for f in fails:
        by_op.setdefault(f[0], []).append(f)
    for op, lst in sorted(by_op.items()):
        uni = [w for w in evaluated if op == "sample-raises" or w.get("returned")]
        uni = uni + [w for _, w, _, _ in lst if w not in uni]
        facet = ["returns=" + owner]
        seen_n = sorted({w["N"] for _, w, _, _ in lst})
        if set(seen_n) < {w["N"] for w in uni}:
            facet.append("N=1" if seen_n == [1] else ("N>1" if 1 not in seen_n else "N=" + "/".join(map(str, seen_n))))
        uni = [w for w in uni if w["N"] in seen_n]
        seen_forms = {w["form"] for _, w, _, _ in lst}
        rest = {w["form"] for w in uni} - seen_forms
        if rest:
            facet.append("form=" + "/".join(sorted(seen_forms)) if len(seen_forms) <= len(rest) else "form!=" + "/".join(sorted(rest)))
        uni = [w for w in uni if w["form"] in seen_forms]
        seen_routes = {w["route"] for _, w, _, _ in lst}
        if seen_routes < {w["route"] for w in uni}:
            facet.append("route=" + "/".join(sorted(seen_routes)))
        seen_paths = {w["path"] for _, w, _, _ in lst}
        # which earlier result is overwritten by a later call is a matter of the history, not of the call form
        if op != "draw-aliased" and seen_paths < {w["path"] for w in uni}:
            facet.append("path=" + "/".join(sorted(seen_paths)))
        _, w, msg, detail = lst[0]
        w = {a: v for a, v in w.items() if a != "returned"}
        res.fail("C05|%s|%s|%s" % (fam, op, ",".join(facet)), msg + " [first at %s; %d instance(s)]" % (w, len(lst)), focus=w, **detail)
    if not res.traces:
        res.nontrivial = False
    return res


# =========================================================================================
# module contract
# =========================================================================================
_LOGN_FORMS = ("scalar", "vector", "diag", "full")


def cells(tier, seed):
    k0 = refs.cat(seed)
    cats = (k0,) if tier == "quick" else tuple((k0 + i) % refs.K_CATALOGUES for i in range(refs.K_CATALOGUES))
    out = []
    for ci, k in enumerate(cats):
        heavy_first = ci == 0          # dimensions above the sparse switch only for the selected catalogue
        for c in _gauss_cells(tier, k):
            if c["dim"] > 3 and not heavy_first:
                continue
            out.append(c)
        for form in _LOGN_FORMS:
            for dim in (1, 2, 3):
                out.append({"kind": "lognormal", "form": form, "dim": dim, "cat": k})
        for c in _gmrf_cells(tier, k):
            if c["n"] > 9 and not heavy_first:
                continue
            out.append(c)
        out.extend(_gen_cells(tier, k))
        out.extend(_rep_cells(tier, k))
        out.extend(_mhn_cells(tier, k))
    out.append({"kind": "gallery", "cat": k0})
    # discipline / conditional cells: names only (objects are rebuilt inside the worker)
    for name in _disc_spec_names():
        out.append({"kind": "disc", "spec": name, "cat": k0})
    for name in _COND_NAMES:
        out.append({"kind": "cond", "spec": name, "cat": k0})
    for name in _derived_spec_names():
        out.append({"kind": "derived", "spec": name, "cat": k0})
    out.extend(_udd_cells(tier, k0))
    # long cells first so that the pool is balanced
    out.sort(key=lambda c: -(c.get("dim", 0) if c["kind"] == "gauss" else (c.get("n", 0) if c.get("n", 0) > 9 else 0)))
    from checks import _reassign
    out.extend(_reassign.cells(tier, seed))     # E1 add-on: use -> assign -> use histories on one live object
    return out


def _disc_spec_names():
    return list(_disc_specs().keys())


def _derived_spec_names():
    return list(_derived_specs().keys())


_COND_NAMES = ["Gaussian/mean=None", "Gaussian/mean=callable", "Gaussian/cov=callable", "Gaussian/prec=callable",
               "Gaussian/sqrtprec=callable", "Gaussian/two", "Gaussian/two,geometry", "Normal/two", "GMRF/prec=callable", "GMRF/prec=None", "Lognormal/mean=None",
               "Normal/mean=None", "Normal/std=callable", "Gamma/shape=callable", "Gamma/rate=None", "Laplace/location=None",
               "Uniform/low=None", "Beta/alpha=None", "InverseGamma/shape=None", "Cauchy/location=None", "Cauchy/scale=callable"]

_DISPATCH = {"gauss": _eval_gauss, "lognormal": _eval_lognormal, "gallery": _eval_gallery, "gmrf": _eval_gmrf,
             "gen": _eval_gen, "rep": _eval_rep, "mhn": _eval_mhn, "disc": _eval_disc, "cond": _eval_cond, "derived": _eval_derived,
             "udd": _eval_udd}


def _reassign_observe(obj, pts):
    from checks._reassign import obs_call
    out = {}
    out["sample(rng)"] = obs_call(lambda: obj.sample(3, rng=np.random.RandomState(11)))
    out["sample-one(rng)"] = obs_call(lambda: obj.sample(1, rng=np.random.RandomState(5)))
    return out


def eval_cell(cell):
    if cell.get("fam") == "reassign":
        from checks import _reassign
        return _reassign.eval_cell(cell, PROPERTY, _reassign_observe, "seeded draws live vs fresh")
    res = CellResult(cell)
    return _DISPATCH[cell["kind"]](cell, res)
