"""C10 helper: HOW the callable that carries the hyper-parameter dependence was produced.

One three-parameter family of dependences g(s; c, p, e):
    reciprocal kind (cov, scale):   c / s ** p + e        supported member (1, 1, 0)  = 1/s
    identity   kind (prec):         c * s ** p + e        supported member (1, 1, 0)  = s
and six ways a user produces a member of it (all yield a callable whose only non-default argument is `s`):
    lambda    a lambda written out with literal constants
    def       a def function written out with literal constants
    partial   functools.partial(general, c=.., p=.., e=..) of ONE general def function
    factory   the lambda returned by ONE closure factory make(c, p, e)  (members share the code object)
    method    the bound method of an instance of ONE small class holding (c, p, e)
    callable  an instance of ONE small class with __call__

`Family(producer, recip, slot)` is one *source location*: a namespace obtained by executing the source text of the general
function / factory / class once.  Every member asked from the same Family is a SIBLING (same general function, same
factory and code object, same class); members of different Families share nothing, not even equal code objects: the
definitions carry the slot number in their names and sit on slot-specific line numbers, the way two definitions at
different places of a user's script do.  This makes a history "fresh" in a long-lived worker process: none of the function,
code or class objects of a fresh Family has ever been shown to the library in this process - unless the very same cell
was evaluated there before, in which case the same sequence of offers is repeated from its start."""
import ast

PRODUCERS = ["lambda", "def", "partial", "factory", "method", "callable"]
PRODUCER_TEXT = {"lambda": "written-out lambda", "def": "def function", "partial": "functools.partial of a general function",
                 "factory": "lambda returned by a closure factory shared with its siblings",
                 "method": "bound method of a small class", "callable": "instance of a small class with __call__"}
SUPPORTED = (1.0, 1.0, 0.0)


def expr(recip, c="c", p="p", e="e", s="s"):
    return ("%s / %s ** %s + %s" if recip else "%s * %s ** %s + %s") % (c, s, p, e)


def reference(recip, c, p, e):
    """The member written by the check itself (plain closure; never shown to the library)."""
    if recip:
        return lambda t: c / t ** p + e
    return lambda t: c * t ** p + e


class Family:
    def __init__(self, producer, recip, slot, tag=""):
        """slot: non-negative integer, unique to this family in the whole check (it fixes the names and the source
        lines of the definitions, hence the identity of the code objects)."""
        if producer not in PRODUCERS:
            raise ValueError(producer)
        self.producer, self.recip, self.tag = producer, bool(recip), tag
        self.uid = "%d" % slot
        self.line = 20 * int(slot)        # slot-specific source lines of the definitions (20 lines per family)
        self.ns = {}
        self.count = 0
        u = self.uid
        if producer == "partial":
            self._exec("import functools\ndef general_%s(s, c, p, e):\n    return %s\n" % (u, expr(self.recip)))
        elif producer == "factory":
            self._exec("def make_%s(c, p, e):\n    return lambda s: %s\n" % (u, expr(self.recip)))
        elif producer == "method":
            self._exec("class Dep_%s:\n    def __init__(self, c, p, e):\n        self.c, self.p, self.e = c, p, e\n"
                       "    def of(self, s):\n        return %s\n" % (u, expr(self.recip, "self.c", "self.p", "self.e")))
        elif producer == "callable":
            self._exec("class Dep_%s:\n    def __init__(self, c, p, e):\n        self.c, self.p, self.e = c, p, e\n"
                       "    def __call__(self, s):\n        return %s\n" % (u, expr(self.recip, "self.c", "self.p", "self.e")))

    def _exec(self, src, extra_lines=0):
        tree = ast.parse(src)
        ast.increment_lineno(tree, self.line + extra_lines)
        exec(compile(tree, "<C10 user script %s>" % self.tag, "exec"), self.ns)

    def member(self, c, p, e):
        """The member g(.; c, p, e), produced the way this family's producer says."""
        c, p, e = float(c), float(p), float(e)
        u, j = self.uid, self.count
        self.count += 1
        if self.producer == "lambda":
            self._exec("dep_%s_%d = lambda s: %s\n" % (u, j, expr(self.recip, repr(c), repr(p), repr(e))), 3 * j)
            return self.ns["dep_%s_%d" % (u, j)]
        if self.producer == "def":
            self._exec("def dep_%s_%d(s):\n    return %s\n" % (u, j, expr(self.recip, repr(c), repr(p), repr(e))), 3 * j)
            return self.ns["dep_%s_%d" % (u, j)]
        if self.producer == "partial":
            return self.ns["functools"].partial(self.ns["general_" + u], c=c, p=p, e=e)
        if self.producer == "factory":
            return self.ns["make_" + u](c, p, e)
        if self.producer == "method":
            return self.ns["Dep_" + u](c, p, e).of
        return self.ns["Dep_" + u](c, p, e)
