"""C01 - conditioning a joint distribution preserves the joint log-density.

E1 history explorer.  A cell is one model graph (x value catalogue).  Inside the cell ALL conditioning
histories are enumerated: every sequence of disjoint non-empty subsets of the variables, every subset fixed
by keyword (two keyword orders; all orders in the thorough tier) or through the positional prefix form, until
every variable is fixed.  A state is the history that reaches it; every history is replayed from scratch on
FRESH library objects (no state merging, no reuse of live objects).  The canonical key (set of fixed
variables) only drives the differential oracle.

Oracle per state: the object's log-density at the remaining variables of the probe assignment - evaluated by
keyword, reversed keywords, positionally, mixed, through the stacked view, through the Posterior /
MultipleLikelihoodPosterior decomposition and factor by factor - equals the harness' own reference joint
log-density (sum of scipy/explicit textbook densities).  Malformed calls (missing / unknown / doubly specified
/ one positional too many) must raise in every reachable state, on the object and on each of its factors.

Over-specification alphabet (once per (graph, fixed set) state, on the state object, each of its factors and its
stacked view): every positional prefix length x every prefix variable repeated by keyword x the complete value
catalogue of the repeated argument (probe value, non-zero of either sign, every representation of zero, non-numeric
placeholders), on the evaluation route (logd: must raise for every value) and on the conditioning route (__call__:
refusal must not depend on the value; an accepted call must give an object that evaluates to the reference under
the positional or the keyword reading); a surplus keyword (unknown name / every other variable of the graph) x
keyword or positional complete assignment x value; one positional too many x value.

Nested / sequential model building (cells with a "nested" entry, helper _c01_nested.py): the MEMBERS of a joint may
themselves be results of earlier conditionings.  Stage 1: a catalogue graph is conditioned along one of the histories
above that fixes every variable but one; the library returns a single reduced density R over the kept variable (a
Distribution carrying the constants of the fixed variables, a Posterior, a MultipleLikelihoodPosterior).  Stage 2: R is
put into a NEW JointDistribution together with fresh densities that depend on the same variable (one more data set; a
data set with a fresh hyper-parameter; two data sets of different sizes; four members), and this derived graph is
explored exactly like a catalogue graph: every conditioning history, every call form, factor by factor (R is a factor),
Posterior / MultipleLikelihoodPosterior decomposition (R is the prior), live-object reuse, malformed calls.  Oracle: the
reference log-density of the COMPLETE assignment = stage-1 reference joint (the values fixed in stage 1 included) +
scipy densities of the fresh factors.  Thorough tier also: three stages (the reduced density of a stage-2 joint is
again a member).

Names of the hyper-parameter variables (cells with a "names" entry, helper _c01_names.py): the library links densities by
NAME (argument names of the callables held in the attributes) and addresses the attributes themselves (mean, cov, prec,
scale, location, ...) by keyword through the same conditioning call, while the model is independent of how its variables
are called.  Hierarchical templates (hyper-parameter of the prior / of the noise / shared by two densities / two
hyper-parameters of one density / of two densities / multi-argument callable) x kind of the entered density and attribute
x EVERY assignment of names to the hyper-parameter variables from the alphabet {generic} + {attributes of every density of
the joint except the variable's own prior}: named like the attribute it enters through (the callable is never the
identity), like a sibling attribute holding a fixed value, like a sibling attribute holding another callable (forward
model, map of another hyper-parameter), like an attribute of a different density.  Each such graph is explored exactly
like a catalogue graph.  Oracle unchanged: scipy log-density of the complete assignment with the parameter values computed
by the harness from its own copy of the maps (the number is the same on every route when a name is mis-resolved, so the
differential oracle is blind here).

Arity of the hyper-parameter callables (cells with an "arity" entry, helper _c01_arity.py): a callable of r hyper-parameters is
bound step by step when its arguments are fixed in separate conditioning calls; a history can bind one callable PARTIALLY at
most r-1 times, so graphs with r <= 2 never reach a state in which a partially bound callable is partially bound again.
Templates with r = 3 (noise attribute / mean / the variable's parent and hyper-parameters in one callable / in the factor
that becomes the likelihood, 5 variables), two callables of one density with overlapping arguments, r = 4 (thorough) x order
of the callable's arguments relative to the factor order of the joint (same / reversed), each explored exactly like a
catalogue graph (ALL ordered set partitions = every sequence of partial bindings), incl. the BayesianProblem route for the
4-variable templates.  Oracle unchanged (scipy reference; maps are non-symmetric in their arguments).

BayesianProblem route (cells with "route": "BayesianProblem"): cuqi.problem.BayesianProblem is one more way of fixing
variables in one step or several - data given to the constructor, further data through set_data calls on the SAME live
problem.  For every catalogue graph and every fixed set, every grouping of the fixed set into steps (ordered set partition)
is realised twice (first block in the constructor / constructor without data and every block through set_data) x two keyword
orders; after EVERY step the problem's target must be the same kind of object over the same variables as the direct route
gives for the same grouping (fresh joint, one keyword conditioning call per block) and evaluate to the reference joint
log-density; where the target is a Posterior, problem.posterior / .likelihood / .prior must give log-likelihood + log-prior +
contribution of every fixed variable.  A refused step is a verdict whenever the target is still a joint and the direct route
accepts the same step (set_data is only offered while the target is a joint: its refusal on a single-density target is accepted).
"""
import itertools
import numpy as np
from vfw.core import CellResult, close
from vfw import refs
from checks import _graphs as GR
from checks import _c01_nested as NE
from checks import _c01_names as NA
from checks import _c01_arity as AR

PROPERTY = "C01"
RULE = ("cells = model graph x value catalogue; inside a cell every conditioning history (ordered sequences of "
        "disjoint non-empty variable subsets x passing mode per step) is replayed on fresh objects and every "
        "prefix state is evaluated in all call forms against an independent reference joint log-density; "
        "states = (graph, fixed-set) keys, transitions = conditioning edges + log-density calls executed, "
        "traces = maximal histories (all variables fixed) whose every prefix was compared with the reference; "
        "once per (graph, fixed set) the over-specified call shapes (positional+keyword for one variable, surplus "
        "keyword, extra positional) are enumerated x the value catalogue of the repeated/surplus argument on the "
        "evaluation and the conditioning route of the state object, its factors and its stacked view; a "
        "cell is non-trivial when at least one history reduced the joint to a single density; "
        "nested cells = graph x value catalogue x variable kept free: each stage-1 history that reduces the graph to ONE "
        "density over the kept variable x each stage-2 shape gives a derived graph (the reduced density + fresh densities on "
        "the same variable in a new JointDistribution) that is explored like a catalogue graph (all histories, all "
        "well-formed call forms, factors, decomposition, reuse probe, 7 malformed forms; the over-specification value "
        "catalogue is not repeated) against stage-1 reference joint + reference of the fresh factors; "
        "naming cells = hierarchical template x kind of the entered density/attribute x assignment of names to the "
        "hyper-parameter variables (generic / the attribute it enters through / a sibling attribute holding a value / a "
        "sibling attribute holding a callable / an attribute of a different density) x value catalogue: the graph is explored "
        "like a catalogue graph (all histories, call forms, factors, decomposition, reuse probe, malformed and over-specified "
        "calls) against the scipy reference with parameters computed by the harness; signatures carry naming=<closest relation>; "
        "arity cells = template (where the r-ary callable sits) x entered attribute x order of the callable's arguments x value "
        "catalogue: the graph is explored like a catalogue graph (all histories = every sequence of partial bindings of every "
        "callable, call forms, factors, decomposition, reuse probe, 7 malformed forms; over-specification catalogue not repeated; "
        "BayesianProblem route on the 4-variable templates); signatures carry arity=<r>; "
        "BayesianProblem cells = graph x value catalogue: fixed set x grouping of the fixed set into steps (ordered set partition) "
        "x {first block as constructor data, constructor without data + every block by set_data} x {keyword order of the graph, "
        "reversed} on ONE live problem; after every step the target is compared with the direct route of the same grouping "
        "(kind of object, parameter names) and with the reference joint log-density (keyword, positional, posterior / "
        "likelihood / prior accessors; a deviation that the direct route of the same grouping shows identically is left to the "
        "direct route's own signature); states there = (graph, 'problem', fixed set), "
        "traces = histories whose every step was compared; non-trivial when a history of >= 2 calls reached a single density")
BOUND = {
    "quick": "11 graphs (G1-G5,G6a,G6b,G7,G8,G9 with <=4 variables, G10 with 5; dims<=4), 1 value catalogue (seed%3); all ordered "
             "set partitions of all variable subsets; per step modes {keyword, reversed keyword, positional prefix}; "
             "7 malformed call forms on every state object (every history) and each of its factors; per (graph, fixed set) "
             "state, on the state object / each factor / the stacked view: {positional prefix length 1..n} x {repeated prefix "
             "variable} x {logd, __call__} x 14-15 values (probe, +/- non-zero, 9 representations of zero incl. one-element "
             "and full-size zero arrays, False/None/empty), {unknown name, every other graph variable} surplus keyword x "
             "{keyword, positional} x values, extra positional x values; "
             "nested: every (graph, kept variable) of the 11 graphs (41 cells) x {(stage-1 history, stage-2 shape)}: shape A (e,R) on "
             "both extreme stage-1 histories {all other variables in one keyword step; one variable per keyword step in parameter "
             "order}, shape C (R,h,e) with a fresh Gamma hyper-parameter h on the one-step history, shape D (e,f,R) with two data "
             "sets of sizes 2 and 3 on the one-variable-per-step history; x all stage-2 histories with the quick step modes; "
             "naming: 3-variable templates P (prior hyper-parameter; entered density in Gaussian.{cov,prec,sqrtcov,sqrtprec}, "
             "GMRF.prec, LMRF.scale, Laplace.scale, Cauchy.scale, Lognormal.cov), L (noise hyper-parameter; Gaussian.{cov,prec,"
             "sqrtcov,sqrtprec}), S (one hyper-parameter in two densities), M (two hyper-parameters in one density), C (scalar "
             "chain, multi-argument callable) x EVERY assignment of distinct names from {generic} + {attributes of all densities "
             "of the joint but the variable's own prior} except the all-generic one; 4-variable template Q (two hyper-parameters, "
             "two densities) with the two assignments in which both names are attributes (own/own, crossed); 75 cells; "
             "arity: 5 cells: 4-variable templates N (y~N(m0,cov=f(a,b,c)), args in factor order), M (mean=f(a,b,c), args reversed), "
             "O (mean=f(a,b), cov=g(b,c): overlapping arguments), X (Cauchy location=f(z,a,b), args reversed) with all ordered set "
             "partitions + BayesianProblem route, 5-variable template L (y~N(Ax,cov=f(a,b,c)), x, a, b, c) with all ordered set "
             "partitions; quick step modes; "
             "BayesianProblem route: the 11 graphs x every fixed set (incl. empty and complete) x groupings {graphs with <=4 "
             "variables: ALL ordered set partitions; G10: one step, every two-step partition, one variable per step in graph "
             "order and reversed} x {constructor+set_data, set_data only} x 2 keyword orders; every prefix state evaluated",
    "thorough": "same 10 graphs x all 3 value catalogues; per step modes {every keyword order, positional prefix, "
                "first-variable positional + rest keyword}; plus the 5-variable graph G10 x 3 catalogues with the "
                "quick tier's step modes; the over-specification alphabet of the quick tier on every graph x catalogue; "
                "nested, x 3 catalogues: graphs with <=4 variables: shape A on EVERY stage-1 history (all ordered set partitions of "
                "the other variables x {keyword, reversed keyword, positional prefix}), shapes C, D and B: (e,R,h,f) on the two "
                "extreme stage-1 histories; G10: the quick plan; every graph: three stages (shape C reduced by {one step, one "
                "variable per step}, then shapes A and D on top); stage-2/3 step modes are the quick tier's; "
                "naming: all templates incl. Q x every name assignment incl. the all-generic control x 3 catalogues (306 cells), "
                "per step modes of the thorough tier; "
                "arity: templates N x {Gaussian.cov, prec, sqrtcov}, M, O, X, L and F (y~N(m0,prec=f(a,b,c,d)), arity 4, 5 variables) x "
                "{argument order same, reversed} x 3 catalogues (48 cells); thorough step modes on the 4-variable templates, quick "
                "step modes on L and F; "
                "BayesianProblem route: all 11 graphs x 3 catalogues x ALL ordered set partitions of every fixed set x 2 "
                "realisations x 2 keyword orders; also inside every naming cell (all ordered partitions of the 3-4 variables)",
}
ASSUMPTIONS = [
    "one probe assignment per value catalogue (values dyadic, admissible: positive hyper-parameters, Beta in (0,1), "
    "Uniform inside its bounds); other values are not covered",
    "reference densities are scipy.stats / explicit formulas; GMRF and LMRF use zero boundary conditions and order 1 "
    "(a proper Gaussian / product-Laplace of the documented stencil), so C04/C20 defects do not leak into C01",
    "the 'Likelihood' return of JointDistribution._reduce_to_single_density (no distribution left, one likelihood) "
    "and the 'parameter names differ -> stay joint' return are unreachable from a well-formed joint through the "
    "public API (every likelihood parameter has a prior, and fixing the prior's variable also fixes it in the "
    "likelihood); they are reported with count 0",
    "a refused conditioning step on a reachable state is reported (the statement promises an object), any exception "
    "type is accepted for malformed calls; the degenerate stacked view of a joint with no free variable may raise",
    "the statement demands refusal of doubly specified EVALUATIONS only; a doubly specified CONDITIONING call may be "
    "accepted (Distribution/Posterior accept their own variable by position and by name: the positional value wins) as long "
    "as acceptance is the same for every value of the catalogue and the result equals the reference under one of the two "
    "readings; unknown keywords / surplus positionals of conditioning calls are not judged",
    "the value catalogue of over-specified calls is enumerated once per (graph, fixed set, component), on the object reached "
    "by the first history that arrives there (the argument parser sees the object's factor list, which is a function of the "
    "fixed set), not once per history",
    "library objects are held only in obj*/_* names or containers so that stack-based name inference cannot pick "
    "up harness variable names",
    "nested cells: ASSEMBLING a joint is not covered by the statement, so a refused assembly is accepted and counted (on the "
    "pinned tree a MultipleLikelihoodPosterior cannot be a member of a new joint: its name attribute is missing); a stage-1 "
    "object that is not a correct single density is skipped there (the one-stage cells judge and report it); fresh "
    "densities are Gaussians with linear callables as mean (no cuqi Model object) and a Gamma hyper-parameter; nesting "
    "depth <= 2 (quick) / 3 (thorough); the over-specification value catalogue is enumerated on catalogue graphs only",
    "naming cells: names are taken from the attribute lists of the densities of the same joint (confirmed against the "
    "library's get_mutable_variables at run time, counted, not judged); the name of an attribute of the variable's OWN "
    "prior is excluded (a density called like one of its own attributes cannot be addressed unambiguously by keyword; the "
    "pinned tree evaluates such a joint but refuses to condition it: 'mutable variable ... is not a conditioning variable'); "
    "names of attributes of densities outside the joint, of non-parameter attributes (geometry, name) and of python "
    "keywords are not covered; every callable of a naming cell is a non-identity map written as source text for the "
    "library and independently as a harness function for the reference",
    "arity cells: arity <= 3 (quick) / 4 (thorough); callables are python lambdas (no user-supplied functools.partial, no "
    "callable objects, no default arguments); one r-ary callable per graph (template O: two binary ones sharing an argument); "
    "hyper-parameter names are generic (the naming facet is not crossed with the arity facet); the over-specification value "
    "catalogue is not repeated on these graphs",
    "BayesianProblem route: the state is observed at problem._target (the class has no public accessor for a target that is "
    "not a Posterior) and through the public posterior / likelihood / prior properties; set_data takes keywords only, so there "
    "is no positional passing mode on this route; set_data on a problem whose target is already a single density (Posterior / "
    "Distribution) is refused by design and accepted as such (an accepted call is judged like any other step); a refusal that "
    "the direct route of the same grouping shares is not judged here (explore() reports it); .posterior on a non-Posterior "
    "target may refuse; malformed / over-specified calls are not repeated on the problem's target (it is the same kind of object "
    "as the direct route's, where they are enumerated); a deviation from the reference that the direct route of the same grouping "
    "shows identically is counted, not reported twice; the solver / sampler methods of the class (MAP, ML, sample_posterior, UQ) are not part of C01; the "
    "route is enumerated on catalogue graphs (both tiers) and naming graphs (thorough), not on nested graphs",
]

RTOL = 1e-9
UNK = "zz_unknown"


def surplus_values(v):
    """Value catalogue of an argument that is given twice or in excess: (kind, class, fresh value).

    v is the probe value of the variable concerned (float or 1-d array).  The catalogue holds the probe value
    itself, a non-zero value of either sign, every representation of zero (python int / float / negative zero,
    numpy scalar, 0-d, one-element float and integer arrays, one-element list, full-size zero vector) and three
    non-numeric placeholders.  Whether a call is doubly / over specified is a property of its argument NAMES, so
    the demanded refusal is the same for every entry."""
    a = np.atleast_1d(np.asarray(v, dtype=float))
    big = np.abs(a) + 1.0

    def like(x):
        return x.copy() if isinstance(v, np.ndarray) else float(x[0])
    out = [("equal", "equal", GR.copy_val(v)), ("positive", "nonzero", like(big)), ("negative", "nonzero", like(-big)),
           ("int0", "zero", 0), ("float0", "zero", 0.0), ("negzero", "zero", -0.0), ("npfloat0", "zero", np.float64(0.0)),
           ("zeros0d", "zero", np.array(0.0)), ("zeros1", "zero", np.zeros(1)), ("intzeros1", "zero", np.zeros(1, dtype=int)),
           ("list0", "zero", [0.0])]
    if a.size > 1:
        out.append(("zerosdim", "zero", np.zeros(a.size)))
    out += [("false", "non-numeric", False), ("none", "non-numeric", None), ("empty", "non-numeric", np.zeros(0))]
    return out


N_KINDS = {True: len(surplus_values(np.ones(2))), False: len(surplus_values(1.0))}


def cells(tier, seed):
    cats = [refs.cat(seed)] if tier == "quick" else [0, 1, 2]
    # order: the small 3-variable graph G9 first (so that the replay file of a finding is a small cell), then the
    # longest cell (5-variable G10: 1082 ordered partitions, always with the quick tier's step modes), then the rest
    order = ["G9"] + GR.ORDER5 + [g for g in GR.ORDER if g != "G9"]
    for gid in order:
        for k in cats:
            yield {"graph": gid, "cat": k, "tier": "quick" if gid in GR.ORDER5 else tier}
    # the BayesianProblem route (constructor data + set_data calls) over the same graphs: one cell per (graph, catalogue)
    for gid in order:
        for k in cats:
            yield {"graph": gid, "cat": k, "tier": tier, "route": "BayesianProblem"}
    # nested / sequential model building: one cell per (graph, catalogue, variable kept free in stage 1)
    for gid in order:
        for k in cats:
            for keep in GR.GRAPHS[gid].free:
                yield {"graph": gid, "cat": k, "tier": tier, "nested": {"keep": keep}}
    # names of the hyper-parameter variables: one cell per (template, entered density kind, name assignment, catalogue)
    for template, kind, names, naming in NA.catalogue(tier):
        for k in cats:
            spec = {"template": template, "kind": kind, "names": names}
            yield {"graph": NA.graph_of(spec).gid, "cat": k, "tier": tier, "names": spec, "naming": naming}
    # arity of the hyper-parameter callables: one cell per (template, entered attribute, argument order, catalogue)
    for template, kind, rev in AR.catalogue(tier):
        for k in cats:
            spec = {"template": template, "kind": kind, "rev": rev}
            yield {"graph": AR.graph_of(spec).gid, "cat": k, "tier": "quick" if template in AR.FIVE else tier, "arity": spec}


# stage-1 history sets x stage-2 shapes per tier (see _c01_nested.py); 5-variable graphs always use the quick plan
NESTED_PLAN = {
    "quick": [("extreme", ("A",)), ("onestep", ("C",)), ("finest", ("D",))],
    "thorough": [("all", ("A",)), ("extreme", ("C", "D", "B"))],
}


# ----------------------------------------------------------------------------------------
def branch_of(obj):
    import cuqi
    D = cuqi.distribution
    if isinstance(obj, D.MultipleLikelihoodPosterior):
        return "MultipleLikelihoodPosterior"
    if isinstance(obj, D.JointDistribution):
        return "JointDistribution"
    if isinstance(obj, D.Posterior):
        return "Posterior"
    if isinstance(obj, cuqi.likelihood.Likelihood):
        return "Likelihood"
    if isinstance(obj, cuqi.density.EvaluatedDensity):
        return "EvaluatedDensity"
    if isinstance(obj, D.Distribution):
        return "Distribution"
    return type(obj).__name__


def _cp(vals, names):
    return {n: GR.copy_val(vals[n]) for n in names}


def step_modes(S, names, tier):
    """Passing modes of one conditioning step for subset S given the object's parameter order."""
    S = list(S)
    modes = []
    if tier == "quick":
        modes.append(("kw", tuple(S)))
        if len(S) > 1:
            modes.append(("kw", tuple(reversed(S))))
    else:
        for perm in itertools.permutations(S):
            modes.append(("kw", tuple(perm)))
    prefix = []
    for n in names:
        if n in S:
            prefix.append(n)
        else:
            break
    if prefix:
        rest = tuple(n for n in S if n not in prefix)
        modes.append(("pos%d" % len(prefix), tuple(prefix) + rest))
        if tier != "quick" and len(prefix) > 1:
            modes.append(("pos1", (prefix[0],) + tuple(n for n in S if n != prefix[0])))
    return modes


def apply_step(obj, step, vals):
    """Condition obj as described by step = (mode, ordered names)."""
    mode, order = step
    if mode == "kw":
        return obj(**_cp(vals, order))
    npos = int(mode[3:])
    pos = [GR.copy_val(vals[n]) for n in order[:npos]]
    return obj(*pos, **_cp(vals, order[npos:]))


def hist_str(history):
    return " ; ".join("%s(%s)" % (m, ",".join(o)) for m, o in history) or "<joint>"


def ordered_partitions(F):
    """Every ordered set partition of the tuple F (sequence of disjoint non-empty blocks covering F)."""
    F = tuple(F)
    if not F:
        yield ()
        return
    for r in range(1, len(F) + 1):
        for S in itertools.combinations(F, r):
            rest = tuple(n for n in F if n not in S)
            for tail in ordered_partitions(rest):
                yield (S,) + tail


def problem_partitions(F, plan):
    """Groupings of the fixed set F into conditioning steps of the BayesianProblem route.

    plan "all": every ordered set partition; plan "reduced": the coarsest one (one step), EVERY two-step partition (first
    block = every non-empty proper subset) and the finest one (one variable per step) in the graph's order and reversed."""
    F = tuple(F)
    if plan == "all" or len(F) <= 1:
        return list(ordered_partitions(F))
    out = [(F,)]
    for r in range(1, len(F)):
        for S in itertools.combinations(F, r):
            out.append((S, tuple(n for n in F if n not in S)))
    if len(F) > 2:
        out.append(tuple((n,) for n in F))
        out.append(tuple((n,) for n in reversed(F)))
    return out


JOINT_LIKE = ("JointDistribution", "MultipleLikelihoodPosterior")


class Explorer:
    def __init__(self, res, cell, graph=None, tag=None, nfail=None, tier=None, over=True):
        """graph: a derived (nested) graph instead of the catalogue graph of the cell; tag: facet appended to every
        signature of this explorer (nested graphs: kind of the member that stems from an earlier conditioning);
        nfail: per-signature failure counter shared by all explorers of one cell."""
        self.res = res
        self.cell = cell
        self.g = graph if graph is not None else GR.GRAPHS[cell["graph"]]
        self.tag = tag
        self.over = over     # enumerate the over-specification value catalogue (False: well-formed + 7 malformed forms only)
        self.nfail = nfail if nfail is not None else {}
        self.k = cell["cat"]
        self.tier = tier or cell.get("tier", "quick")
        self.vals = self.g.values(self.k)
        self.reffac = self.g.ref_factors(self.k, self.vals)
        self.ref = float(sum(self.reffac.values()))
        self.bykey = {}      # frozenset(fixed) -> list of observations
        self.refbad = set()  # keys with a reference failure (differential not reported twice)
        self.reduced = False
        self.over_seen = set()  # (component, fixed set, parameter order) whose over-specification catalogue was enumerated
        self.direct_cache = {}  # BayesianProblem route: frozenset(fixed) -> what the direct one-step conditioning gives

    # -- failure helpers --------------------------------------------------------------------
    def fail(self, sig, msg, history, **detail):
        if self.tag:
            sig = "%s,%s" % (sig, self.tag)
        self.nfail[sig] = self.nfail.get(sig, 0) + 1
        if self.nfail[sig] > 40:       # keep the packed result small; the first 40 cases per signature and cell are kept
            self.res.count("failures_not_stored")
            return
        self.res.fail("C01|" + sig, "[%s cat=%d] %s :: history %s" % (self.g.gid, self.k, msg, hist_str(history)),
                      focus={"graph": self.g.gid, "cat": self.k, "history": [list(map(str, (m,) + o)) for m, o in history]},
                      **detail)

    # -- replay -------------------------------------------------------------------------------
    def replay(self, history):
        """Fresh objects, apply every step; returns (obj, None) or (None, exception of the LAST step)."""
        obj = self.g.build(self.k).joint
        for i, step in enumerate(history):
            try:
                obj = apply_step(obj, step, self.vals)
            except Exception as e:  # noqa
                if i != len(history) - 1:
                    raise AssertionError("harness: non-deterministic replay, prefix step %d raised %r" % (i, e))
                return None, e
            self.res.transitions += 1
        return obj, None

    # -- exploration --------------------------------------------------------------------------
    def explore(self, history, fixed):
        res = self.res
        obj, err = self.replay(history)
        if err is not None:
            # conditioning a reachable state on admissible values was refused
            obj_parent, _e = self.replay(history[:-1])
            res.refused += 1
            mode = history[-1][0]
            self.fail("%s|condition|mode=%s" % (branch_of(obj_parent), "keyword" if mode == "kw" else "positional"),
                      "conditioning on %s refused: %s: %s" % (list(history[-1][1]), type(err).__name__, str(err)[:200]),
                      history)
            res.outcomes.add("cond-refused:%s:%s" % (branch_of(obj_parent), mode[:3]))
            return
        key = frozenset(fixed)
        res.state("%s|%s" % (self.g.gid, ",".join(sorted(key))))
        br = branch_of(obj)
        if history:
            sub = br
            if br == "JointDistribution":
                sub += "/all-evaluated" if len(fixed) == len(self.g.free) else "/several-distributions"
            elif br == "MultipleLikelihoodPosterior" and len(fixed) == len(self.g.free):
                sub += "/all-evaluated"
            res.count("reduce:" + sub)
            res.count("cond_edges")
            if br in ("Posterior", "Distribution", "MultipleLikelihoodPosterior", "Likelihood"):
                self.reduced = True
        remaining = [n for n in self.g.free if n not in fixed]
        names = self.eval_state(obj, br, remaining, fixed, history)
        if names is None:
            return
        if not remaining:
            res.traces += 1
            if res.sample is None or len(history) > len(res.sample.get("history", [])):
                res.sample = {"graph": self.g.gid, "history": [[m] + list(o) for m, o in history], "final": br,
                              "reference_joint_logd": self.ref}
            return
        self.reuse_probe(obj, br, remaining, names, fixed, history)
        for r in range(1, len(remaining) + 1):
            for S in itertools.combinations(remaining, r):
                for step in step_modes(S, names, self.tier):
                    self.explore(history + (step,), fixed | set(S))

    def reuse_probe(self, obj, br, remaining, names, fixed, history):
        """Non-initial states: the SAME live object is conditioned by every child step, twice in a row; the objects
        obtained in the second pass must still evaluate to the reference joint log-density (a conditioning call that
        leaks constants / values into its operand shows only from the second use on)."""
        steps = []
        for r in range(1, len(remaining) + 1):
            for S in itertools.combinations(remaining, r):
                for step in step_modes(S, names, self.tier):
                    steps.append((S, step))
        for pass_no in (1, 2):
            for S, step in steps:
                try:
                    child = apply_step(obj, step, self.vals)
                except Exception:
                    continue            # refusals are judged by explore() on fresh objects
                self.res.transitions += 1
                if pass_no == 1:
                    continue
                rest = [n for n in remaining if n not in S]
                try:
                    v = GR.scalar(child.logd(**_cp(self.vals, rest)))
                except Exception:
                    continue            # evaluation modes are judged by eval_state on fresh objects
                self.res.evaluations += 1
                if not close(v, self.ref, RTOL):
                    self.fail("%s|condition-reuse|value" % br, "conditioning the same live %s object on %s again (after it had "
                              "already been conditioned in other ways) gives logd %.15g, reference joint log-density %.15g"
                              % (br, list(S), v, self.ref), history + (step,), impl=v, ref=self.ref)
                    return

    # -- evaluation of one state ---------------------------------------------------------------
    def call(self, fn, *a, **kw):
        """-> ('ok', float) | ('raise', exc) | ('shape', msg)"""
        self.res.transitions += 1
        self.res.count("eval_ops")
        try:
            v = fn(*a, **kw)
        except Exception as e:  # noqa
            return "raise", e
        try:
            return "ok", GR.scalar(v)
        except Exception as e:  # noqa
            return "shape", e

    def expect(self, out, ref, sig_value, sig_raise, what, history, kwval=None):
        """Compare one well-formed evaluation with the reference."""
        res = self.res
        res.evaluations += 1
        kind, v = out
        if kind == "raise":
            self.fail(sig_raise, "%s raised %s: %s" % (what, type(v).__name__, str(v)[:200]), history)
            return None
        if kind == "shape":
            self.fail(sig_raise, "%s did not return a single number: %s" % (what, v), history)
            return None
        if not close(v, ref, RTOL):
            self.fail(sig_value, "%s = %.15g but reference joint log-density = %.15g (diff %.3g)" % (what, v, ref, v - ref),
                      history, impl=v, ref=ref)
            return v
        return v

    def eval_state(self, obj, br, remaining, fixed, history):
        import cuqi
        res = self.res
        key = frozenset(fixed)
        # parameter names
        try:
            names = list(obj.get_parameter_names())
        except Exception as e:  # noqa
            self.fail("%s|get_parameter_names|raises" % br, "get_parameter_names raised %r" % (e,), history)
            return None
        if sorted(names) != sorted(remaining) or len(set(names)) != len(names):
            self.fail("%s|get_parameter_names|wrong-set" % br, "parameter names %s, expected the free variables %s" % (names, remaining), history)
            self.refbad.add(key)
            return None
        a = _cp(self.vals, remaining)
        nfail0 = len(res.failures)
        # 1. keyword (factor order)
        out = self.call(obj.logd, **_cp(self.vals, remaining))
        vkw = self.expect(out, self.ref, "%s|logd|value" % br, "%s|logd-raises|mode=keyword" % br, "logd(keywords)", history)
        if out[0] == "ok":
            res.outcomes.add("%s:%s:%.10g" % (self.g.gid, br, out[1]))

        def other(mode, out2):
            # other call forms: must agree with the reference; reported under their own facet only when the
            # keyword form was right (otherwise it is the same wrong number and one signature is enough)
            res.evaluations += 1
            kind, v = out2
            if kind != "ok":
                self.fail("%s|logd-raises|mode=%s" % (br, mode), "logd(%s) raised/ill-shaped: %s: %s" % (mode, type(v).__name__, str(v)[:200]), history)
            elif not close(v, self.ref, RTOL):
                if vkw is not None and close(v, vkw, RTOL):
                    return
                self.fail("%s|logd|mode=%s" % (br, mode), "logd(%s) = %.15g but reference = %.15g" % (mode, v, self.ref), history, impl=v, ref=self.ref)

        if len(remaining) > 1:
            other("keyword-reversed", self.call(obj.logd, **_cp(self.vals, list(reversed(remaining)))))
        if remaining:
            other("positional", self.call(obj.logd, *[GR.copy_val(self.vals[n]) for n in names]))
        if len(remaining) > 1:
            other("mixed", self.call(obj.logd, GR.copy_val(self.vals[names[0]]), **_cp(self.vals, names[1:])))
        # 2. stacked view
        if isinstance(obj, cuqi.distribution.JointDistribution):
            def stacked():
                _st = obj._as_stacked()
                vec = np.hstack([np.atleast_1d(GR.copy_val(self.vals[n])) for n in _st.get_parameter_names()]) if remaining else np.zeros(0)
                return _st.logd(vec)
            out2 = self.call(stacked)
            if remaining or out2[0] == "ok":
                other("stacked", out2)
            res.count("view:stacked")
            self.overspecified_stacked(obj, br, key, history)
        # 3. Posterior / MLP decomposition: log-likelihood + log-prior + contribution of every fixed variable
        if br in ("Posterior", "MultipleLikelihoodPosterior") and names:
            x = names[0]
            liks = [obj.likelihood] if br == "Posterior" else list(obj.likelihoods)
            tot = 0.0
            ok = True
            for _lk in liks:
                o = self.call(_lk.logd, GR.copy_val(self.vals[x]))
                ok &= self.expect(o, self.reffac[_lk.name], "%s|likelihood.logd|value" % br, "%s|likelihood.logd|raises" % br,
                                  "likelihood[%s].logd" % _lk.name, history) is not None and close(o[1], self.reffac[_lk.name], RTOL)
                tot += o[1] if o[0] == "ok" else np.nan
            o = self.call(obj.prior.logd, GR.copy_val(self.vals[x]))
            ok &= self.expect(o, self.reffac[x], "%s|prior.logd|value" % br, "%s|prior.logd|raises" % br, "prior.logd", history) is not None
            tot += o[1] if o[0] == "ok" else np.nan
            fixed_contrib = sum(self.reffac[n] for n in self.reffac if n != x and n not in [l.name for l in liks])
            res.evaluations += 1
            res.count("view:" + br)
            if ok and vkw is not None and not close(vkw, tot + fixed_contrib, RTOL):
                self.fail("%s|logd|decomposition" % br, "logd %.15g != loglik+logprior %.15g + fixed contributions %.15g" % (vkw, tot, fixed_contrib), history)
        # 4. factor by factor (joint-like objects)
        if isinstance(obj, cuqi.distribution.JointDistribution):
            for fname in self.g.free + self.g.data0:
                self.eval_factor(obj, br, fname, fixed, history)
        # 5. malformed calls on the state object
        self.malformed(obj.logd, names, br, history)
        self.overspecified(obj, names, br, history, None, okey=(br, key, tuple(names)))
        if len(res.failures) > nfail0:
            self.refbad.add(key)
        self.bykey.setdefault(key, []).append({"history": history, "value": vkw, "branch": br, "names": tuple(names)})
        return names

    def eval_factor(self, obj, br, fname, fixed, history):
        import cuqi
        res = self.res
        try:
            _f = obj.get_density(fname)
        except Exception as e:  # noqa
            self.fail("%s|get_density|raises" % br, "get_density(%r) raised %r" % (fname, e), history)
            return
        is_fixed = fname in fixed or fname in self.g.data0
        exp = set(p for p in self.g.parents[fname] if p not in fixed)
        if not is_fixed:
            exp.add(fname)
        fb = branch_of(_f)
        if fb == "Distribution" and len(exp) > 1:
            fb = "ConditionalDistribution"
        try:
            fn = list(_f.get_parameter_names())
        except Exception as e:  # noqa
            self.fail("factor:%s|get_parameter_names|raises" % fb, "factor %s: %r" % (fname, e), history)
            return
        if set(fn) != exp or len(fn) != len(exp):
            self.fail("factor:%s|get_parameter_names|wrong-set" % fb, "factor %s has parameters %s, expected %s" % (fname, fn, sorted(exp)), history)
            return
        o = self.call(_f.logd, **_cp(self.vals, fn))
        self.expect(o, self.reffac[fname], "factor:%s|logd|value" % fb, "factor:%s|logd-raises|mode=keyword" % fb,
                    "factor %s logd(keywords)" % fname, history)
        if fn:
            o = self.call(_f.logd, *[GR.copy_val(self.vals[n]) for n in fn])
            res.evaluations += 1
            if o[0] != "ok":
                self.fail("factor:%s|logd-raises|mode=positional" % fb, "factor %s logd(positional) raised %s" % (fname, o[1]), history)
            elif not close(o[1], self.reffac[fname], RTOL):
                self.fail("factor:%s|logd|mode=positional" % fb, "factor %s logd(positional) = %.15g, reference %.15g" % (fname, o[1], self.reffac[fname]), history)
        res.count("factor:" + fb)
        self.malformed(_f.logd, fn, "factor:" + fb, history, tag="factor %s " % fname)
        self.overspecified(_f, fn, "factor:" + fb, history, fname, okey=("factor:" + fb, fname, frozenset(fixed), tuple(fn)),
                           tag="factor %s " % fname)

    def malformed(self, logd, names, comp, history, tag=""):
        """Every malformed call form must be refused with an exception."""
        res = self.res
        v = self.vals
        forms = []
        pos = lambda: [GR.copy_val(v[n]) for n in names]  # noqa
        if names:
            for drop in names:
                forms.append(("missing-keyword", (), _cp(v, [n for n in names if n != drop])))
            forms.append(("missing-positional", tuple(pos()[:-1]), {}))
            kw = _cp(v, names)
            kw[UNK] = 0.5
            forms.append(("unknown-keyword", (), kw))
            forms.append(("positional+unknown-keyword", tuple(pos()), {UNK: 0.5}))
            forms.append(("double:first-positional+all-keywords", (GR.copy_val(v[names[0]]),), _cp(v, names)))
            forms.append(("double:all-positional+one-keyword", tuple(pos()), _cp(v, [names[-1]])))
            forms.append(("extra-positional", tuple(pos()) + (0.5,), {}))
        else:
            forms.append(("unknown-keyword", (), {UNK: 0.5}))
            forms.append(("extra-positional", (0.5,), {}))
        for kind, a, kw in forms:
            res.transitions += 1
            res.count("malformed_calls")
            try:
                out = logd(*a, **kw)
            except Exception as e:  # noqa  refused: what the statement demands
                res.count("malformed_refused")
                res.outcomes.add("refuse:%s:%s" % (kind.split(":")[0], type(e).__name__))
                continue
            self.fail("%s|malformed-call|%s" % (comp, kind),
                      "%smalformed logd call (%s; positional=%d, keywords=%s) returned %r instead of raising"
                      % (tag, kind, len(a), sorted(kw), np.asarray(out).ravel()[:3].tolist()), history)
            res.outcomes.add("malformed-returned:%s:%s" % (comp, kind))

    # -- over-specified calls: full value catalogue --------------------------------------------------
    def ref_reading(self, fname, dup=None, val=None):
        """Reference log-density (joint, or factor fname) with variable dup read as val; None when val is not a value
        of that variable's shape or the reference is not finite there."""
        vals = self.vals
        if dup is not None:
            try:
                a = np.asarray(val, dtype=float)
                w = np.asarray(self.vals[dup], dtype=float)
                if a.size != w.size or not np.all(np.isfinite(a)):
                    return None
                vals = dict(self.vals)
                vals[dup] = a.reshape(w.shape).copy() if isinstance(self.vals[dup], np.ndarray) else float(a.ravel()[0])
                with np.errstate(all="ignore"):
                    fac = self.g.ref_factors(self.k, vals)
            except Exception:  # noqa
                return None
        else:
            fac = self.reffac
        r = float(fac[fname]) if fname is not None else float(sum(fac.values()))
        return r if np.isfinite(r) else None

    def judge_uniform(self, comp, op, shape, acc, ref_kinds, history, tag, must_refuse):
        """acc: kinds accepted, ref_kinds: kinds refused - over the value catalogue of ONE call shape."""
        res = self.res
        res.evaluations += 1
        if not acc:
            res.count("overspecified_shapes_refused")
            return True
        if ref_kinds:
            self.fail("%s|%s|%s,value-dependent" % (comp, op, shape),
                      "%s: the same over-specified call is refused for the value kinds {%s} but ACCEPTED for {%s}; whether a "
                      "variable is specified twice / in excess does not depend on its value"
                      % (tag, ",".join(ref_kinds), ",".join(k for k, _o in acc)), history)
            res.outcomes.add("overspecified-value-dependent:%s:%s:%s" % (comp, op, shape))
            return False
        if must_refuse:
            self.fail("%s|%s|%s" % (comp, op, shape), "%s: over-specified call accepted for every value of the catalogue (e.g. "
                      "returned %r) instead of raising" % (tag, np.asarray(acc[0][1]).ravel()[:3].tolist()), history)
            res.outcomes.add("overspecified-returned:%s:%s:%s" % (comp, op, shape))
            return False
        return True

    def overspecified(self, _o, names, comp, history, fname, okey, tag=""):
        """Every over-specified call shape x the complete value catalogue of the repeated / surplus argument.

        evaluation route (logd): must be refused for every value;
        conditioning route (__call__, positional prefix + keyword for one of the prefix variables): the statement only
        demands refusal of evaluations, so a conditioning call may be accepted - but then for EVERY value of the catalogue
        (refusal must not depend on the value), and the returned object must evaluate to the reference log-density under
        one of the two readings (positional value / keyword value)."""
        if not self.over or okey in self.over_seen or not names:
            return
        self.over_seen.add(okey)
        res = self.res
        v = self.vals
        n = len(names)
        res.count("overspecified_objects")

        def run(fn, a, kw):
            res.transitions += 1
            res.count("overspecified_calls")
            try:
                return True, fn(*a, **kw)
            except Exception as e:  # noqa
                res.count("overspecified_refused")
                res.outcomes.add("refuse-over:%s" % type(e).__name__)
                return False, e

        # (a) one variable by position AND by keyword: positional prefix of every length x doubled variable x value
        for p in range(1, n + 1):
            for dup in names[:p]:
                shape = "double:positional+keyword"
                where = "%s%s (positional %s + keyword %s)" % (tag, comp, names[:p], dup)
                # evaluation: prefix by position, the rest and the doubled variable by keyword
                acc, rej = [], []
                for kind, _cls, val in surplus_values(v[dup]):
                    kw = _cp(v, names[p:])
                    kw[dup] = val
                    ok, out = run(_o.logd, [GR.copy_val(v[m]) for m in names[:p]], kw)
                    (acc if ok else rej).append((kind, out))
                self.judge_uniform(comp, "malformed-call", shape, acc, [k for k, _e in rej], history, where + ".logd", True)
                # conditioning: prefix by position + the doubled variable by keyword
                acc, rej = [], []
                for kind, _cls, val in surplus_values(v[dup]):
                    ok, out = run(_o, [GR.copy_val(v[m]) for m in names[:p]], {dup: val})
                    (acc if ok else rej).append((kind, (out, val) if ok else out))
                res.outcomes.add("double-condition:%s:%s" % (comp, "refused" if not acc else "accepted" if not rej else "mixed"))
                if self.judge_uniform(comp, "malformed-condition", shape, [(k, "<object>") for k, _x in acc], [k for k, _e in rej],
                                      history, where + " conditioning", False) and acc:
                    res.count("double_condition_accepted_uniformly")
                    for kind, (_child, val) in acc:
                        res.evaluations += 1
                        try:
                            got = GR.scalar(_child.logd(**_cp(v, names[p:])))
                        except Exception as e:  # noqa
                            got = e
                        cands = [self.ref_reading(fname), self.ref_reading(fname, dup, val)]
                        if isinstance(got, Exception) or not any(c is not None and close(got, c, RTOL) for c in cands):
                            self.fail("%s|malformed-condition|%s,accepted-wrong-value" % (comp, shape),
                                      "%s conditioning accepted (keyword value kind %s) but the object evaluates to %r; reference "
                                      "under the positional / keyword reading: %r" % (where, kind, got, cands), history)
                            break
        # (b) complete assignment + one surplus keyword: surplus name x value, keyword and positional form
        others = [UNK] + [m for m in self.g.free + self.g.data0 if m not in names]
        for sname in others:
            for form in ("keywords", "positional"):
                acc, rej = [], []
                for kind, _cls, val in surplus_values(v[sname] if sname in v else 0.5):
                    if form == "keywords":
                        a, kw = [], _cp(v, names)
                    else:
                        a, kw = [GR.copy_val(v[m]) for m in names], {}
                    kw[sname] = val
                    ok, out = run(_o.logd, a, kw)
                    (acc if ok else rej).append((kind, out))
                shape = "surplus-keyword:%s,%s" % ("unknown-name" if sname == UNK else "other-variable", form)
                self.judge_uniform(comp, "malformed-call", shape, acc, [k for k, _e in rej], history,
                                   "%s%s.logd (complete %s + surplus keyword %s)" % (tag, comp, form, sname), True)
        # (c) one positional value too many x value
        acc, rej = [], []
        for kind, _cls, val in surplus_values(0.5):
            ok, out = run(_o.logd, [GR.copy_val(v[m]) for m in names] + [val], {})
            (acc if ok else rej).append((kind, out))
        self.judge_uniform(comp, "malformed-call", "extra-positional", acc, [k for k, _e in rej], history, "%s%s.logd (complete positional + one extra positional)" % (tag, comp), True)

    def overspecified_stacked(self, obj, br, key, history):
        """Stacked view of a (conditioned) joint: the vector plus a keyword / a second vector must be refused; conditioning the
        stacked view by position + keyword goes through the same judge as every other conditioning call."""
        okey = ("stacked", br, key)
        if not self.over or okey in self.over_seen:
            return
        try:
            _st = obj._as_stacked()
            sn = list(_st.get_parameter_names())
        except Exception:  # noqa   (judged by eval_state)
            return
        if not sn:
            return
        self.over_seen.add(okey)
        res = self.res
        v = self.vals
        comp = "stacked:" + br
        vec = lambda: np.hstack([np.atleast_1d(GR.copy_val(v[m])) for m in sn])  # noqa
        cells_ = [("double:vector+keyword", m, v[m]) for m in sn] + [("surplus-keyword:unknown-name,vector", UNK, 0.5),
                                                                     ("extra-positional", None, 0.5)]
        for shape, name, probe in cells_:
            acc, rej = [], []
            for kind, _cls, val in surplus_values(probe):
                res.transitions += 1
                res.count("overspecified_calls")
                try:
                    out = _st.logd(vec(), val) if name is None else _st.logd(vec(), **{name: val})
                    acc.append((kind, out))
                except Exception as e:  # noqa
                    res.count("overspecified_refused")
                    rej.append((kind, e))
            self.judge_uniform(comp, "malformed-call", shape, acc, [k for k, _e in rej], history, "stacked logd (%s %s)" % (shape, name), True)
        # conditioning the stacked view: positional prefix + keyword for a prefix variable
        for p in range(1, len(sn) + 1):
            for dup in sn[:p]:
                acc, rej = [], []
                for kind, _cls, val in surplus_values(v[dup]):
                    res.transitions += 1
                    res.count("overspecified_calls")
                    try:
                        _st2 = obj._as_stacked()
                        _c = _st2(*[GR.copy_val(v[m]) for m in sn[:p]], **{dup: val})
                        acc.append((kind, "<object>"))
                    except Exception as e:  # noqa
                        res.count("overspecified_refused")
                        rej.append((kind, e))
                self.judge_uniform(comp, "malformed-condition", "double:positional+keyword", acc, [k for k, _e in rej], history,
                                   "stacked view conditioned (positional %s + keyword %s)" % (sn[:p], dup), False)

    # -- BayesianProblem route ---------------------------------------------------------------------
    def direct(self, blocks):
        """What the DIRECT route gives for the same grouping (fresh joint, one keyword conditioning call per block, same
        keyword order): kind of the reduced object, its parameter names and the outcome of every evaluation the problem
        route performs; None when the direct route refuses somewhere (judged by explore())."""
        key = tuple(tuple(B) for B in blocks if len(B))
        if key not in self.direct_cache:
            info = None
            try:
                _o, err = self.replay(tuple(("kw", B) for B in key))
                if err is None:
                    names = list(_o.get_parameter_names())
                    info = {"branch": branch_of(_o), "names": names}
                    info["kw"] = self.call(_o.logd, **_cp(self.vals, names))
                    info["pos"] = self.call(_o.logd, *[GR.copy_val(self.vals[n]) for n in names])
                    if info["branch"] == "Posterior":
                        info["post"] = info["pos"]
                        info["lik"] = self.call(_o.likelihood.logd, GR.copy_val(self.vals[names[0]]))
                        info["prior"] = self.call(_o.prior.logd, GR.copy_val(self.vals[names[0]]))
            except Exception:  # noqa
                info = None
            self.direct_cache[key] = info
        return self.direct_cache[key]

    def explore_problem(self):
        """cuqi.problem.BayesianProblem as one more conditioning route: BayesianProblem(*densities, **first block) followed by
        one set_data(**block) call per further block, for every fixed set x every grouping of problem_partitions x
        {first block in the constructor, constructor without data and every block through set_data} x {keyword order of the
        graph, reversed}.  Every state on the way is evaluated with the oracle of every other route."""
        free = list(self.g.free)
        plan = "all" if self.tier != "quick" or len(free) <= 4 else "reduced"
        for r in range(0, len(free) + 1):
            for F in itertools.combinations(free, r):
                for P in problem_partitions(F, plan):
                    reals = ("ctor", "set_data") if P else ("ctor",)
                    orders = ("fwd", "rev") if any(len(B) > 1 for B in P) else ("fwd",)
                    for real in reals:
                        for order in orders:
                            self.run_problem(P, real, order)

    def run_problem(self, P, real, order):
        import cuqi
        res = self.res
        blocks = [tuple(reversed(B)) if order == "rev" else tuple(B) for B in P]
        first, rest = ((blocks[0], blocks[1:]) if blocks else ((), [])) if real == "ctor" else ((), blocks)
        # facet of the signatures: which calls carried data - ctor / ctor+set_data / set_data / set_data+set_data (= several)
        with_ctor = bool(first) or not rest
        label = "+".join((["ctor"] if with_ctor else []) + ["set_data"] * min(len(rest), 1 if with_ctor else 2))
        res.count("problem:histories")
        res.count("problem:route=%s,steps=%d" % ("ctor" if real == "ctor" else "set_data", len(blocks)))
        _b = self.g.build(self.k)
        _dens = [_b.factors[n] for n in self.g.data0 + self.g.free]
        history = (("ctor", tuple(first)),)
        res.transitions += 1
        try:
            _bp = cuqi.problem.BayesianProblem(*_dens, **_cp(self.vals, first))
        except Exception as e:  # noqa
            if self.direct([first]) is None:
                res.count("problem:refused-like-the-direct-route")
                return
            res.refused += 1
            self.fail("BayesianProblem|construct|refused,route=%s" % label, "BayesianProblem(*densities, %s) raised %s: %s although "
                      "conditioning the joint on the same variables directly succeeds" % (list(first), type(e).__name__, str(e)[:200]), history)
            return
        fixed = set(first)
        done = [tuple(first)]
        ok = self.eval_problem(_bp, fixed, done, history, label)
        for i, B in enumerate(rest):
            if not ok:
                return
            before = self.direct(done)
            done = done + [tuple(B)]
            after = self.direct(done)
            history = history + (("set_data", tuple(B)),)
            res.transitions += 1
            try:
                _bp.set_data(**_cp(self.vals, B))
            except Exception as e:  # noqa
                res.refused += 1
                if before is None or after is None:
                    res.count("problem:refused-like-the-direct-route")
                elif before["branch"] not in JOINT_LIKE:
                    # the class offers set_data only while its target is still a joint ("maybe data is already set?")
                    res.count("problem:set_data-refused,target-already-a-single-density")
                    res.outcomes.add("problem:set_data-refused-on:%s" % before["branch"])
                else:
                    self.fail("BayesianProblem|set_data|refused,route=%s" % label, "set_data(%s) raised %s: %s although the target is "
                              "still a joint and conditioning the joint on the same variables directly succeeds"
                              % (list(B), type(e).__name__, str(e)[:200]), history)
                return
            fixed |= set(B)
            ok = self.eval_problem(_bp, fixed, done, history, label)
        if ok:
            res.traces += 1
            if len(blocks) > 1 and res.sample is None:
                res.sample = {"graph": self.g.gid, "route": "BayesianProblem", "history": [[m] + list(o) for m, o in history],
                              "final": branch_of(_bp._target), "reference_joint_logd": self.ref}

    def judge_problem(self, out, ref, d, which, sig, what, history):
        """One evaluation on the problem route: equals the reference, or deviates exactly like the direct route of the same
        grouping (then the deviation is the direct route's, reported by explore() under its own signature)."""
        res = self.res
        res.evaluations += 1
        kind, v = out
        if kind == "ok" and close(v, ref, RTOL):
            return v
        dout = d.get(which) if d else None
        if dout is not None and ((kind != "ok" and dout[0] != "ok") or (kind == "ok" and dout[0] == "ok" and close(v, dout[1], RTOL))):
            res.count("problem:deviation-shared-with-the-direct-route")
            return None
        if kind == "ok":
            self.fail(sig % "value", "%s = %.15g but the reference is %.15g (diff %.3g)%s" % (what, v, ref, v - ref,
                      "; the direct route of the same grouping gives %s" % (dout,) if dout else ""), history, impl=v, ref=ref)
        else:
            self.fail(sig % "raises", "%s raised / did not return a single number: %s: %s" % (what, type(v).__name__, str(v)[:200]), history)
        return None

    def eval_problem(self, _bp, fixed, done, history, label):
        """One state of the BayesianProblem route: the problem's target must be the same kind of object over the same
        variables as the direct route gives and evaluate to the reference joint log-density; where the target is a Posterior
        the problem's posterior / likelihood / prior accessors must give log-likelihood + log-prior + fixed contributions."""
        res = self.res
        route = "route=%s" % label
        d = self.direct(done)
        remaining = [n for n in self.g.free if n not in fixed]
        res.state("%s|problem|%s" % (self.g.gid, ",".join(sorted(fixed))))
        try:
            _t = _bp._target
            bt = branch_of(_t)
            names = list(_t.get_parameter_names())
        except Exception as e:  # noqa
            self.fail("BayesianProblem|target|unavailable,%s" % route, "the problem's target / its parameter names: %r" % (e,), history)
            return False
        res.count("problem:target=" + bt)
        what = "target of the problem is a %s over %s" % (bt, names)
        if d is not None and sorted(names) == sorted(d["names"]) and bt == d["branch"] and sorted(names) != sorted(remaining):
            res.count("problem:deviation-shared-with-the-direct-route")   # wrong variables on both routes: explore() reports it
            return False
        if sorted(names) != sorted(remaining) or len(set(names)) != len(names):
            self.fail("BayesianProblem|target|wrong-variables,%s" % route, "%s, but the variables not yet fixed are %s%s"
                      % (what, remaining, " (direct conditioning in the same steps gives a %s over %s)" % (d["branch"], d["names"]) if d else ""), history)
            return False
        if d is not None and bt != d["branch"]:
            self.fail("BayesianProblem|target|wrong-type,%s" % route, "%s, but conditioning the joint directly in the same steps %s gives a %s over %s"
                      % (what, [list(B) for B in done if len(B)], d["branch"], d["names"]), history)
            return False
        if len(history) > 1 and bt in ("Posterior", "Distribution"):
            self.reduced = True
        def sig(op):
            return "BayesianProblem|%s|%%s,%s" % (op, route)
        out = self.call(_t.logd, **_cp(self.vals, remaining))
        vkw = self.judge_problem(out, self.ref, d, "kw", sig("target.logd"), "problem target (%s) logd(keywords)" % bt, history)
        if out[0] == "ok":
            res.outcomes.add("%s:problem:%s:%.10g" % (self.g.gid, bt, out[1]))
        if names and vkw is not None:
            out = self.call(_t.logd, *[GR.copy_val(self.vals[n]) for n in names])
            self.judge_problem(out, self.ref, d, "pos", sig("target.logd-positional"), "problem target (%s) logd(positional)" % bt, history)
        # the accessors of the class
        res.transitions += 1
        try:
            _p = _bp.posterior
            perr = None
        except Exception as e:  # noqa
            _p, perr = None, e
        res.outcomes.add("problem:posterior-accessor:%s:%s" % (bt, "returned" if perr is None else "refused"))
        if bt == "Posterior":
            x = names[0]
            if perr is not None:
                self.fail("BayesianProblem|posterior|refused,%s" % route, "the target is a Posterior over %s but problem.posterior raised %s: %s"
                          % (x, type(perr).__name__, str(perr)[:200]), history)
                return True
            out = self.call(_p.logd, GR.copy_val(self.vals[x]))
            self.judge_problem(out, self.ref, d, "post", sig("posterior.logd"), "problem.posterior.logd", history)
            try:
                _lk, _pr = _bp.likelihood, _bp.prior
                lname = _lk.name
            except Exception as e:  # noqa
                self.fail("BayesianProblem|likelihood-prior|refused,%s" % route, "problem.likelihood / problem.prior raised %r" % (e,), history)
                return True
            if lname not in self.reffac or lname == x:
                self.fail("BayesianProblem|likelihood|wrong-variable,%s" % route, "problem.likelihood is named %r, not one of the "
                          "fixed variables of the graph" % (lname,), history)
                return True
            a1 = self.judge_problem(self.call(_lk.logd, GR.copy_val(self.vals[x])), self.reffac[lname], d, "lik", sig("likelihood.logd"),
                                    "problem.likelihood[%s].logd" % lname, history)
            a2 = self.judge_problem(self.call(_pr.logd, GR.copy_val(self.vals[x])), self.reffac[x], d, "prior", sig("prior.logd"),
                                    "problem.prior.logd", history)
            fixed_contrib = sum(self.reffac[n] for n in self.reffac if n not in (x, lname))
            res.evaluations += 1
            res.count("problem:view=Posterior")
            if a1 is not None and a2 is not None and vkw is not None and not close(vkw, a1 + a2 + fixed_contrib, RTOL):
                self.fail("BayesianProblem|posterior.logd|decomposition,%s" % route, "logd %.15g != loglik %.15g + logprior %.15g + "
                          "fixed contributions %.15g" % (vkw, a1, a2, fixed_contrib), history)
        elif perr is None and remaining:
            # the accessor may refuse (the target is not a Posterior); an object that is handed out must be the target's density
            out = self.call(_p.logd, **_cp(self.vals, remaining))
            self.judge_problem(out, self.ref, d, "kw", sig("posterior.logd"), "problem.posterior (target is a %s) logd" % bt, history)
        return True

    # -- differential oracle ---------------------------------------------------------------------
    def differential(self):
        res = self.res
        for key, obs in self.bykey.items():
            res.evaluations += 1
            if key in self.refbad:
                continue
            vals = [o["value"] for o in obs if o["value"] is not None]
            if vals and not close(max(vals), min(vals), RTOL):
                lo = min(obs, key=lambda o: o["value"])
                hi = max(obs, key=lambda o: o["value"])
                self.fail("differential|logd|same-fixed-set", "histories reaching fixed set %s disagree: %.15g (%s) vs %.15g (%s)"
                          % (sorted(key), lo["value"], hist_str(lo["history"]), hi["value"], hist_str(hi["history"])), hi["history"])
            res.outcomes.add("%s:key=%s:branches=%s" % (self.g.gid, ",".join(sorted(key)), "/".join(sorted(set(o["branch"] for o in obs)))))


def explore_nested(res, cell, g, nfail, over=False):
    """One derived graph g (= one stage-1 history x one stage-2 shape): assemble, then explore like a catalogue graph.
    Returns True when at least one stage-2 history reduced the new joint to a single density."""
    k = cell["cat"]
    base = g.base
    res.count("nested:stage1-histories")
    res.transitions += len(g.history)
    # stage 1 (already judged by the one-stage explorer of the base graph: here only a precondition)
    try:
        _r = g.reduced(k)
        member = branch_of(_r)
        names = list(_r.get_parameter_names())
        v1 = GR.scalar(_r.logd(GR.copy_val(g.base_values(k)[g.keep])))
    except Exception:  # noqa
        res.count("nested:skipped,stage1-refused")
        return False
    if member not in ("Distribution", "Posterior", "MultipleLikelihoodPosterior") or names != [g.keep] \
            or not close(v1, base.ref_joint(k, g.base_values(k)), RTOL):
        res.count("nested:skipped,stage1-not-a-correct-single-density")
        return False
    res.outcomes.add("nested-member:%s:%s" % (base.gid, member))
    # stage 2: assembling a joint is not covered by the statement -> a refusal is accepted (and counted)
    try:
        g.build(k)
    except Exception as e:  # noqa
        res.refused += 1
        res.count("nested:assembly-refused,member=%s" % member)
        res.outcomes.add("nested-assembly-refused:%s:%s" % (member, type(e).__name__))
        return False
    res.count("nested:assembled,member=%s,shape=%s" % (member, g.shape))
    tag = "member=%s" % member + (",level=%d" % g.level if g.level > 1 else "")
    ex = Explorer(res, cell, graph=g, tag=tag, nfail=nfail, tier="quick", over=over)
    ex.explore((), set())
    ex.differential()
    return ex.reduced


def eval_nested(cell):
    res = CellResult(cell)
    base = GR.GRAPHS[cell["graph"]]
    k = cell["cat"]
    keep = cell["nested"]["keep"]
    tier = cell.get("tier", "quick")
    plan = NESTED_PLAN["quick" if cell["graph"] in GR.ORDER5 else tier]
    nfail = {}
    reduced = False
    for which, shapes in plan:
        for hist in NE.stage1_histories(base, k, keep, which, step_modes):
            for shape in shapes:
                reduced |= explore_nested(res, cell, NE.Nested(base, hist, shape), nfail)
    if tier != "quick":
        # three stages: the reduced density of a stage-2 joint (shape C: it carries the constant of the fresh
        # hyper-parameter AND has the stage-1 density as its prior) is again a member of a new joint
        hist1 = NE.stage1_histories(base, k, keep, "extreme", step_modes)[0]
        inner = NE.Nested(base, hist1, "C", level=1)
        for hist2 in NE.stage1_histories(inner, k, keep, "extreme", step_modes):
            for shape in ("A", "D"):
                reduced |= explore_nested(res, cell, NE.Nested(inner, hist2, shape, level=2), nfail)
    res.nontrivial = reduced
    return res


def eval_named(cell):
    """One graph of the naming facet (helper _c01_names.py), explored exactly like a catalogue graph."""
    res = CellResult(cell)
    g = NA.graph_of(cell["names"])
    naming = g.naming()
    res.count("naming:" + naming)
    for r, rel in g.relations().items():
        for x in rel:
            res.count("naming-relation:" + x)
    # the attribute alphabet the names are taken from is the library's own (anti-vacuity, not a verdict)
    try:
        diff = g.confirm_attrs(g.build(cell["cat"]))
    except Exception as e:  # noqa   (assembly / first conditioning problems are judged by the explorer below)
        diff = [repr(e)]
    res.count("naming:attribute-lists-confirmed" if not diff else "naming:attribute-lists-differ")
    res.outcomes.add("naming:%s:%s" % (cell["names"]["template"], naming))
    try:
        g.build(cell["cat"])
    except Exception as e:  # noqa   assembling a joint is not covered by the statement
        res.refused += 1
        res.count("naming:assembly-refused")
        res.outcomes.add("naming-assembly-refused:%s:%s" % (naming, type(e).__name__))
        res.nontrivial = False
        return res
    ex = Explorer(res, cell, graph=g, tag="naming=" + naming)
    ex.explore((), set())
    ex.differential()
    if cell.get("tier", "quick") != "quick":
        ex.explore_problem()
    res.nontrivial = ex.reduced
    return res


def eval_arity(cell):
    """One graph of the arity facet (helper _c01_arity.py), explored exactly like a catalogue graph: every history
    (hence every sequence of partial bindings of every callable), every call form, factors, decomposition, reuse probe,
    malformed calls; the over-specification value catalogue is not repeated."""
    res = CellResult(cell)
    g = AR.graph_of(cell["arity"])
    res.count("arity:%d" % g.arity)
    res.outcomes.add("arity:%s:r=%d:args=%s" % (g.template, g.arity, "reversed" if g.rev else "same"))
    try:
        g.build(cell["cat"])
    except Exception as e:  # noqa   assembling a joint is not covered by the statement
        res.refused += 1
        res.count("arity:assembly-refused")
        res.outcomes.add("arity-assembly-refused:%s:%s" % (g.template, type(e).__name__))
        res.nontrivial = False
        return res
    ex = Explorer(res, cell, graph=g, tag="arity=%d" % g.arity, over=False)
    ex.explore((), set())
    ex.differential()
    if len(g.free) <= 4:
        ex.explore_problem()
    res.nontrivial = ex.reduced
    return res


def eval_cell(cell):
    if cell.get("nested"):
        return eval_nested(cell)
    if cell.get("arity"):
        return eval_arity(cell)
    if cell.get("names"):
        return eval_named(cell)
    res = CellResult(cell)
    ex = Explorer(res, cell)
    if cell.get("route") == "BayesianProblem":
        ex.explore_problem()
        res.nontrivial = ex.reduced
        return res
    ex.explore((), set())
    ex.differential()
    res.nontrivial = ex.reduced
    for name in ("reduce:Likelihood",):
        res.branches.setdefault(name, 0)
    return res
