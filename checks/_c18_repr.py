"""C18 helpers: the representation facet (what dtype / container PDE_form hands to the library and in which
representation the parameter is passed) and the input-integrity recorder (nothing handed to the library by PDE_form
or by the caller may be modified by assemble/solve/observe).

Everything here is harness-side input construction; the oracle stays the dense float64 reference loop of c18.py run
on np.asarray(piece, float) of the very same values.
"""
import copy
import numpy as np

# representations of a vector-valued piece / of the parameter
REPS = ["f64", "int", "bool", "f32", "list"]
# representations of the operator
OP_REPS = ["f64", "int", "bool", "f32", "list", "csr-f64", "csr-int"]
NDARRAY_REPS = ("f64", "int", "bool", "f32")        # a real ndarray: the library may not refuse it


def cast(v, rep, matrix=False):
    """the same (integer valued) data in another representation; 'raw' = whatever the expression produced"""
    if rep == "raw":
        return v
    a = np.asarray(v)
    if rep == "f64":
        return _generic(a.astype(np.float64), matrix)
    if rep == "int":
        return np.round(a).astype(np.int64)
    if rep == "bool":                         # an indicator; (the reference runs on the 0/1 values that are handed over)
        return (a != 0) if matrix else (a > 0)
    if rep == "f32":
        return _generic(a.astype(np.float64), matrix).astype(np.float32)       # dyadic: exact in single precision
    if rep == "list":
        return np.round(a).astype(np.int64).tolist()
    if rep in ("csr-f64", "csr-int"):
        import scipy.sparse as sp
        return sp.csr_matrix(_generic(a.astype(np.float64), True) if rep == "csr-f64" else a.astype(np.int64))
    raise ValueError(rep)


def _generic(a, matrix):
    """floating point pieces carry generic (non-integer, dyadic) values, so that a piece squeezed into the integer dtype of ANOTHER
    piece is visible; the sparsity pattern of a matrix is kept"""
    return a * 1.0625 if matrix else a * 1.0625 + 0.375


def _tridiag(N):
    return np.diag(-2 * np.ones(N, dtype=np.int64)) + np.diag(np.ones(N - 1, dtype=np.int64), 1) + np.diag(np.ones(N - 1, dtype=np.int64), -1)


def _int_data(N, k):
    base = [3, -5, 7, 2, -9, 11, -4, 6, -13, 8, 5, -7, 10, -3, 12, -6, 9, -11, 4, 13]
    F0 = np.array([base[(i + 5 * k) % len(base)] for i in range(N)], dtype=np.int64)
    W = np.array([[((2 * i + 3 * j + i * j + k) % 5) - 2 for j in range(N)] for i in range(N)], dtype=np.int64)
    x1 = np.array([base[(i + 5 * k + 3) % len(base)] for i in range(N)], dtype=np.int64)
    x2 = np.array([base[(i + 5 * k + 7) % len(base)] % 3 for i in range(N)], dtype=np.int64)      # contains zeros: an impulse-like vector
    return F0, W, x1, x2


def repr_facet(reps, names):
    """signature facet: the pieces that are not plain float64, e.g. 'param=int' or 'ic=bool,op=csr-int'"""
    out = ["%s=%s" % (n, r) for n, r in zip(names, reps) if r not in ("f64", "raw")]
    return ",".join(out) if out else "all=f64"


def has_f32(reps):
    return any(r == "f32" for r in reps)


def may_refuse(reps):
    """list containers and sparse operators are outside 'ndarray': the library may refuse them"""
    return any(r in ("list", "csr-f64", "csr-int") for r in reps)


def td_form_repr(N, k, reps):
    """time dependent form with integer valued data; reps = (parameter, initial condition, source, operator).
    'raw' pieces are dtype-preserving expressions of the parameter: the initial condition IS the parameter object."""
    rp, ri, rs, ro = reps
    F0, W, x1, x2 = _int_data(N, k)
    A0 = 10 * _tridiag(N)
    t0 = 0.0

    def form(x, t):
        xa = np.asarray(x)
        c = int(round((t - t0) * 1000))                       # integer clock: operator and source depend on t with integer values
        op = (1 + c % 3) * A0 - np.diag(np.abs(xa))
        src = (1 + c % 2) * F0 + W @ xa
        return cast(op, ro, matrix=True), cast(src, rs), cast(x, ri)
    xs = [cast(x1, rp), cast(x2, rp)]
    return form, xs, N, t0


def steady_form_repr(N, k, reps):
    """steady form with integer valued data; reps = (parameter, right-hand side, operator)"""
    rp, rs, ro = reps
    F0, W, x1, x2 = _int_data(N, k)
    A0 = -10 * _tridiag(N) + 5 * np.eye(N, dtype=np.int64)

    def form(x):
        xa = np.asarray(x)
        op = A0 + np.diag(np.abs(xa))
        rhs = F0 + W @ xa
        return cast(op, ro, matrix=True), cast(rhs, rs)
    xs = [cast(x1, rp), cast(x2, rp)]
    return form, xs, N


def small_int(x):
    """integer valued stand-in (entries +-1, +-2, signs kept) for a float catalogue vector: the same numbers fit every representation"""
    x = np.asarray(x, dtype=float)
    return np.sign(x) * (1.0 + (np.round(4.0 * np.abs(x)) % 2))


def as_float(x):
    return np.asarray(x, dtype=float)


def xcopy(x):
    return copy.deepcopy(x) if isinstance(x, list) else x.copy()


# ----------------------------------------------------------------------------------------
# input integrity
# ----------------------------------------------------------------------------------------
def snap(o):
    if isinstance(o, np.ndarray):
        return ("nd", o.dtype, o.shape, o.tobytes())
    if hasattr(o, "todense") and hasattr(o, "copy"):
        return o.copy()
    return copy.deepcopy(o)


def same(o, s):
    try:
        if isinstance(o, np.ndarray):
            return o.dtype == s[1] and o.shape == s[2] and o.tobytes() == s[3]
        if hasattr(o, "todense") and hasattr(o, "copy"):
            return o.dtype == s.dtype and o.shape == s.shape and (o != s).nnz == 0
        return type(o) is type(s) and o == s
    except Exception:
        return False


class Recorder:
    """Wraps PDE_form: every object handed to the library is remembered together with a snapshot taken at hand-over
    (an object handed over several times is remembered once - a reference is kept, so its identity is stable)."""

    def __init__(self, form, names):
        self.form = form
        self.names = names
        self.log = []
        self.ids = set()

    def __call__(self, *args):
        out = self.form(*args)
        for n, o in zip(self.names, out):
            self.watch(n, o)
        return out

    def watch(self, name, obj):
        if id(obj) not in self.ids:
            self.ids.add(id(obj))
            self.log.append((name, obj, snap(obj)))
        return obj

    def altered(self):
        """name of the first handed-over object that no longer equals its snapshot (None = all intact)"""
        for n, o, s in self.log:
            if not same(o, s):
                return n
        return None
