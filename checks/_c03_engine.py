"""C03 helper: oracle (Richardson derivative of the object's own logd), observation records and the
coalescing of failing variants into narrow finding signatures.  Only used by checks/c03.py."""
import numpy as np
from vfw.core import close
from vfw import refs

EPS = 2.220446049250313e-16
TOL = 1e-5           # analytic gradients vs Richardson, relative to max(1,|g|)
TOL_FD = 1e-4        # library forward differences (epsilon = 1e-8), plus a round-off allowance
TOL_F32 = 1e-4       # evaluation point handed over in single precision: the library may compute in single precision
H1, H2 = 1e-3, 2.5e-4


class Case(object):
    """One concrete object under test.

    component : str          finding component (class under test)
    facets    : dict         inner option facets (candidates for the signature)
    obj       : object with .gradient(x) and .logd(x)
    inside    : list of (kind, x) evaluation points inside the support (away from kinks)
    outside   : list of (kind, x) points outside the support
    fd_targets: objects whose enable_FD() is called when the cell asks for the FD option
    ref_logd  : optional callable x -> independent textbook log-density (up to a constant), differentiated
                instead ONLY when the object's own logd refuses or is not finite at an interior point (sparse
                Gaussians without cholmod have no normalised logd; rank-deficient GMRFs report a NaN constant)
    int_inside / int_outside : lists of (kind, x) INTEGER-VALUED points inside / outside the support; each of them is
                handed to gradient() in every representation of `reps_for` (float64 array, int64 array, list of
                python ints, float32 array, python int / float for one-component variables)
    boundary  : list of (at, kind, x): points exactly ON finite bounds of the (box) support - faces and corners; `at` in
                {"lower", "upper", "mixed"} says which bounds the point touches.  They are judged by the object's own logd
                (observe_boundary): no claim is made here whether the family counts its boundary to the support
    pieces    : Pieces registry of the user-supplied callables built into the object (facet "user-supplied pieces return
                fresh / stored arrays / views of their input"); its stored arrays are checked to be unchanged afterwards
    """

    def __init__(self, component, facets, obj, inside, outside=(), fd_targets=None, ref_logd=None,
                 int_inside=(), int_outside=(), boundary=(), pieces=None):
        self.pieces = pieces        # Pieces: the user-supplied callables of this object (aliasing facet), or None
        self.component = component
        self.facets = dict(facets)
        self.obj = obj
        self.inside = list(inside)
        self.outside = list(outside)
        self.int_inside = list(int_inside)
        self.int_outside = list(int_outside)
        self.boundary = list(boundary)
        self.fd_targets = [obj] if fd_targets is None else list(fd_targets)
        self.ref_logd = ref_logd


# ------------------------------------------------------------------------------------------
# facet "user-supplied pieces return fresh arrays / stored arrays / views of their input"
# ------------------------------------------------------------------------------------------
ALIASES = ("fresh", "stored", "view")


class Stored(object):
    """A user callable that hands back STORED arrays (a cache on the user's side): the value for given arguments is
    computed once and kept; the same array object is returned every time these arguments recur (constant=True: the value
    does not depend on the arguments - one stored array, returned on every call).  A pristine copy of every stored array is
    kept aside so that `altered()` can tell afterwards whether somebody wrote into the user's arrays."""

    def __init__(self, f, name, constant=False):
        self.f, self.name, self.constant = f, name, constant
        self.memo = {}
        self.calls = 0
        self.hits = 0

    @staticmethod
    def _key(args, kwargs):
        parts = []
        for tag, a in [(None, a) for a in args] + sorted(kwargs.items()):
            a = np.asarray(a)
            parts.append((tag, a.dtype.str, a.shape, a.tobytes()))
        return tuple(parts)

    def __call__(self, *args, **kwargs):
        self.calls += 1
        key = () if self.constant else self._key(args, kwargs)
        hit = self.memo.get(key)
        if hit is None:
            val = np.array(self.f(*args, **kwargs), dtype=float)     # storage owned by the user's cache
            hit = self.memo[key] = (val, val.copy())
        else:
            self.hits += 1
        return hit[0]

    def function(self):
        """plain function with the signature of the wrapped callable (the library reads argument names off signatures)"""
        import functools

        @functools.wraps(self.f)
        def stored_result(*args, **kwargs):
            return self(*args, **kwargs)
        return stored_result

    def altered(self):
        """-> list of (now, pristine) for the stored arrays that no longer hold what the user stored"""
        return [(val, orig) for val, orig in self.memo.values()
                if val.shape != orig.shape or not np.array_equal(val, orig, equal_nan=True)]


class Pieces(object):
    """Registry of the user-supplied callables built into one object under test, and their aliasing behaviour:
      fresh  : every callable returns a new array per call (what the harness' closed forms naturally do)
      stored : every callable returns stored arrays (class Stored)
      view   : every callable that has such a form returns a view of (or simply) one of its input arguments, the others
               behave as 'fresh'"""

    def __init__(self, alias="fresh"):
        if alias not in ALIASES:
            raise ValueError(alias)
        self.alias = alias
        self.stored = []
        self.names = []
        self.nview = 0

    def wrap(self, f, name, view=None, constant=False):
        self.names.append(name)
        if self.alias == "stored":
            s = Stored(f, name, constant)
            self.stored.append(s)
            return s.function()
        if self.alias == "view" and view is not None:
            self.nview += 1
            return view
        return f

    def altered(self):
        """-> list of (piece name, now, pristine) over all stored arrays of all pieces"""
        return [(s.name, val, orig) for s in self.stored for val, orig in s.altered()]


def _logd_scalar(obj, x):
    v = obj.logd(np.array(x, dtype=float, copy=True))
    a = np.asarray(v, dtype=float)
    if a.size != 1:
        raise ValueError("logd is not a scalar (size %d)" % a.size)
    return float(a.ravel()[0])


def reference(obj, x):
    """Richardson-extrapolated central differences of obj.logd at x with two base steps.
    Returns (dict, None) or (None, reason) when no trustworthy reference exists at this point."""
    try:
        f0 = _logd_scalar(obj, x)
    except Exception as e:  # the object cannot evaluate its own log-density here
        return None, "logd-raises:" + type(e).__name__
    if not np.isfinite(f0):
        return None, "logd-nonfinite"
    f = lambda z: _logd_scalar(obj, z)
    try:
        R1, g1, g2 = refs.richardson_grad(f, x, h=H1)
        R2, _, g4 = refs.richardson_grad(f, x, h=H2)
    except Exception as e:
        return None, "logd-raises-nearby:" + type(e).__name__
    if not (np.all(np.isfinite(R1)) and np.all(np.isfinite(R2))):
        return None, "ref-nonfinite"
    scale = max(1.0, float(np.max(np.abs(R1))), float(np.max(np.abs(R2))))
    if float(np.max(np.abs(R1 - R2))) > 1e-6 * scale:
        return None, "ref-unreliable"
    return {"f0": f0, "R1": R1, "R2": R2, "g2": g2, "g4": g4}, None


def logd_noise(obj, x, step):
    """max_i |f(x + 2 step e_i) - 2 f(x + step e_i) + f(x)|: evaluation noise of logd at the scale of the FD step"""
    try:
        x = np.array(x, dtype=float, copy=True)
        f0 = _logd_scalar(obj, x)
        worst = 0.0
        for i in range(x.size):
            e = np.zeros(x.size)
            e[i] = step
            d2 = _logd_scalar(obj, x + 2 * e) - 2.0 * _logd_scalar(obj, x + e) + f0
            if not np.isfinite(d2):
                return None
            worst = max(worst, abs(d2))
        return worst
    except Exception:
        return None


class _Ref(object):
    def __init__(self, f):
        self.logd = f


def as_vector(g):
    """Numeric flat view of a returned gradient, or None when it is not an array of numbers."""
    if g is None:
        return None
    if hasattr(g, "todense"):
        g = g.todense()
    try:
        a = np.asarray(g, dtype=float)
    except Exception:
        return None
    return a


# ------------------------------------------------------------------------------------------
# representation of the evaluation point (array_like): the SAME integer-valued point in several forms
# ------------------------------------------------------------------------------------------
REPS = ("float64", "int64", "list", "float32", "pyint", "pyfloat")


def reps_for(dim, fd):
    """Representations enumerated for an integer-valued point of a dim-component variable.
    float32 is left out under the finite-difference option: the library's step (1e-8) is below single-precision
    resolution, so x + step == x there and no derivative can be demanded."""
    out = ["float64", "int64", "list"]
    if not fd:
        out.append("float32")
    if dim == 1:
        out += ["pyint", "pyfloat"]
    return out


def represent(x, rep):
    x = np.array(x, dtype=np.float64, copy=True).ravel()
    xi = np.rint(x).astype(np.int64)
    if not np.array_equal(xi.astype(np.float64), x):
        raise ValueError("not an integer-valued point: %r" % (x,))
    if rep == "float64":
        return x
    if rep == "int64":
        return xi
    if rep == "list":
        return [int(v) for v in xi]
    if rep == "float32":
        return x.astype(np.float32)
    if rep == "pyint":
        return int(xi[0])
    if rep == "pyfloat":
        return float(x[0])
    raise ValueError(rep)


def hand_over(x, rep):
    """the object actually handed to gradient(): a private copy of the point in the requested representation"""
    return np.array(x, dtype=float, copy=True) if rep is None else represent(x, rep)


def point_altered(given, x, rep):
    """did gradient() change the evaluation point it was given (an array / list owned by the caller) in place?"""
    want = hand_over(x, rep)
    if isinstance(given, np.ndarray):
        if given.shape != want.shape or given.dtype != want.dtype or not np.array_equal(given, want):
            return "gradient() altered the evaluation point it was given in place: %s became %s%s" % (
                np.array2string(np.asarray(want, float).ravel(), precision=6), np.array2string(np.asarray(given, float).ravel(), precision=6),
                _given(rep))
    elif isinstance(given, list) and given != want:
        return "gradient() altered the list it was given as evaluation point in place: %r became %r" % (want, given)
    return None


def _given(rep):
    return "" if rep is None else " [evaluation point given as %s]" % rep


def held_arrays(obj, n, limit=4):
    """Facet 'identity of the evaluation point': the float64 vectors with n entries that the object under test HOLDS, i.e. that are
    reachable from it through instance attributes (and lists / tuples / dicts in them) of objects of the library or of the
    harness - the likelihood's data, a mean / location / scale / shape vector, a grid of a geometry ...  Returned in a fixed walk
    order (attribute names sorted), distinct objects only, at most `limit`: list of (attribute path, the array object itself)."""
    out, seen = [], set()

    def walk(o, path, depth):
        if len(out) >= limit or depth > 6 or id(o) in seen:
            return
        seen.add(id(o))
        if isinstance(o, np.ndarray):
            if type(o) is np.ndarray and o.dtype == np.float64 and o.ndim == 1 and o.size == n and o.flags.writeable:
                out.append((path, o))
            return
        if isinstance(o, (list, tuple)):
            for j, v in enumerate(o):
                walk(v, "%s[%d]" % (path, j), depth + 1)
        elif isinstance(o, dict):
            for kk in sorted(o, key=str):
                walk(o[kk], "%s[%r]" % (path, kk), depth + 1)
        elif (type(o).__module__ or "").startswith(("cuqi", "checks.")) and hasattr(o, "__dict__"):
            for kk in sorted(vars(o)):
                walk(vars(o)[kk], "%s.%s" % (path, kk), depth + 1)
    walk(obj, "obj", 0)
    return out


def kink_at(obj, x):
    """is the object's logd kinked (or not finite) at / next to x along some axis?  jump(h) = forward minus backward difference
    quotient: ~ f''*h for a smooth logd (quarters when h is quartered), ~ constant at a kink"""
    x = np.array(x, dtype=float, copy=True)
    try:
        f0 = _logd_scalar(obj, x)
        for i in range(x.size):
            jump = []
            for h in (H1, H1 / 4):
                e = np.zeros(x.size); e[i] = h
                jump.append((_logd_scalar(obj, x + e) - 2.0 * f0 + _logd_scalar(obj, x - e)) / h)
            if not np.all(np.isfinite(jump)):
                return True
            if abs(jump[0]) > 1e-7 and abs(jump[1]) > 0.6 * abs(jump[0]):
                return True
    except Exception:
        return True
    return False


def observe(case, kind, x, fd, fd_eps, rep=None, cache=None, given=None):
    """Evaluate gradient at x on the real object and classify.  Returns dict(status=..., ...).
    given : hand THIS array object (holding the values x) to gradient() instead of a private copy of x

    status: 'ok' | 'refused' | 'skip' | 'bad'; for 'bad' cls in {'value','shape','none'}
    rep   : representation in which the (integer-valued) point is handed to gradient(); the reference is always the
            Richardson derivative of the object's logd at the float64 version of the point
    cache : dict shared by the representations of one point (the reference is computed once)"""
    x = np.array(x, dtype=float, copy=True)
    xin = hand_over(x, rep) if given is None else given
    try:
        g = case.obj.gradient(xin)
    except Exception as e:
        return {"status": "refused", "why": type(e).__name__}
    alt = point_altered(xin, x, rep)
    if alt is not None:
        return {"status": "bad", "cls": "input-altered", "msg": alt, "x": x}
    a = as_vector(g)
    if a is None:
        return {"status": "bad", "cls": "none", "msg": "gradient() returned %r instead of raising or returning a vector%s"
                % (g, _given(rep)), "x": x}
    if cache is not None and "ref" in cache:
        ref, why, fallback = cache["ref"]
    else:
        ref, why = reference(case.obj, x)
        fallback = False
        if ref is None and case.ref_logd is not None and why.split(":")[0] in ("logd-raises", "logd-nonfinite"):
            ref, why = reference(_Ref(case.ref_logd), x)
            fallback = True
        if cache is not None:
            cache["ref"] = (ref, why, fallback)
    if ref is None:
        return {"status": "skip", "why": why}
    if fallback and fd:
        return {"status": "skip", "why": "fd-of-refusing-logd"}
    R1 = ref["R1"]
    if a.size != R1.size:
        return {"status": "bad", "cls": "shape", "x": x, "impl": a, "ref": R1,
                "msg": "gradient has shape %s (size %d) but the evaluated variable has %d components; d logd/dx = %s%s"
                % (a.shape, a.size, R1.size, np.array2string(R1, precision=6), _given(rep))}
    v = a.ravel()
    if not np.all(np.isfinite(v)):
        return {"status": "bad", "cls": "value", "x": x, "impl": v, "ref": R1,
                "msg": "gradient is not finite inside the support where logd is finite and differentiable" + _given(rep)}
    if fd:
        scale = max(1.0, float(np.max(np.abs(R1))))
        atol = TOL_FD * scale + 100 * EPS * max(1.0, abs(ref["f0"])) / fd_eps
        good = any(float(np.max(np.abs(v - r))) <= atol for r in (R1, ref["R2"]))
    else:
        good = any(close(v, r, TOL_F32 if rep == "float32" else TOL) for r in (R1, ref["R2"], ref["g2"], ref["g4"]))
    if not good and fd:
        # forward differences with the library's step amplify the evaluation noise of logd by 1/step; where logd itself
        # is noisy (e.g. a log-density computed as log(pdf) with pdf in the subnormal range) no derivative can be
        # demanded from them.  The noise is MEASURED (second differences of the object's logd at the library's step
        # along every axis; smooth part ~ f''*step^2, negligible), only when the comparison failed.
        delta = logd_noise(_Ref(case.ref_logd) if fallback else case.obj, x, fd_eps)
        if delta is not None and float(np.max(np.abs(v - R1))) <= atol + 4.0 * delta / fd_eps:
            return {"status": "skip", "why": "fd-roundoff-dominated"}
    if good:
        return {"status": "ok", "shape_exact": tuple(a.shape) == tuple(x.shape), "fallback": fallback,
                "impl": v, "ref": R1}
    return {"status": "bad", "cls": "value", "x": x, "impl": v, "ref": R1,
            "msg": "gradient %s != d logd/dx %s (central differences h=%g: %s)%s"
            % (np.array2string(v, precision=6), np.array2string(R1, precision=6), H1 / 2,
               np.array2string(ref["g2"], precision=6), _given(rep))}


def observe_outside(case, kind, x, rep=None):
    x = np.array(x, dtype=float, copy=True)
    xin = hand_over(x, rep)
    try:
        g = case.obj.gradient(xin)
    except Exception as e:
        return {"status": "refused", "why": type(e).__name__}
    alt = point_altered(xin, x, rep)
    if alt is not None:
        return {"status": "bad", "cls": "input-altered", "msg": alt, "x": x}
    a = as_vector(g)
    if a is None:
        return {"status": "bad", "cls": "none", "msg": "gradient() returned %r outside the support%s" % (g, _given(rep)), "x": x}
    if a.size == 0 or np.all(np.isfinite(a)):
        return {"status": "bad", "cls": "finite", "x": x, "impl": a,
                "msg": "finite gradient %s reported outside the support at %s%s"
                % (np.array2string(a.ravel(), precision=6), np.array2string(x, precision=6), _given(rep))}
    return {"status": "ok", "allnan": bool(np.all(np.isnan(a)))}


# ------------------------------------------------------------------------------------------
# points exactly ON a finite bound of the support (faces, corners): judged by the object's own logd
# ------------------------------------------------------------------------------------------
def _probe(obj, x):
    """logd at x as a float; NaN when the object's logd raises or is not a scalar"""
    try:
        return _logd_scalar(obj, x)
    except Exception:
        return float("nan")


def _axis_derivative(obj, x, i, f0, side, memo=None):
    """Richardson-extrapolated derivative of obj.logd along axis i at x with base steps H1 and H2.
    side = 0: central differences (O(h^4)); side = +1 / -1: one-sided three-point differences that use only points on
    that side of x (O(h^3)).  Returns the list of candidate values [R(H1), R(H2), raw(H1/2)] or None when some logd
    value needed is not finite or the two extrapolations disagree by > 1e-6 (no trustworthy derivative)."""
    memo = {} if memo is None else memo     # logd values along this axis, keyed by the offset

    def f(t):
        if t not in memo:
            z = np.array(x, dtype=float, copy=True)
            z[i] += t
            memo[t] = _probe(obj, z)
        return memo[t]

    def D(h):
        if side == 0:
            return (f(h) - f(-h)) / (2 * h)
        return side * (-3.0 * f0 + 4.0 * f(side * h) - f(2 * side * h)) / (2 * h)
    out, raw = [], None
    for h in (H1, H2):
        d1, d2 = D(h), D(h / 2)
        out.append((4.0 * d2 - d1) / 3.0)
        raw = d2 if raw is None else raw
    if not np.all(np.isfinite(out)):
        return None
    if abs(out[0] - out[1]) > 1e-6 * max(1.0, abs(out[0]), abs(out[1])):
        return None
    return out + [raw]


def one_sided_pair(obj, x, i, f0, memo=None):
    """both one-sided derivatives along axis i (logd finite on both sides), [] when one of them is not trustworthy"""
    ws = [_axis_derivative(obj, x, i, f0, s, memo) for s in (+1, -1)]
    return (ws[0] + ws[1]) if (ws[0] is not None and ws[1] is not None) else []


def boundary_reference(obj, x):
    """What the object's own logd says about the derivative at a point x lying on a bound of the support.

    -> ("skip", reason)        logd raises / is NaN at x: nothing can be demanded
       ("nonfinite", f0)       logd = -inf (or +inf) at x: no finite derivative exists; the gradient must not be finite
       ("finite", f0, coords)  logd finite at x; coords[i] is a dict
            vals : list of acceptable finite values of entry i (derivatives of logd along axis i from every side on which
                   logd is finite in a neighbourhood: the central one where both sides are, otherwise the one-sided one;
                   at a kink both one-sided derivatives), empty = nothing demanded of entry i
            inf  : None | +inf | -inf | "any": acceptable non-finite value of entry i = the one-sided derivative taken from
                   the side on which logd is -inf (in the extended reals: +inf at a lower bound, -inf at an upper bound;
                   this is what a forward/backward difference across the bound reports); "any" when logd is NaN/+inf there
            side : 'both' | '+' | '-' | 'none' (for coverage counts)"""
    x = np.array(x, dtype=float, copy=True)
    f0 = _probe(obj, x)
    if np.isnan(f0):
        return ("skip", "logd-raises-or-nan")
    if not np.isfinite(f0):
        return ("nonfinite", f0)
    coords = []
    for i in range(x.size):
        fin = {}
        val = {}
        memo = {}
        for s in (+1, -1):
            for t in (s * H1, 2 * s * H1):
                z = x.copy(); z[i] += t
                memo[t] = _probe(obj, z)
            val[s] = memo[s * H1]
            fin[s] = bool(np.isfinite(val[s]) and np.isfinite(memo[2 * s * H1]))
        c = {"vals": [], "inf": None, "side": "none"}
        if fin[+1] and fin[-1]:
            c["side"] = "both"
            v = _axis_derivative(obj, x, i, f0, 0, memo)
            if v is None:       # kink along this axis (or noisy logd): either one-sided derivative is acceptable
                v = one_sided_pair(obj, x, i, f0, memo)
            c["vals"] = v
        elif fin[+1] or fin[-1]:
            s = +1 if fin[+1] else -1
            c["side"] = "+" if s > 0 else "-"
            c["vals"] = _axis_derivative(obj, x, i, f0, s, memo) or []
            out = val[-s]
            # (f(x - s h) - f(x)) / (-s h) with f(x - s h) = -inf  ->  s * inf
            c["inf"] = (s * np.inf) if (np.isinf(out) and out < 0) else "any"
            if not c["vals"]:
                c["inf"] = None         # no trustworthy inner derivative: demand nothing of this entry
        coords.append(c)
    return ("finite", f0, coords)


def observe_boundary(case, kind, x, fd, fd_eps):
    """Gradient at a point exactly on a bound of the support.  Oracle (the object's own logd decides):
      logd(x) = -inf/+inf : gradient() raises or returns something with a non-finite entry
      logd(x) finite      : gradient() raises, or has as many entries as x and entry i equals the derivative of logd along
                            axis i taken from a side on which logd is finite (one-sided at the bound; either side at a kink),
                            or is the signed infinity that the one-sided derivative from the -inf side gives
      logd(x) NaN / raises: skipped.
    Returns the same records as observe(); additionally 'branch' in {'nonfinite', 'finite'} for coverage."""
    x = np.array(x, dtype=float, copy=True)
    xin = hand_over(x, None)
    try:
        g = case.obj.gradient(xin)
    except Exception as e:
        return {"status": "refused", "why": type(e).__name__}
    alt = point_altered(xin, x, None)
    if alt is not None:
        return {"status": "bad", "cls": "input-altered", "msg": alt, "x": x}
    a = as_vector(g)
    if a is None:
        return {"status": "bad", "cls": "none", "x": x,
                "msg": "gradient() returned %r on the boundary of the support instead of raising or returning a vector" % (g,)}
    ref = boundary_reference(case.obj, x)
    if ref[0] == "skip":
        return {"status": "skip", "why": ref[1]}
    if ref[0] == "nonfinite":
        if a.size == 0 or np.all(np.isfinite(a)):
            return {"status": "bad", "cls": "finite", "x": x, "impl": a,
                    "msg": "finite gradient %s reported at %s where the object's logd is %s"
                    % (np.array2string(a.ravel(), precision=6), np.array2string(x, precision=6), ref[1])}
        return {"status": "ok", "branch": "nonfinite", "allnan": bool(np.all(np.isnan(a)))}
    _, f0, coords = ref
    if all(not c["vals"] for c in coords):
        return {"status": "skip", "why": "no-one-sided-neighbourhood"}
    want = np.array([c["vals"][0] if c["vals"] else np.nan for c in coords])
    desc = "[" + " ".join(("%.6g" % c["vals"][0] if c["vals"] else "*") + ("" if c["inf"] is None else "|%s" % (c["inf"],))
                          for c in coords) + "]"
    if a.size != x.size:
        return {"status": "bad", "cls": "shape", "x": x, "impl": a, "ref": want,
                "msg": "gradient has shape %s (size %d) but the evaluated variable has %d components; one-sided d logd/dx = %s"
                % (a.shape, a.size, x.size, desc)}
    v = a.ravel()
    scale = max([1.0] + [abs(c["vals"][0]) for c in coords if c["vals"]])
    if fd:
        atol = TOL_FD * scale + 100 * EPS * max(1.0, abs(f0)) / fd_eps
    else:
        atol = TOL * scale
    wrong = []
    for i, c in enumerate(coords):
        if not c["vals"]:
            continue
        if np.isfinite(v[i]):
            if not any(abs(v[i] - r) <= atol for r in c["vals"]):
                # the central derivative of a kinked logd is the mean of the one-sided ones: accept either of those
                if c["side"] == "both" and any(abs(v[i] - r) <= atol for r in one_sided_pair(case.obj, x, i, f0)):
                    continue
                wrong.append(i)
        else:
            acc = c["inf"]
            if isinstance(acc, str):        # "any": logd is NaN / +inf beyond the bound
                continue
            if acc is None or np.isnan(v[i]) or v[i] != acc:
                wrong.append(i)
    if wrong and fd and all(np.isfinite(v[i]) for i in wrong):
        # same allowance as in observe(): measured evaluation noise of logd at the library's step, along the inner side
        worst = 0.0
        for i in wrong:
            s = -1.0 if coords[i]["side"] == "-" else 1.0
            z1 = x.copy(); z1[i] += s * fd_eps
            z2 = x.copy(); z2[i] += 2 * s * fd_eps
            d2 = _probe(case.obj, z2) - 2.0 * _probe(case.obj, z1) + f0
            worst = np.inf if not np.isfinite(d2) else max(worst, abs(d2))
        if np.isfinite(worst) and all(min(abs(v[i] - r) for r in coords[i]["vals"]) <= atol + 4.0 * worst / fd_eps for i in wrong):
            return {"status": "skip", "why": "fd-roundoff-dominated"}
    if not wrong:
        return {"status": "ok", "branch": "finite", "shape_exact": tuple(a.shape) == tuple(x.shape), "impl": v, "ref": want,
                "sides": "".join(sorted(set(c["side"] for c in coords))),
                "infinite_entries": int(np.sum(~np.isfinite(v)))}
    return {"status": "bad", "cls": "value", "x": x, "impl": v, "ref": want,
            "msg": "on the boundary of the support, where the object's logd is finite (%.6g): gradient %s, entries %s differ from "
                   "the (one-sided) derivative of logd %s  (* = nothing demanded; |+-inf = also accepted)"
            % (f0, np.array2string(v, precision=6), wrong, desc)}


# ------------------------------------------------------------------------------------------
# coalescing failing variants into narrow signatures
# ------------------------------------------------------------------------------------------
def coalesce(failing, clean, keys, sticky=("class",)):
    """failing / clean: sets of facet tuples (aligned with keys); clean = evaluated variants without any failure
    (variants that were refused, skipped or fail in another class are 'do not care').
    A key is kept in the signature only when it discriminates, i.e. both
      (marginal)  some value of the key observed on a clean or failing variant never occurs among the failing
                  variants (robust against a few degenerate, trivially clean variants such as an empty operator), and
      (sibling)   some failing variant has a clean sibling differing only in that key (robust against option
                  products that are not fully crossed).
    The kept key whose merging gives the fewest groups has its values joined by '+'.
    Returns a sorted list of facet strings."""
    keys = list(keys)
    F = set(failing)
    C = set(clean) - F
    U = C | F
    keep = []
    for i, k in enumerate(keys):
        if k in sticky and len(set(t[i] for t in U)) == 1:
            keep.append(i)      # nothing to compare with: keep the narrower signature
            continue
        if not (set(t[i] for t in U) - set(t[i] for t in F)):
            continue
        vals = set(t[i] for t in C)
        if any((f[:i] + (v,) + f[i + 1:]) in C for f in F for v in vals if v != f[i]):
            keep.append(i)
    if not keep:
        return [""]
    kk = [keys[i] for i in keep]
    P = set(tuple(t[i] for i in keep) for t in F)
    best = None
    for mk in range(len(kk)):
        groups = {}
        for t in P:
            groups.setdefault(t[:mk] + t[mk + 1:], set()).add(t[mk])
        if best is None or len(groups) < len(best[1]):
            best = (mk, groups)
    mk, groups = best
    out = []
    for rest, vals in groups.items():
        parts, ri = [], 0
        for i, k in enumerate(kk):
            if i == mk:
                parts.append("%s=%s" % (k, "+".join(sorted(vals))))
            else:
                parts.append("%s=%s" % (k, rest[ri]))
                ri += 1
        out.append(",".join(parts))
    return sorted(out)


class Recorder(object):
    """Collects observations of all variants of one cell and emits coalesced failures."""

    def __init__(self, res, prop="C03"):
        self.res = res
        self.prop = prop
        self.rows = {}   # (component, op) -> {"keys": [...], "variants": {tuple: {"clean":bool,"bad":{cls:first}}}}

    def add(self, component, op, keys, facets, obs):
        fixed = facets.get("_fixed", "")
        slot = self.rows.setdefault((component, op, fixed), {"keys": list(keys), "variants": {}})
        t = tuple(str(facets.get(k, "-")) for k in slot["keys"])
        v = slot["variants"].setdefault(t, {"evaluated": 0, "bad": {}})
        st = obs["status"]
        if st == "ok":
            v["evaluated"] += 1
        elif st == "bad":
            v["evaluated"] += 1
            v["bad"].setdefault(obs["cls"], obs)

    def emit(self):
        for (component, op, fixed), slot in sorted(self.rows.items()):
            keys = slot["keys"]
            variants = slot["variants"]
            clean = set(t for t, v in variants.items() if v["evaluated"] and not v["bad"])
            classes = sorted(set(c for v in variants.values() for c in v["bad"]))
            for cls in classes:
                failing = set(t for t, v in variants.items() if cls in v["bad"])
                for fac in coalesce(failing, clean, keys):
                    # witness: first failing variant (sorted) compatible with this facet string
                    wit = None
                    for t in sorted(failing):
                        d = dict(zip(keys, t))
                        if all((p.split("=")[0] not in d) or (d[p.split("=")[0]] in p.split("=")[1].split("+"))
                               for p in fac.split(",") if p):
                            wit = t
                            break
                    if wit is None:
                        wit = sorted(failing)[0]
                    o = variants[wit]["bad"][cls]
                    fac = ",".join(p for p in (fixed, fac) if p)
                    sig = "%s|%s|%s|%s" % (self.prop, component, op, cls + ("," + fac if fac else ""))
                    self.res.fail(sig, "%s %s: %s [variant %s]" % (component, op, o["msg"], dict(zip(keys, wit))),
                                  focus=dict(zip(keys, wit)), x=o.get("x"), impl=o.get("impl"), ref=o.get("ref"),
                                  failing_variants=len(failing), clean_variants=len(clean))
