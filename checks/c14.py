"""C14 - chains are continuous, resumable from a check-point, and recorded faithfully.

E1 history explorer with crash points.

*Stateful interface* (cuqi.experimental.mcmc): a cell is (sampler set-up, target, warm-up length k, seed
of the real numpy generator).  Inside the cell EVERY operation sequence over

    S1 = sample(1)   S2 = sample(2)                                  (advancing)
    CP = save_checkpoint(file) -> run abandoned -> freshly constructed sampler -> load_checkpoint(file)
    GS = get_state() -> run abandoned -> freshly constructed sampler -> set_state(payload)
    R  = get_samples()  (read-only)
    S0 = sample(0)      (zero-length call: the split positions 0 and N; at most one per history, no crash op with it)
    RI = (only as first operation) dirty the sampler with warmup(2);sample(1), reinitialize(), start over

with at most `maxn` sampling transitions in total and at most `maxdev` non-advancing operations is executed
from scratch on fresh objects (no state merging).  The random stream is the real global numpy generator,
seeded after construction; its position is saved at a crash and restored after the fresh sampler has been
constructed and loaded ("the same random stream").  Oracle: the uninterrupted run `warmup(k); sample(n)`
on the same stream - every history reaching (k, n) must show the same chain (the part recorded since the
last crash), the same state payload, the same call-back log and leave the numpy generator at the same position
(the stream consumed by N-then-M equals that of N+M); plus the list model of a chain
(length == transitions, call-back exactly once per transition with (state, index), copies taken at
call time == finally stored entries).

*Re-initialisation after every kind of use*: besides RI, in every stateful cell ONE sampler object is used in each way of
REINIT_USES (initialize only, warmup, sample, sample then warmup, set_state / load_checkpoint of a payload produced by
another run - each with and without a following transition -, reinitialize then sample), then reinitialize()d and run on
the reference stream: it must reproduce the uninterrupted run of the freshly constructed sampler (chain, state dictionary,
call-back log, generator position).  In every HybridGibbs cell the block sampler objects handed to HybridGibbs (they remain
the user's objects) are, after Gibbs runs of three lengths, each reinitialize()d and run stand-alone (warmup(2);sample(2) on
their last conditional target) against a freshly constructed twin (same constructor arguments, same target, same stream):
same chain, same state dictionary, same generator position.

*Chain length x dimension product* (record cells): for HybridGibbs every total number of recorded states
T in 1..max(block dimension)+2 (so T == dim, dim-1, dim+1 occur for every block dimension present), reached by warmup(kw),
kw in {0,1,2}, followed by single sample(1) calls, and by one call sample(T): get_samples() must list, per parameter,
exactly the states that `current_samples` showed after each transition (copied by the harness at production time), one
column per state.  Single stateful samplers: T in 1..dim+2 x kw in {0,1,2}: get_samples() == the states handed to the
call-back, last one == current_point.  In all HybridGibbs histories the last recorded state must be the state the sampler
is in.  Legacy Gibbs: sample(N, Nb), N in 1..dim+2, is one column per state and the prefix of sample(N+1, Nb).

*Stateless interface* (cuqi.sampler): sample(N, Nb) for the full grid {1..5}x{0..3}, sample_adapt(N, Nb)
for {10,12}x{0,2,5}; legacy Gibbs and HybridGibbs: N then M, warm-up, immutability of returned chains.  The HybridGibbs
set-ups together use every sampler class of cuqi.experimental.mcmc as a block sampler.

*Initial point and call-back x the route by which they reach the sampler* (constructor arguments in non-default form).
Stateless interface (x0 cells): EVERY class of cuqi.sampler that has the sample(N, Nb) interface (MH, CWMH, pCN, ULA, MALA,
NUTS, LinearRTO, RegularizedLinearRTO, UGLA) x route in {x0 and callback are constructor arguments, both assigned to the
constructed object, constructed with another point / another call-back and then both assigned, no x0 (default)} x method in
{sample, sample_adapt}: the chain begins with the initial point in effect - the point the HARNESS handed over, not the one
read back from the sampler -, the call-back gets every produced state with its index, a second run of the same object is a
new chain that begins with the initial point again (indices restart, the chain returned by the first run is not altered),
the burn-in run (N, Nb) is the tail of the run (N+Nb, 0) of a twin on the same stream; step(x) (the route by which the legacy
Gibbs sampler sets the initial point of a block) == the second state of sample(2, 0) of a sampler constructed with x0 = x.
The classes without that interface (Conjugate, ConjugateApprox, Gibbs) are covered by the legacy Gibbs cells, whose set-ups
together use every class of cuqi.sampler as a block.  Stateful interface (in every stateful cell): initial_point = v
(non-default, feasible) and the call-back given by {constructor, assignment before first use, re-assignment, constructor
without call-back}: after initialize() the sampler is at v, the runs warmup(k);sample(n) of all routes agree (chain, state,
call-back log, stream), after reinitialize() the sampler is at v again.  HybridGibbs: before its first transition the sampler
is at the initial points its block samplers were constructed with.

*Call-back alphabet* (callback cells): EVERY class of either interface that takes a call-back x kind of callable in
{plain function, lambda, bound method, functools.partial, callable object, callable object with __len__ == 0 before its first
call, callable object with __bool__ False before its first call} x route {constructor argument, assigned} (x {sample(3,1),
sample_adapt(10,2)} in the stateless, warmup(3);sample(3) in the stateful interface): the plain function is invoked exactly once
per state produced by a transition, with that state and its index; every other kind receives exactly the same invocations in
the same run on the same stream, and the chain (stateful: also state dictionary and generator position) is the same.

*Representation of the tunable constructor arguments* (tunable cells): EVERY class of either interface with a scale / step-size
argument (stateful MH, CWMH, PCN, ULA, MALA: scale, NUTS: step_size, RegularizedLinearRTO: stepsize; stateless MH, CWMH, pCN, ULA,
MALA: scale, NUTS: adapt_step_size, RegularizedLinearRTO: stepsize) x representation in {Python float, numpy float64 scalar, 0-d
ndarray, 1-element ndarray, per-component vector} (a representation is "accepted" when a sampler constructed from it makes the
compared run; otherwise it is counted as refused).  The harness plays the caller: it keeps the object `a` (the argument) and
the initial-point array it hands to the constructors of sampler A and of a second sampler B (constructed before A runs).
Stateful: A is used {warmup(3), sample(2), warmup(2);sample(1), as a block sampler in HybridGibbs.warmup(3);sample(1)}, then
re-initialised and run; B runs afterwards: the caller's objects hold the bytes they were created with after every stage, and the
re-initialised A and the untouched B each make the run (chain, state dictionary, generator position) of a sampler freshly
constructed from COPIES of the arguments on the same stream.  Stateless: A makes sample(3,1) / sample_adapt(10,2) on another
stream, then B on the reference stream: caller's objects unchanged, B's chain == the chain of a sampler built from copies.

*Burn-in / thinning product*: on the chain recorded by the longest uninterrupted run of every cell (Samples of each
sampler of both interfaces, JointSamples of HybridGibbs, dict of Samples of legacy Gibbs) burnthin(Nb, Nt) for all
Nb in 0..len, Nt in 1..4 (positional and keyword call) must return exactly the stored states Nb, Nb+Nt, ... in order
(a raise is accepted when nothing is left), leaving the recorded chain unaltered.
"""
import os

os.environ.setdefault("TQDM_DISABLE", "1")   # progress bars only; must precede the first tqdm import

import functools
import shutil
import tempfile

import numpy as np

from vfw.core import CellResult, close
from vfw import refs

PROPERTY = "C14"
RULE = ("stateful cells = sampler set-up x target x warm-up length k x generator seed; inside a cell all operation "
        "sequences over {sample(1), sample(2), checkpoint->fresh sampler->load, get_state->fresh sampler->set_state, "
        "get_samples, reinitialize-at-start} within the bound, plus all sample(1)/sample(2) sequences with one zero-length "
        "call sample(0) at any position, are run from scratch and compared with the "
        "uninterrupted run warmup(k);sample(n) (chain since last crash, state payload, call-back log, final position of "
        "the numpy generator); "
        "stateless cells = sampler x seed with the full (N,Nb) grid inside; Gibbs cells = all (N,M,Nb) splits (chain and "
        "generator position), the HybridGibbs set-ups covering every sampler class as block sampler; in every cell the "
        "chain recorded by the longest uninterrupted run goes through the full burnthin(Nb,Nt) product against the "
        "slice model stored[Nb::Nt]; "
        "re-initialisation: one sampler object x every kind of previous use (stand-alone uses incl. set_state/load_checkpoint, "
        "and use as a block inside HybridGibbs) -> reinitialize() -> same run as a freshly constructed twin on the same "
        "stream; record cells = set-up x generator seed with the product (total number of recorded states T in 1..dim+2) x "
        "(warm-up 0,1,2) x (single calls / one call) inside: get_samples() state by state against the states the harness "
        "copied from current_samples / the call-back when they were produced. "
        "constructor arguments: stateless x0 cells = class of cuqi.sampler x generator seed with the product (route of x0 and "
        "call-back: constructor / assigned / re-assigned / default) x (sample, sample_adapt) x (first run, second run of the "
        "same object, burn-in runs against a twin) inside, oracle = the initial point the harness handed over, plus step(x) "
        "against sample(2,0) from x0=x; in every stateful cell (route of initial_point and call-back: constructor / assigned / "
        "re-assigned / no call-back) -> state after initialize() and after reinitialize() == the point handed over, all routes "
        "make the same run; HybridGibbs record cells: state before the first transition == block initial points handed over. "
        "callback cells = class (both interfaces) x generator seed with the product (kind of callable: function, lambda, bound "
        "method, partial, callable object, callable object falsy (len 0 / bool False) before its first call) x (route: "
        "constructor / assigned) x (stateless: sample, sample_adapt) inside, oracle = list model for the plain function and "
        "identical invocations / chain for every other kind; tunable cells = class with a scale / step-size argument (both "
        "interfaces) x generator seed with the product (representation: float, float64, 0-d, 1-element, vector) x (use of "
        "sampler A: warmup / sample / warmup+sample / HybridGibbs block; stateless: sample / sample_adapt) inside, the caller's "
        "argument and initial-point objects are shared by A and a second sampler B and compared bytewise after every stage, "
        "re-initialised A and untouched B against a sampler constructed from copies on the same stream. "
        "A cell is non-trivial when the reference chain moves (at least two distinct states) and at least one "
        "history with a crash point was compared")
BOUND = {
    "quick": "stateful: 12 sampler classes in 19 set-ups (+1 scalar-initial-point witness cell), warm-up k in {0,3}, "
             "1 generator seed, all histories with <=4 sampling transitions and <=2 non-advancing operations "
             "(1026 per cell) + 38 histories with one sample(0); HybridGibbs: 8 set-ups whose blocks use all 12 sampler "
             "classes (Direct, Conjugate, ConjugateApprox, MH, CWMH, PCN, ULA, MALA, NUTS, LinearRTO, RegularizedLinearRTO, "
             "UGLA), same k, <=4 transitions, <=2 reads (136 per cell) + 38 with one sample(0); stateless: 9 sampler "
             "classes in 11 set-ups, sample(N,Nb) on "
             "{1..4}x{0..3}, sample_adapt on {10,12}x{0,2,5}; legacy Gibbs: 7 set-ups, all call sequences with parts "
             "1..3 and total <=4, warm-up 0..2 in the first call; burnthin: Nb in 0..len, Nt in 1..4, 2 call styles, on "
             "chains of 4-7 (stateful, HybridGibbs), 8 and 12 (stateless), 4 (legacy Gibbs) states; "
             "reinitialize after 9 kinds of stand-alone use per stateful cell, and of every block sampler object (all 12 "
             "classes) after Gibbs runs warmup(k);sample(1), warmup(k);sample(4), warmup(k+1) per HybridGibbs cell; "
             "record cells: 8 HybridGibbs set-ups (block dimensions 1,2,3; T in 1..max dim+2, warm-up 0..2, stepwise and "
             "in one call) and 20 stateful set-ups (T in 1..dim+2, warm-up 0..2), 1 generator seed; stateless sample(N,Nb) "
             "grid now N in 1..5; legacy Gibbs shape/prefix for N in 1..4 (= dim+2); legacy Gibbs now 7 set-ups whose blocks "
             "use all 11 concrete classes of cuqi.sampler (MH, CWMH, pCN, ULA, MALA, NUTS, LinearRTO, RegularizedLinearRTO, UGLA, "
             "Conjugate, ConjugateApprox); x0 cells: 9 classes (all of cuqi.sampler with sample/x0/callback) x 4 routes x "
             "{sample: runs of 3 then 4 states, burn-in (3,2),(2,1); sample_adapt: 10 then 12, burn-in (10,2),(10,5)} + step(x) "
             "from 2 constructions, 2 distinct non-default feasible points per class, 1 generator seed; stateful cells: 4 routes "
             "of (initial_point, callback) per cell for all 12 classes (non-default point for every class); HybridGibbs: "
             "non-default initial points for all 12 block classes (3 Conjugate blocks keep the default); "
             "callback cells: 9 stateless classes x 7 kinds x 2 routes x {sample(3,1), sample_adapt(10,2)}, 12 stateful classes x 7 "
             "kinds x 2 routes on warmup(3);sample(3), 1 generator seed; tunable cells: 7 stateful classes x 5 representations x "
             "4 uses (3 stand-alone + HybridGibbs block after warmup(3);sample(1)), compared run warmup(3);sample(4) (block: "
             "warmup(2);sample(2)), 7 stateless classes x 5 representations x {sample(3,1), sample_adapt(10,2)}, value dimension "
             "1-2, 1 generator seed",
    "thorough": "as quick with k in {0,1,2,3}, 3 generator seeds, <=5 sampling transitions (2269 histories per stateful "
                "cell, 293 per HybridGibbs cell, +76 with one sample(0)), legacy Gibbs total <=5; block samplers "
                "re-initialised after Gibbs runs warmup(k);sample(1|5), warmup(k+1); record cells, x0 cells, callback cells and tunable "
                "cells with 3 generator seeds",
}
ASSUMPTIONS = [
    "the oracle is differential: the uninterrupted run of the same sampler on the same stream (the kernels themselves "
    "are the subject of C02/C06/C08/C10)",
    "warm-up is a single prefix operation (the statement does not claim that warm-up may be split)",
    "the generator position is carried across a crash by the harness (np.random.get_state/set_state) and restored "
    "after the fresh sampler is constructed and loaded; construction/initialisation may consume draws",
    "set_state is applied to an initialised fresh sampler (load_checkpoint initialises it itself)",
    "call-back index = index in the chain recorded by the sampler object that makes the call (restarts in a fresh "
    "sampler); in the stateless interface either the index in the full run or in the returned chain is accepted",
    "values compared at rtol 1e-10 (bit-identical expected, but the automatic FISTA step size of RegularizedLinearRTO "
    "comes from a randomised estimator that varies by an ulp between calls); targets have dimension 1-3",
    "scipy's hidden Fortran generator (estimate_spectral_norm) is reset at the start of every history and at the "
    "reinitialize point, but - like a resume inside one process - not at a crash",
    "'the same random stream' is read as: after N-then-M the global numpy generator (MT19937 key, position, cached "
    "normal) is in the state it has after N+M, so that any continuation sees the same numbers; only compared when "
    "the chains agree; draws from other generators (scipy's) are not counted",
    "'the initial point' of a run is the point the user handed over last (constructor argument x0 / initial_point, or a later "
    "assignment to that public attribute before the run); only when none was handed over, the point the sampler announces "
    "(attribute x0) after construction - no particular default value is demanded; assigning x0 / initial_point / callback "
    "on a constructed, not yet used object is read as equivalent to passing them to the constructor; in the stateful "
    "interface the state after initialize() / reinitialize() (current_point) is the observable of 'the configuration it was "
    "constructed with'; initial points used are feasible for the constrained targets and differ from the ones- and "
    "zeros-vectors the classes default to",
    "cuqi.sampler.Conjugate, ConjugateApprox (step() only) and Gibbs (no x0, no call-back; its chain holds the states after "
    "each sweep, not the initial point) have no initial-point / call-back argument: only their use inside the legacy Gibbs "
    "cells is decided; sample_adapt of MH/CWMH/pCN is run with N >= 10 only (their adaptation interval is int(0.1*N))",
    "call-back kinds: 'a callable' is read as any object with __call__(sample, index), whatever its truth value, length or "
    "type; the recorder objects copy the state at call time; HybridGibbs and legacy Gibbs have no call-back",
    "tunable arguments: 'the configuration it was constructed with' includes the VALUE the caller's argument object had at "
    "construction - the harness compares the caller's objects bytewise and the behaviour with a sampler constructed from "
    "copies; a representation the class does not run with (the run of a freshly constructed sampler raises: e.g. vector scale "
    "for MH/PCN/MALA tuning, ndarray step_size for NUTS, 0-d scale for CWMH) is counted as refused and not judged; that "
    "different representations of one value make the same run is NOT demanded; tunable arguments of block samplers built "
    "by the legacy Gibbs sampler (factory keyword arguments) are not varied",
    "thinning is not an option of either sampling interface: the thinning values of the quantifier are exercised "
    "through burnthin(Nb, Nt) of the recorded chain objects (Samples / JointSamples / legacy Gibbs dict of Samples); "
    "oracle is the slice stored[Nb::Nt] of the states recorded at production time; a raise is accepted when that "
    "slice is empty (Nb >= length); statistics of Samples are the subject of C19",
    "HybridGibbs and legacy Gibbs offer no check-point, call-back or reinitialize API: only continuity, warm-up, "
    "length, stream consumption, burn-in/thinning, immutability and the recorded chain against the states seen at "
    "production are decided for them",
    "HybridGibbs has no call-back: the harness records its states by copying the public attribute current_samples "
    "after warmup(kw) and after every sample(1) call (warm-up states before the last are not observable and not "
    "compared); the one-call run sample(T) is compared with that record through the continuity clause; legacy Gibbs "
    "exposes no current state: its record is decided through shape and the prefix relation sample(N) < sample(N+1)",
    "a chain of scalar states may be handed out as a flat array of length T (no shape is claimed by the statement)",
    "'the configuration it was constructed with' is decided behaviourally: the re-initialised object and a freshly "
    "constructed sampler with the same constructor arguments and the same target make the same run on the same "
    "stream (chain, state dictionary, generator position); a block sampler object keeps the last conditional target "
    "HybridGibbs assigned to it (the target is not a constructor argument of the block samplers), the twin is given "
    "that same target object; the 'use' before reinitialize() runs on a different stream position than the compared run",
]

RTOL = 1e-10
# set_state() on a never-initialised sampler is silently overwritten by the lazy initialisation of the next
# sample() call; the statement is read with the check-point API (which initialises first), so the fresh sampler
# is initialised before set_state.  Flip to probe the other reading.
SET_STATE_ON_UNINITIALISED = os.environ.get("C14_SET_STATE_UNINIT", "") == "1"


def _seed_streams(seed):
    """Start of the random stream: the global numpy generator, and scipy's hidden Fortran generator behind
    estimate_spectral_norm (RegularizedLinearRTO step size) so that every history is replayable."""
    np.random.seed(seed)
    try:
        import scipy.linalg.interpolative as sli
        if hasattr(sli, "seed"):
            sli.seed("default")
    except Exception:
        pass


# ----------------------------------------------------------------------------------------
# targets (deterministic catalogues, dimension <= 3); a fresh object per sampler construction
# ----------------------------------------------------------------------------------------
def _A(cat):
    return refs.full_matrix(3, 2, cat)


def _data(cat, m=3):
    return refs.dyadic_vec(m, cat + 1, scale=0.25)


def t_gauss(cat):
    import cuqi
    return cuqi.distribution.Gaussian(refs.dyadic_vec(2, cat, scale=0.125), refs.spd_matrix(2, cat))


def t_gauss1(cat):
    import cuqi
    return cuqi.distribution.Gaussian(np.zeros(1), 1.0 + 0.5 * cat)


def t_post(cat):
    import cuqi
    x = cuqi.distribution.Gaussian(refs.dyadic_vec(2, cat + 2, scale=0.125), refs.spd_matrix(2, cat), name="x")
    y = cuqi.distribution.Gaussian(cuqi.model.LinearModel(_A(cat)), 0.5, name="y")
    return cuqi.distribution.JointDistribution(x, y)(y=_data(cat))


def t_multi(cat):
    import cuqi
    x = cuqi.distribution.Gaussian(refs.dyadic_vec(2, cat + 2, scale=0.125), refs.spd_matrix(2, cat), name="x")
    y1 = cuqi.distribution.Gaussian(cuqi.model.LinearModel(_A(cat)), 0.5, name="y1")
    y2 = cuqi.distribution.Gaussian(cuqi.model.LinearModel(refs.full_matrix(2, 2, cat + 1)), 0.25, name="y2")
    return cuqi.distribution.JointDistribution(x, y1, y2)(y1=_data(cat), y2=_data(cat + 2, 2))


def t_reg(cat):
    import cuqi
    x = cuqi.implicitprior.RegularizedGaussian(refs.dyadic_vec(2, cat + 2, scale=0.125), 1.0 + 0.5 * cat,
                                               constraint="nonnegativity", name="x")
    y = cuqi.distribution.Gaussian(cuqi.model.LinearModel(_A(cat)), 0.5, name="y")
    return cuqi.distribution.JointDistribution(x, y)(y=_data(cat))


def t_reg3(cat):
    """Ill-conditioned 3-D problem with two nearly equal leading singular values: the randomised spectral-norm
    estimate behind the automatic FISTA step size has not converged, and few FISTA iterations are allowed."""
    import cuqi
    c, s_ = np.cos(0.6 + 0.1 * cat), np.sin(0.6 + 0.1 * cat)
    Q = np.array([[c, -s_, 0.0], [s_, c, 0.0], [0.0, 0.0, 1.0]])
    A = Q @ np.diag([1.0, 0.98, 0.05]) @ Q.T[[2, 0, 1]]
    x = cuqi.implicitprior.RegularizedGaussian(np.zeros(3), 100.0, constraint="nonnegativity", name="x")
    y = cuqi.distribution.Gaussian(cuqi.model.LinearModel(A), 0.25, name="y")
    return cuqi.distribution.JointDistribution(x, y)(y=np.array([1.0, 0.5, 0.75]))


def t_lmrf_gamma(cat):
    import cuqi
    x = cuqi.distribution.LMRF(0, lambda s: 1 / s, geometry=3, name="x")
    s = cuqi.distribution.Gamma(1.5 + cat, 0.5, name="s")
    return cuqi.distribution.Posterior(x.to_likelihood(_data(cat)), s)


def t_lmrf(cat):
    import cuqi
    x = cuqi.distribution.LMRF(0, 0.5 + 0.25 * cat, geometry=3, name="x")
    y = cuqi.distribution.Gaussian(cuqi.model.LinearModel(refs.full_matrix(3, 3, cat)), 0.5, name="y")
    return cuqi.distribution.JointDistribution(x, y)(y=_data(cat))


def t_conj(cat):
    import cuqi
    y = cuqi.distribution.Gaussian(np.zeros(3), prec=lambda s: s, name="y")
    s = cuqi.distribution.Gamma(1.5 + cat, 0.5, name="s")
    return cuqi.distribution.Posterior(y.to_likelihood(_data(cat)), s)


def t_hier(cat):
    """d ~ Gamma, x | d ~ Gaussian(0, 1/d), y | x, l ~ Gaussian(Ax, 1/l), l ~ Gamma ; y observed."""
    import cuqi
    d = cuqi.distribution.Gamma(1.5, 0.5, name="d")
    l = cuqi.distribution.Gamma(2.0 + cat, 1.0, name="l")
    x = cuqi.distribution.Gaussian(np.zeros(2), prec=lambda d: d, name="x")
    y = cuqi.distribution.Gaussian(cuqi.model.LinearModel(_A(cat)), prec=lambda l: l, name="y")
    return cuqi.distribution.JointDistribution(d, l, x, y)(y=_data(cat))


def t_hier_mh(cat):
    """s ~ Gaussian, d ~ Uniform, x | s, d ~ Gaussian(s, 1/d): three blocks sampled by PCN / MH / MALA (or NUTS)."""
    import cuqi
    s = cuqi.distribution.Gaussian(1.0 + 0.25 * cat, 1.0, name="s")
    d = cuqi.distribution.Uniform(1, 100, name="d")
    x = cuqi.distribution.Gaussian(lambda s: s, lambda d: 1 / d, geometry=1, name="x")
    return cuqi.distribution.JointDistribution(x, d, s)


def t_direct(cat):
    """x ~ Gaussian, b | x ~ Gaussian(Ax, .): the conditional of b is a plain distribution (Direct block), the
    conditional of x a posterior with gradient (CWMH / ULA block)."""
    import cuqi
    x = cuqi.distribution.Gaussian(refs.dyadic_vec(2, cat + 2, scale=0.125), refs.spd_matrix(2, cat), name="x")
    b = cuqi.distribution.Gaussian(cuqi.model.LinearModel(_A(cat)), 0.5, name="b")
    return cuqi.distribution.JointDistribution(x, b)


def t_lmrf_hier(cat):
    """s ~ Gamma, x | s ~ LMRF(0, 1/s), y | x ~ Gaussian(Ax, .): UGLA block for x, ConjugateApprox block for s."""
    import cuqi
    s = cuqi.distribution.Gamma(1.5 + cat, 0.5, name="s")
    x = cuqi.distribution.LMRF(0, lambda s: 1 / s, geometry=3, name="x")
    y = cuqi.distribution.Gaussian(cuqi.model.LinearModel(refs.full_matrix(3, 3, cat)), 0.5, name="y")
    return cuqi.distribution.JointDistribution(s, x, y)(y=_data(cat))


def t_reg_hier(cat):
    """t_hier with a non-negativity constrained x: RegularizedLinearRTO block for x, Conjugate blocks for d and l."""
    import cuqi
    d = cuqi.distribution.Gamma(1.5, 0.5, name="d")
    l = cuqi.distribution.Gamma(2.0 + cat, 1.0, name="l")
    x = cuqi.implicitprior.RegularizedGaussian(np.zeros(2), prec=lambda d: d, constraint="nonnegativity", name="x")
    y = cuqi.distribution.Gaussian(cuqi.model.LinearModel(_A(cat)), prec=lambda l: l, name="y")
    return cuqi.distribution.JointDistribution(d, l, x, y)(y=_data(cat))


TARGETS = {"gauss": t_gauss, "gauss1": t_gauss1, "post": t_post, "multi": t_multi, "reg": t_reg, "reg3": t_reg3, "lmrf": t_lmrf,
           "conj": t_conj, "lmrf_gamma": t_lmrf_gamma,
           "hier": t_hier, "hier_mh": t_hier_mh, "direct": t_direct, "lmrf_hier": t_lmrf_hier, "reg_hier": t_reg_hier}

X0 = {2: np.array([0.5, -0.25]), 3: np.array([0.25, -0.5, 0.75]), 1: np.array([1.25])}


# stateful set-ups: name -> (class name, target id, kwargs factory)
def _stateful_setups():
    return {
        "MH/gauss": ("MH", "gauss", lambda: dict(scale=0.9, initial_point=X0[2].copy())),
        "MH/post": ("MH", "post", lambda: dict(scale=0.3)),
        # scalar initial point, as used throughout the repository's own tests (fixed generator seed, see cells())
        "MH/gauss1-scalar_x0": ("MH", "gauss1", lambda: dict(scale=3.0, initial_point=3)),
        "CWMH/gauss": ("CWMH", "gauss", lambda: dict(scale=0.9, initial_point=X0[2].copy())),
        "CWMH/post": ("CWMH", "post", lambda: dict(scale=np.array([0.5, 1.0]))),
        "PCN/post": ("PCN", "post", lambda: dict(scale=0.15, initial_point=X0[2].copy())),
        "PCN/post-x0-default": ("PCN", "post", lambda: dict(scale=0.3)),
        "MALA/gauss": ("MALA", "gauss", lambda: dict(scale=0.8, initial_point=X0[2].copy())),
        "MALA/post": ("MALA", "post", lambda: dict(scale=0.15)),
        "ULA/gauss": ("ULA", "gauss", lambda: dict(scale=0.2, initial_point=X0[2].copy())),
        "NUTS/gauss": ("NUTS", "gauss", lambda: dict(max_depth=3, initial_point=X0[2].copy())),
        "NUTS/post-fixed": ("NUTS", "post", lambda: dict(max_depth=2, step_size=0.35)),
        "LinearRTO/post": ("LinearRTO", "post", lambda: dict(initial_point=X0[2].copy())),
        "LinearRTO/multi": ("LinearRTO", "multi", lambda: dict(maxit=3)),
        "RegularizedLinearRTO/reg": ("RegularizedLinearRTO", "reg", lambda: dict(maxit=25)),
        "RegularizedLinearRTO/reg3-illcond": ("RegularizedLinearRTO", "reg3", lambda: dict(maxit=10)),
        "UGLA/lmrf": ("UGLA", "lmrf", lambda: dict(initial_point=X0[3].copy(), maxit=4)),
        "Conjugate/conj": ("Conjugate", "conj", lambda: dict()),
        "ConjugateApprox/lmrf_gamma": ("ConjugateApprox", "lmrf_gamma", lambda: dict()),
        "Direct/gauss": ("Direct", "gauss", lambda: dict()),
    }


# Together the set-ups use every sampler class exported by cuqi.experimental.mcmc as a block sampler:
#   hier: LinearRTO, Conjugate | hier_mh*: MH, PCN, MALA, NUTS | hier_mh-ula: ULA | direct: Direct (+CWMH)
#   lmrf_hier: UGLA, ConjugateApprox | reg_hier: RegularizedLinearRTO (+Conjugate)
GIBBS_SETUPS = ["HybridGibbs/hier", "HybridGibbs/hier_mh", "HybridGibbs/hier_mh-nuts", "HybridGibbs/hier_mh-scalar_x0",
                "HybridGibbs/hier_mh-ula", "HybridGibbs/direct", "HybridGibbs/lmrf_hier", "HybridGibbs/reg_hier"]
BLOCK_ALPHABET = ("Direct", "Conjugate", "ConjugateApprox", "MH", "CWMH", "PCN", "ULA", "MALA", "NUTS", "LinearRTO",
                  "RegularizedLinearRTO", "UGLA")


def _make_stateful(setup, cat, callback):
    from cuqi.experimental import mcmc
    cls, tid, kw = _stateful_setups()[setup]
    return getattr(mcmc, cls)(TARGETS[tid](cat), callback=callback, **kw())


def _hybrid_spec(setup):
    """({parameter: (block sampler class, constructor arguments)}, steps) of a HybridGibbs set-up (the harness keeps the
    constructor arguments - in particular the initial points - it hands over)."""
    tid = setup.split("/")[1].split("-")[0]
    if tid == "hier":
        spec = {"x": ("LinearRTO", dict(maxit=4, initial_point=X0[2].copy())), "d": ("Conjugate", {}), "l": ("Conjugate", {})}
        steps = None
    elif tid == "reg_hier":
        spec = {"x": ("RegularizedLinearRTO", dict(maxit=25, initial_point=np.array([0.5, 0.25]))),
                "d": ("Conjugate", dict(initial_point=np.array([2.0]))), "l": ("Conjugate", {})}
        steps = None
    elif tid == "lmrf_hier":
        spec = {"x": ("UGLA", dict(maxit=4, initial_point=X0[3].copy())), "s": ("ConjugateApprox", dict(initial_point=np.array([2.0])))}
        steps = None
    elif tid == "direct":
        spec = {"x": ("CWMH", dict(scale=0.8, initial_point=X0[2].copy())), "b": ("Direct", dict(initial_point=X0[3].copy()))}
        steps = {"x": 2}
    elif setup.endswith("ula"):             # (the stateful CWMH does not run on 1-D targets: CWMH is a block of `direct`)
        spec = {"d": ("MH", dict(initial_point=np.array([3.0]), scale=0.8)),
                "s": ("PCN", dict(initial_point=np.array([3.0]), scale=0.5)),
                "x": ("ULA", dict(initial_point=np.array([0.25]), scale=0.05))}
        steps = {"s": 2}
    elif setup.endswith("nuts"):
        spec = {"d": ("MH", dict(initial_point=np.array([3.0]), scale=0.8)),
                "s": ("PCN", dict(initial_point=np.array([3.0]), scale=0.5)),
                "x": ("NUTS", dict(initial_point=np.array([0.25]), max_depth=2, step_size=0.2))}
        steps = None
    elif setup.endswith("scalar_x0"):       # scalar initial points as in the repository's own HybridGibbs tests
        spec = {"d": ("MH", dict(initial_point=3, scale=0.8)), "s": ("PCN", dict(initial_point=3, scale=0.5)),
                "x": ("MALA", dict(initial_point=0, scale=0.05))}
        steps = None
    else:
        spec = {"d": ("MH", dict(initial_point=np.array([3.0]), scale=0.8)),
                "s": ("PCN", dict(initial_point=np.array([3.0]), scale=0.5)),
                "x": ("MALA", dict(initial_point=np.array([0.0]), scale=0.05))}
        steps = {"d": 2, "x": 1}
    return spec, steps


def _hybrid_strategy(setup):
    """(freshly constructed block samplers {parameter: sampler}, steps) of a HybridGibbs set-up.  Every call constructs
    new sampler objects from the same constructor arguments (the 'twins' of the block samplers of another call)."""
    from cuqi.experimental import mcmc
    spec, steps = _hybrid_spec(setup)
    strategy = {}
    for p, (cls, kw) in spec.items():
        kw = dict(kw)
        if isinstance(kw.get("initial_point"), np.ndarray):
            kw["initial_point"] = kw["initial_point"].copy()
        strategy[p] = getattr(mcmc, cls)(**kw)
    return strategy, steps


def _make_hybrid(setup, cat, strategy=None):
    from cuqi.experimental import mcmc
    tid = setup.split("/")[1].split("-")[0]
    target = TARGETS[tid](cat)
    made, steps = _hybrid_strategy(setup)
    return mcmc.HybridGibbs(target, made if strategy is None else strategy, steps)


# ----------------------------------------------------------------------------------------
# enumeration of histories
# ----------------------------------------------------------------------------------------
ADV = {"S1": 1, "S2": 2}
DEV = ("CP", "GS", "R")
ZERO = ("S0",)          # sample(0): the split positions 0 and N of "N then M"


def histories(maxn, maxdev, dev=DEV, reinit=True):
    """All operation sequences with <= maxn sampling transitions and <= maxdev non-advancing operations.
    'RI' (reinitialize-at-start) is a non-advancing operation allowed only in first position."""
    out = []

    def rec(seq, n, d):
        out.append(tuple(seq))
        for op, a in ADV.items():
            if n + a <= maxn:
                rec(seq + [op], n + a, d)
        if d < maxdev:
            for op in dev:
                rec(seq + [op], n, d + 1)

    rec([], 0, 0)
    if reinit and maxdev >= 1:
        rec(["RI"], 0, 1)
    return out


def zero_call_histories(maxn):
    """All sample(1)/sample(2) sequences with <= maxn transitions and exactly one zero-length call sample(0)."""
    return [h for h in histories(maxn, 1, dev=ZERO, reinit=False) if "S0" in h]


def _rng_state():
    """Position of the global numpy generator as plain comparable data."""
    st = np.random.get_state()
    return (st[0], bytes(np.asarray(st[1]).tobytes()), int(st[2]), int(st[3]), float(st[4]))


def _rng_diff(a, b):
    return ("generator left at word %d of its block (cached normal: %d), the uninterrupted run leaves it at word %d "
            "(cached normal: %d)%s" % (a[2], a[3], b[2], b[3], "" if a[1] == b[1] else ", in a different key block"))


def _drop_one_dev(h):
    """Histories obtained by deleting one non-advancing operation."""
    res = []
    for i, op in enumerate(h):
        if op not in ADV:
            res.append(h[:i] + h[i + 1:])
    return res


def _kind(h):
    ks = sorted({op for op in h if op not in ADV})
    names = {"CP": "checkpoint", "GS": "set_state", "R": "get_samples", "RI": "reinitialize", "S0": "zero-length-call"}
    return "+".join(names[k] for k in ks) if ks else "split"


# ----------------------------------------------------------------------------------------
# observation helpers
# ----------------------------------------------------------------------------------------
def _val(v):
    """Plain-data view of a state value."""
    if v is None or isinstance(v, (str, bool)):
        return v
    try:
        return np.array(np.asarray(v, dtype=float), copy=True)
    except Exception:
        return repr(v)


def _same(a, b):
    if isinstance(a, np.ndarray) and isinstance(b, np.ndarray):
        if a.size != b.size:
            return False
        return close(a.ravel(), b.ravel(), RTOL)
    if isinstance(a, np.ndarray) or isinstance(b, np.ndarray):
        return False
    return a == b


def _chain_of(samples_obj):
    """Samples object (or bare array) -> list of 1-D state vectors."""
    arr = samples_obj.samples if hasattr(samples_obj, "samples") else samples_obj
    arr = np.asarray(arr, dtype=float)
    if arr.size == 0:
        return []
    if arr.ndim == 1:            # scalar states
        arr = arr[None, :]
    return [np.array(arr[:, i], copy=True) for i in range(arr.shape[1])]


class Log:
    """Call-back recorder: copies the value at call time (later in-place alteration of the entry is then visible)."""

    def __init__(self):
        self.entries = []

    def __call__(self, sample, index):
        self.entries.append((np.array(np.asarray(sample, dtype=float), copy=True).ravel(), index))


class Obs:
    __slots__ = ("chain", "state", "segs", "error", "reads", "transitions", "ops", "refused", "rng", "raw", "current")

    def __init__(self):
        self.chain = None      # chain recorded by the final sampler object (list of vectors)
        self.state = None      # state payload of the final sampler object (dict of plain data) or None
        self.segs = []         # [(global position where the sampler object started, Log)]
        self.error = None      # (stage, exception repr)
        self.reads = []        # [(chain returned by an R operation, copy taken then)]
        self.transitions = 0
        self.ops = 0
        self.refused = 0       # reads of an empty chain that the implementation refused (allowed)
        self.rng = None        # state of the global numpy generator after the last operation
        self.raw = None        # the object returned by the final get_samples() / sample() call
        self.current = None    # HybridGibbs: the state the sampler is in after the last operation


def _read(s, made, o):
    """get_samples(); a sampler object that has not made a transition yet may refuse (nothing recorded)."""
    if made > 0:
        return s.get_samples()
    try:
        return s.get_samples()
    except Exception:
        o.refused += 1
        return None


def run_stateful(setup, cat, k, seed, ops, tmpdir):
    """Execute one history on fresh objects; library exceptions are recorded, not raised."""
    o = Obs()
    log = Log()
    stage = "construct"
    try:
        s = _make_stateful(setup, cat, log)
        _seed_streams(seed)                            # the stream starts after construction
        o.segs.append((0, log))
        ops = list(ops)
        if ops and ops[0] == "RI":
            stage = "reinitialize"
            s.warmup(2)
            s.sample(1)
            o.transitions += 3
            o.ops += 1
            _seed_streams(seed)
            s.reinitialize()
            log.entries.clear()
            ops = ops[1:]
        if k > 0:
            stage = "warmup"
            s.warmup(k)
            o.transitions += k
            o.ops += 1
        pos = 0
        made = k                                        # transitions made by the current sampler object
        for op in ops:
            stage = op
            o.ops += 1
            if op in ADV:
                s.sample(ADV[op])
                pos += ADV[op]
                made += ADV[op]
                o.transitions += ADV[op]
            elif op == "S0":
                s.sample(0)
            elif op == "R":
                got = _read(s, made, o)
                if got is not None:
                    o.reads.append((got, np.array(got.samples, copy=True)))
            else:
                if op == "CP":
                    path = os.path.join(tmpdir, "cp.pickle")
                    s.save_checkpoint(path)
                else:
                    try:
                        payload = s.get_state()
                    except AttributeError:
                        if made > 0 or len(o.segs) > 1:
                            raise
                        o.refused += 1                  # never initialised: nothing to read yet (allowed)
                        s.initialize()
                        payload = s.get_state()
                rng = np.random.get_state()
                del s                                   # the run is abandoned here
                log = Log()
                s = _make_stateful(setup, cat, log)
                if op == "CP":
                    s.load_checkpoint(path)
                    os.remove(path)
                else:
                    if not SET_STATE_ON_UNINITIALISED:
                        s.initialize()
                    s.set_state(payload)
                np.random.set_state(rng)                # same stream position as at the crash
                o.segs.append((k + pos, log))
                made = 0
        o.rng = _rng_state()
        stage = "get_samples"
        got = _read(s, made, o)
        o.chain = [] if got is None else _chain_of(got)
        try:
            st = s.get_state()["state"]
        except AttributeError:      # never initialised (no operation yet): nothing to observe
            st = None
        o.state = None if st is None else {key: _val(v) for key, v in st.items()}
    except Exception as e:  # library refusal / failure: the caller takes the verdict
        o.error = (stage, "%s: %s" % (type(e).__name__, str(e)[:200]))
    return o


def run_hybrid(setup, cat, k, seed, ops):
    """HybridGibbs: no check-point / call-back API; S1, S2, R and a warm-up prefix."""
    o = Obs()
    stage = "construct"
    try:
        s = _make_hybrid(setup, cat)
        _seed_streams(seed)
        if k > 0:
            stage = "warmup"
            s.warmup(k)
            o.transitions += k
            o.ops += 1
        for op in ops:
            stage = op
            o.ops += 1
            if op in ADV:
                s.sample(ADV[op])
                o.transitions += ADV[op]
            elif op == "S0":
                s.sample(0)
            else:
                got = s.get_samples()
                o.reads.append((got, {p: np.array(got[p].samples, copy=True) for p in s.par_names}, _current_of(s)))
        o.rng = _rng_state()
        stage = "get_samples"
        got = s.get_samples()
        o.chain = {p: _chain_of(got[p]) for p in s.par_names}
        o.state = _current_of(s)
    except Exception as e:
        o.error = (stage, "%s: %s" % (type(e).__name__, str(e)[:200]))
    return o


def _current_of(gibbs):
    """The state a HybridGibbs sampler is in, as plain data {parameter: vector}."""
    return {p: np.array(np.asarray(gibbs.current_samples[p], dtype=float), copy=True).ravel() for p in gibbs.par_names}


def _last_state_bad(chains, current, made):
    """The most recently recorded state of every parameter is the state the sampler is in (chains as handed out by
    get_samples(): {parameter: Samples-like array (dim, Ns)} or {parameter: list of vectors})."""
    if made <= 0:
        return None
    for p in sorted(current):
        ch = chains[p] if isinstance(chains[p], list) else _chain_of(chains[p])
        if len(ch) == made and not _same(ch[-1], current[p]):
            return "last recorded state of %r is %s, the sampler is in state %s" % (p, ch[-1], current[p])
    return None


# ----------------------------------------------------------------------------------------
# burn-in / thinning product on a recorded chain object
# ----------------------------------------------------------------------------------------
def _eq_chain(a, b):
    return len(a) == len(b) and all(_same(x, y) for x, y in zip(a, b))


NT_VALUES = (1, 2, 3, 4)


def burnthin_product(res, obj, stored, producer):
    """obj: Samples, JointSamples or plain dict of Samples as handed out by `producer`; stored: {parameter: list of
    state vectors} copied when the chain was recorded ({"": chain} for a single Samples).
    For all Nb in 0..len, Nt in NT_VALUES, call style in {positional, keyword}: burnthin returns exactly the stored
    states Nb, Nb+Nt, ... in order (or raises when none is left); the recorded chain object is not altered."""
    single = hasattr(obj, "samples")
    plain = (not single) and not hasattr(obj, "burnthin")           # legacy Gibbs: dict of Samples
    comp = "cuqi.samples." + ("Samples" if plain else type(obj).__name__)
    parts = (lambda o: {"": o}) if single else (lambda o: dict(o))
    length = len(next(iter(stored.values())))
    seen = set()

    def fail(facet, Nt, msg, Nb):
        sig = "C14|%s|burnthin|%s,%s" % (comp, facet, "Nt=1" if Nt == 1 else "Nt>1")
        if sig not in seen:
            seen.add(sig)
            res.fail(sig, "%s (chain of %d states recorded by %s)" % (msg, length, producer), focus={"Nb": Nb, "Nt": Nt})

    res.outcomes.add("burnthin:%s:len=%d" % (type(obj).__name__, length))
    for Nb in range(length + 1):
        for Nt in NT_VALUES:
            res.state(("burnthin", Nb, Nt))
            for style in ("positional", "keyword"):
                call = "burnthin(%d, %d)" % (Nb, Nt) if style == "positional" else "burnthin(Nb=%d, Nt=%d)" % (Nb, Nt)
                res.transitions += 1
                res.evaluations += 1
                try:
                    if plain:
                        out = {p_: (v.burnthin(Nb, Nt) if style == "positional" else v.burnthin(Nb=Nb, Nt=Nt))
                               for p_, v in obj.items()}
                    else:
                        out = obj.burnthin(Nb, Nt) if style == "positional" else obj.burnthin(Nb=Nb, Nt=Nt)
                    got = {p_: _chain_of(v) for p_, v in parts(out).items()}
                except Exception as e:
                    if Nb >= length:        # nothing left: refusal allowed
                        res.refused += 1
                        res.count("burnthin-refused-empty")
                    else:
                        fail("raises", Nt, "%s raised %s: %s" % (call, type(e).__name__, str(e)[:120]), Nb)
                    continue
                if sorted(got) != sorted(stored):
                    fail("parameters", Nt, "%s returned chains for %s, recorded were %s" % (call, sorted(got), sorted(stored)), Nb)
                    continue
                for p_ in sorted(stored):
                    want = stored[p_][Nb::Nt]
                    name = (" of %r" % p_) if p_ else ""
                    if len(got[p_]) != len(want):
                        fail("length", Nt, "%s%s has %d states, the states %s of the recorded chain are %d" % (
                            call, name, len(got[p_]), list(range(Nb, length, Nt)), len(want)), Nb)
                        break
                    if not _eq_chain(got[p_], want):
                        fail("states", Nt, "%s%s does not list the recorded states %s in order" % (
                            call, name, list(range(Nb, length, Nt))), Nb)
                        break
                else:
                    res.count("burnthin-ok")
    now = {p_: _chain_of(v) for p_, v in parts(obj).items()}
    if sorted(now) != sorted(stored) or any(not _eq_chain(now[p_], stored[p_]) for p_ in stored):
        fail("stored-entry-altered", 1, "the recorded chain changed while burnthin was applied to it", 0)


# ----------------------------------------------------------------------------------------
# stateful cells
# ----------------------------------------------------------------------------------------


LOOP_FACETS = ("length", "callback-count", "callback-index")     # book-keeping of the sample()/warmup() loop


def _judge_stateful(o, ref, k, n):
    """facet -> message for one history observation against the uninterrupted run ref (= (k, n)).
    The facets are independent (list model of the record / differential oracle on chain / on state), so one
    failing facet does not hide another; only a wrong length makes the positional comparisons meaningless."""
    bad = {}
    if o.error is not None:
        bad["raises:" + o.error[0]] = "operation %s raised %s" % o.error
        return bad
    p_last = o.segs[-1][0]
    total = k + n
    if len(o.chain) != total - p_last:
        bad["length"] = "recorded chain has %d entries, %d transitions were made by this sampler object" % (
            len(o.chain), total - p_last)
        return bad
    # call-backs: exactly once per transition, with the state and its index; copies == stored entries
    bounds = [p for p, _ in o.segs] + [total]
    produced = []
    for j, (p, log) in enumerate(o.segs):
        want = bounds[j + 1] - p
        vals = [v for v, _ in log.entries]
        idx = [i for _, i in log.entries]
        produced += vals
        if len(vals) != want:
            bad.setdefault("callback-count", "call-back invoked %d times for %d transitions" % (len(vals), want))
            produced = None
            break
        if [int(i) for i in idx] != list(range(want)):
            bad.setdefault("callback-index", "call-back indices %s, chain indices are %s" % (idx, list(range(want))))
    if produced is not None:
        for i, (v, _) in enumerate(o.segs[-1][1].entries):
            if not _same(v, o.chain[i]):
                bad["stored-entry-altered"] = ("entry %d of the recorded chain is %s, the call-back received %s when "
                                               "it was produced" % (i, o.chain[i], v))
                break
    for got, copy in o.reads:
        if not _same(np.asarray(got.samples, dtype=float), copy):
            bad["stored-entry-altered"] = "a chain returned by get_samples() changed after it was returned"
            break
    # differential oracle
    if produced is not None and "stored-entry-altered" not in bad and not _eq_chain(produced, ref.chain):
        d = next((i for i, (x, y) in enumerate(zip(produced, ref.chain)) if not _same(x, y)), None)
        bad["chain"] = ("state %s of the run differs from the uninterrupted run warmup(%d);sample(%d): %s vs %s"
                        % (d, k, n, None if d is None else produced[d], None if d is None else ref.chain[d]))
    elif not _eq_chain(o.chain, ref.chain[p_last:]):
        bad["chain"] = "recorded chain differs from the corresponding part of the uninterrupted run"
    if o.state is not None and ref.state is not None and "chain" not in bad:     # a diverged chain implies a diverged state
        if sorted(o.state) != sorted(ref.state):
            bad["state-keys"] = "state payload keys %s vs %s" % (sorted(o.state), sorted(ref.state))
        else:
            for key in sorted(ref.state):
                if not _same(o.state[key], ref.state[key]):
                    bad["state:" + key] = "state payload entry %r is %r, uninterrupted run has %r" % (
                        key, o.state[key], ref.state[key])
                    break
    # the same random stream: what the run consumed == what the uninterrupted run consumed (a diverged chain or
    # state implies a diverged continuation already)
    # (not at (k, n) = (0, 0): there the uninterrupted run has not even initialised the sampler, which may consume draws)
    if not bad and total > 0 and o.rng is not None and ref.rng is not None and o.rng != ref.rng:
        bad["stream"] = _rng_diff(o.rng, ref.rng)
    return bad


def _attribute(res, comp, fails, extra="", loop_comp=None):
    """Report only minimal failing histories: deleting any one non-advancing operation makes the facet pass.
    Book-keeping facets are attributed to the class that defines the sample() loop (loop_comp)."""
    reported = {}
    for h in sorted(fails, key=lambda t: (len(t), t)):
        for facet, msg in fails[h].items():
            if any(facet in fails.get(h2, {}) for h2 in _drop_one_dev(h)):
                continue
            sig = "C14|%s|%s|%s" % (loop_comp if (loop_comp and facet in LOOP_FACETS) else comp, _kind(h), facet)
            if sig in reported:
                reported[sig][1] += 1
                continue
            reported[sig] = [(h, msg), 1]
    for sig, ((h, msg), cnt) in reported.items():
        res.fail(sig, "history %s%s: %s (%d minimal failing histories in this cell)" % (list(h), extra, msg, cnt),
                 focus={"history": list(h)})


def _defining_class(cls, method):
    from cuqi.experimental import mcmc
    for c in getattr(mcmc, cls).__mro__:
        if method in vars(c):
            return c.__name__
    return cls


def _moves(chain):
    return "".join("1" if not _same(chain[i], chain[i - 1]) else "0" for i in range(1, len(chain)))


def eval_stateful(cell, res):
    setup, cat, k, seed = cell["setup"], cell["cat"], cell["k"], cell["seed"]
    maxn, maxdev = cell["maxn"], cell["maxdev"]
    cls = _stateful_setups()[setup][0]
    comp = "cuqi.experimental.mcmc." + cls
    loop_comp = "cuqi.experimental.mcmc." + _defining_class(cls, "sample")
    tmpdir = tempfile.mkdtemp(prefix="c14_%d_" % os.getpid())
    try:
        refs_ = {}
        broken = set()
        for n in range(maxn + 1):
            r = _run_ref(setup, cat, k, seed, n, tmpdir)
            res.transitions += r.ops
            res.refused += r.refused
            if r.error is not None:
                res.refused += 1
                res.outcomes.add("%s:refused:%s" % (setup, r.error[1][:60]))
                res.nontrivial = False
                res.state("refused")
                if r.error[0] == "construct":    # the sampler does not accept this target/configuration
                    return
                res.fail("C14|%s|sample|raises:%s" % (comp, r.error[0]),
                         "uninterrupted run warmup(%d);sample(%d) raised %s" % (k, n, r.error[1]))
                return
            refs_[n] = r
            res.state((k, n))
            # list model of the uninterrupted run itself
            selfbad = _judge_stateful(r, r, k, n)
            for facet, msg in selfbad.items():
                if facet not in broken:
                    broken.add(facet)
                    res.fail("C14|%s|sample|%s" % (loop_comp if facet in LOOP_FACETS else comp, facet),
                             "uninterrupted run warmup(%d);sample(%d): %s (set-up %s, seed %d)" % (k, n, msg, setup, seed))
            res.evaluations += 1
        if broken:      # the reference run itself is not a faithful record: differential verdicts would be consequences
            res.count("reference-run-broken")
            return
        full = refs_[maxn].chain
        res.outcomes.add("%s:k%d:moves=%s" % (setup, k, _moves(full)))
        if len({tuple(np.round(v, 12)) for v in full}) < 2:
            res.nontrivial = False
        # burn-in / thinning product on the recorded chain; stored states = what the call-back received at production
        if refs_[maxn].raw is not None:
            burnthin_product(res, refs_[maxn].raw, {"": [v for v, _ in refs_[maxn].segs[0][1].entries]},
                             "cuqi.experimental.mcmc.%s.get_samples() after warmup(%d);sample(%d)" % (cls, k, maxn))
        fails = {}
        ncrash = 0
        for h in histories(maxn, maxdev) + zero_call_histories(maxn):
            n = sum(ADV.get(op, 0) for op in h)
            o = run_stateful(setup, cat, k, seed, h, tmpdir)
            res.transitions += o.ops
            res.traces += 1
            res.evaluations += 1
            ncrash += 1 if len(o.segs) > 1 else 0
            res.refused += o.refused
            bad = _judge_stateful(o, refs_[n], k, n)
            if bad:
                fails[h] = bad
            for p, _ in o.segs[1:]:
                res.count("crash-at-%d" % (p - k))
        if ncrash == 0:
            res.nontrivial = False
        # ---- call-back book-keeping over mixed warm-up / sampling calls on ONE object (every call appends to the chain)
        if k == cell.get("k0", k):
            for calls in ((("W", 2), ("S", 1), ("W", 2)), (("W", 2), ("W", 2)), (("S", 2), ("W", 2), ("S", 1))):
                log = Log()
                try:
                    sm = _make_stateful(setup, cat, log)
                    _seed_streams(seed)
                    total = 0
                    for kind, nn in calls:
                        (sm.warmup if kind == "W" else sm.sample)(nn)
                        total += nn
                    chain = _chain_of(sm.get_samples())
                except Exception as e:
                    res.refused += 1
                    res.outcomes.add("%s:mixed-calls-refused:%s" % (setup, type(e).__name__))
                    continue
                res.transitions += total
                res.traces += 1
                res.evaluations += 1
                idx = [int(i) for _, i in log.entries]
                desc = ";".join("%s(%d)" % (("warmup" if kk == "W" else "sample"), nn) for kk, nn in calls)
                if len(idx) != total:
                    res.fail("C14|%s|mixed-calls|callback-count" % loop_comp, "%s: call-back invoked %d times for %d transitions "
                             "(set-up %s)" % (desc, len(idx), total, setup))
                elif idx != list(range(total)):
                    res.fail("C14|%s|mixed-calls|callback-index" % loop_comp, "%s: call-back received indices %s, the states' "
                             "positions in the chain are %s (set-up %s)" % (desc, idx, list(range(total)), setup))
                elif len(chain) == total and not all(_same(v, chain[i]) for (v, _), i in zip(log.entries, range(total))):
                    res.fail("C14|%s|mixed-calls|callback-state" % loop_comp, "%s: a state handed to the call-back is not the chain "
                             "entry at its index (set-up %s)" % (desc, setup))
        # ---- constructor arguments initial_point / callback in non-default form, by every route they can reach the sampler
        probe_constructor_args(setup, cat, k, seed, maxn, res, comp, loop_comp)
        # ---- re-initialising returns the sampler to its constructed configuration - after EVERY kind of use of the object:
        # the re-initialised object on the reference stream == the freshly constructed sampler of the reference run
        refail = {}
        for use in REINIT_USES:
            o = run_after_use(setup, cat, k, seed, maxn, use, tmpdir)
            res.transitions += o.ops
            res.traces += 1
            res.evaluations += 1
            res.state(("reinitialize-after", use, k))
            res.count("reinitialize-after:" + use)
            for facet, msg in _judge_stateful(o, refs_[maxn], k, maxn).items():
                refail.setdefault(facet, []).append((use, msg))
        for facet, lst in refail.items():       # one signature per facet: the first use kind (in REINIT_USES order) names it
            use, msg = lst[0]
            res.fail("C14|%s|reinitialize-after-use|%s,use=%s" % (loop_comp if facet in LOOP_FACETS else comp, facet, use),
                     "a sampler object used by %s and then re-initialised does not behave like a freshly constructed one in "
                     "warmup(%d);sample(%d) on the same stream: %s (set-up %s, seed %d; uses failing this facet: %s)"
                     % (use, k, maxn, msg, setup, seed, [u for u, _ in lst]), focus={"use": use})
        _attribute(res, comp, fails, extra=" (set-up %s, warm-up %d, seed %d)" % (setup, k, seed), loop_comp=loop_comp)
        res.sample = {"setup": setup, "k": k, "reference_chain_first_component": [float(v[0]) for v in full],
                      "histories": res.traces, "failing_histories": len(fails),
                      "state_keys": sorted(refs_[maxn].state or {})}
    finally:
        shutil.rmtree(tmpdir, ignore_errors=True)


# a non-default initial point per target (feasible where the target is constrained; neither the ones- nor the zeros-vector)
# for the set-ups whose constructor arguments do not name one, and a second one (all entries positive) per dimension
PROBE_IP = {"gauss": X0[2], "gauss1": X0[1], "post": X0[2], "multi": X0[2], "reg": np.array([0.5, 0.25]),
            "reg3": np.array([0.25, 0.5, 0.75]), "lmrf": X0[3], "conj": np.array([2.0]), "lmrf_gamma": np.array([2.0])}
ALT_IP = {1: np.array([0.75]), 2: np.array([0.125, 0.75]), 3: np.array([0.5, 0.125, 0.375])}
ARG_ROUTES = ("constructor", "assigned", "reassigned", "no-callback")


def _run_arg_route(setup, cat, k, seed, n, route, v, w):
    """warmup(k);sample(n) of a sampler that received initial_point = v and the call-back by `route`:
    constructor: both are constructor arguments; assigned: constructed without, both assigned to the object before its
    first use; reassigned: constructed with another point (w) and another call-back, then both assigned; no-callback:
    initial_point by constructor, no call-back at all.
    -> (Obs, current_point right after initialize(), current_point after the final reinitialize())"""
    from cuqi.experimental import mcmc
    o = Obs()
    log = Log()
    cls, tid, kwf = _stateful_setups()[setup]
    at_init = after_reinit = None
    stage = "construct"
    try:
        kw = kwf()
        kw.pop("initial_point", None)
        C = getattr(mcmc, cls)
        if route == "constructor":
            s = C(TARGETS[tid](cat), initial_point=(v if np.ndim(v) == 0 else np.array(v, copy=True)), callback=log, **kw)
        elif route == "no-callback":
            s = C(TARGETS[tid](cat), initial_point=(v if np.ndim(v) == 0 else np.array(v, copy=True)), **kw)
        elif route == "assigned":
            s = C(TARGETS[tid](cat), **kw)
            s.initial_point = v if np.ndim(v) == 0 else np.array(v, copy=True)
            s.callback = log
        else:
            s = C(TARGETS[tid](cat), initial_point=w.copy(), callback=Log(), **kw)
            s.initial_point = v if np.ndim(v) == 0 else np.array(v, copy=True)
            s.callback = log
        _seed_streams(seed)
        o.segs.append((0, log))
        stage = "initialize"
        s.initialize()
        at_init = np.array(np.asarray(s.current_point, dtype=float), copy=True).ravel()
        if k > 0:
            stage = "warmup"
            s.warmup(k)
            o.ops += 1
        if n > 0:
            stage = "sample"
            s.sample(n)
            o.ops += 1
        o.transitions = k + n
        o.rng = _rng_state()
        stage = "get_samples"
        got = _read(s, k + n, o)
        o.chain = [] if got is None else _chain_of(got)
        o.state = {key: _val(x) for key, x in s.get_state()["state"].items()}
        if route == "constructor":
            stage = "reinitialize"
            s.reinitialize()
            after_reinit = np.array(np.asarray(s.current_point, dtype=float), copy=True).ravel()
    except Exception as e:
        o.error = (stage, "%s: %s" % (type(e).__name__, str(e)[:200]))
    return o, at_init, after_reinit


def probe_constructor_args(setup, cat, k, seed, n, res, comp, loop_comp):
    """The chain starts from the initial point the user gave - whichever way it was given - and re-initialising returns to
    it; the call-back receives every state whichever way it was given, and its absence does not change the chain."""
    cls, tid, kwf = _stateful_setups()[setup]
    given = kwf().get("initial_point")
    v = given if given is not None else PROBE_IP[tid]
    vv = np.atleast_1d(np.asarray(v, dtype=float)).ravel()
    w = ALT_IP[vv.size]
    runs = {}
    ip_bad = set()
    for route in ARG_ROUTES:
        o, at_init, after_reinit = _run_arg_route(setup, cat, k, seed, n, route, v, w)
        runs[route] = o
        res.transitions += o.ops + 1
        res.traces += 1
        res.state(("constructor-args", route, k))
        res.count("stateful-arg:%s:initial_point=%s" % (cls, "constructor" if route == "no-callback" else route))
        res.count("stateful-arg:%s:callback=%s" % (cls, "none" if route == "no-callback" else route))
        where = "initial_point = %s and call-back given by route '%s' (set-up %s, warm-up %d, seed %d)" % (vv, route, setup, k, seed)
        if o.error is not None:
            res.fail("C14|%s|constructor-arguments|raises:%s,route=%s" % (comp, o.error[0], route),
                     "operation %s raised %s; %s" % (o.error[0], o.error[1], where), focus={"route": route})
            continue
        res.evaluations += 1
        if not _same(at_init, vv):
            ip_bad.add(route)
            if not (route == "no-callback" and "constructor" in ip_bad):       # (the same route for the initial point)
                res.fail("C14|%s|initialize|initial-point,route=%s" % (comp, route), "after initialize() the sampler is at %s; %s"
                         % (at_init, where), focus={"route": route})
            continue
        if after_reinit is not None:
            res.evaluations += 1
            if not _same(after_reinit, vv):
                res.fail("C14|%s|reinitialize|initial-point" % comp, "after warmup(%d);sample(%d);reinitialize() the sampler is at "
                         "%s, it was constructed with %s" % (k, n, after_reinit, where), focus={"route": route})
    ref = runs["constructor"]
    if ref.error is not None or "constructor" in ip_bad:        # no reference: differences would be consequences
        return
    for facet, msg in _judge_stateful(ref, ref, k, n).items():      # list model of the record (call-back by constructor)
        res.fail("C14|%s|constructor-arguments|%s,route=constructor" % (loop_comp if facet in LOOP_FACETS else comp, facet),
                 "%s; initial_point = %s by constructor (set-up %s, warm-up %d, seed %d)" % (msg, vv, setup, k, seed))
        return
    for route in ARG_ROUTES[1:]:
        o = runs[route]
        if o.error is not None or route in ip_bad:
            continue
        res.evaluations += 1
        if route == "no-callback":          # no log to compare: chain, state, stream
            bad = {}
            if not _eq_chain(o.chain, ref.chain):
                bad["chain"] = "the chain recorded without a call-back differs from the chain recorded with one"
            elif o.rng != ref.rng:
                bad["stream"] = _rng_diff(o.rng, ref.rng)
        else:
            bad = _judge_stateful(o, ref, k, n)
        for facet, msg in bad.items():
            res.fail("C14|%s|constructor-arguments|%s,route=%s" % (loop_comp if facet in LOOP_FACETS else comp, facet, route),
                     "%s; compared: the same run with initial_point = %s and the call-back given to the constructor (set-up %s, "
                     "warm-up %d, seed %d)" % (msg, vv, setup, k, seed), focus={"route": route})
            break


# every kind of use a stand-alone sampler object can have had before reinitialize() is called on it
REINIT_USES = ("initialize", "warmup", "sample", "sample+warmup", "set_state", "set_state+sample", "load_checkpoint",
               "load_checkpoint+sample", "reinitialize+sample")


def run_after_use(setup, cat, k, seed, n, use, tmpdir):
    """One sampler object is used (`use`, on a stream of its own), re-initialised, and then makes the run
    warmup(k);sample(n) on the stream of the reference run (= a freshly constructed twin on the same stream)."""
    o = Obs()
    log = Log()
    stage = "construct"
    try:
        s = _make_stateful(setup, cat, log)
        o.segs.append((0, log))
        stage = "use:" + use
        if use.startswith(("set_state", "load_checkpoint")):
            donor = _make_stateful(setup, cat, None)        # another run of the same configuration supplies the payload
            _seed_streams(seed + 2)
            donor.warmup(2)
            donor.sample(2)
            o.transitions += 4
            _seed_streams(seed + 1)
            if use.startswith("set_state"):
                payload = donor.get_state()
                if not SET_STATE_ON_UNINITIALISED:
                    s.initialize()
                s.set_state(payload)
            else:
                path = os.path.join(tmpdir, "use.pickle")
                donor.save_checkpoint(path)
                s.load_checkpoint(path)
                os.remove(path)
            if use.endswith("+sample"):
                s.sample(1)
                o.transitions += 1
        else:
            _seed_streams(seed + 1)
            if use == "initialize":
                s.initialize()
            elif use == "warmup":
                s.warmup(3)
            elif use == "sample":
                s.sample(2)
            elif use == "sample+warmup":
                s.sample(1)
                s.warmup(2)
            elif use == "reinitialize+sample":
                s.warmup(2)
                s.reinitialize()
                s.sample(1)
            o.transitions += 3
        o.ops += 1
        stage = "reinitialize"
        _seed_streams(seed)
        s.reinitialize()
        log.entries.clear()
        o.ops += 1
        if k > 0:
            stage = "warmup"
            s.warmup(k)
            o.ops += 1
        if n > 0:
            stage = "sample"
            s.sample(n)
            o.ops += 1
        o.transitions += k + n
        o.rng = _rng_state()
        stage = "get_samples"
        got = _read(s, k + n, o)
        o.chain = [] if got is None else _chain_of(got)
        st = s.get_state()["state"]
        o.state = {key: _val(v) for key, v in st.items()}
    except Exception as e:
        o.error = (stage, "%s: %s" % (type(e).__name__, str(e)[:200]))
    return o


def _run_ref(setup, cat, k, seed, n, tmpdir):
    """Uninterrupted run warmup(k); sample(n) in one call."""
    o = Obs()
    log = Log()
    stage = "construct"
    try:
        s = _make_stateful(setup, cat, log)
        _seed_streams(seed)
        o.segs.append((0, log))
        if k > 0:
            stage = "warmup"
            s.warmup(k)
            o.ops += 1
        if n > 0:
            stage = "sample"
            s.sample(n)
            o.ops += 1
        o.transitions = k + n
        o.rng = _rng_state()
        stage = "get_samples"
        got = _read(s, k + n, o)
        o.raw = got
        o.chain = [] if got is None else _chain_of(got)
        try:
            st = s.get_state()["state"]
        except AttributeError:
            st = None
        o.state = None if st is None else {key: _val(v) for key, v in st.items()}
    except Exception as e:
        o.error = (stage, "%s: %s" % (type(e).__name__, str(e)[:200]))
    return o


# ----------------------------------------------------------------------------------------
# HybridGibbs cells (stateful Gibbs): N then M == N+M, warm-up then sample, stored tuples immutable
# ----------------------------------------------------------------------------------------
def eval_hybrid(cell, res):
    setup, cat, k, seed = cell["setup"], cell["cat"], cell["k"], cell["seed"]
    maxn, maxdev = cell["maxn"], cell["maxdev"]
    comp = "cuqi.experimental.mcmc.HybridGibbs"
    refs_ = {}
    for n in range(maxn + 1):
        r = _hybrid_ref(setup, cat, k, seed, n)
        res.transitions += r.ops
        if r.error is not None:
            res.refused += 1
            res.nontrivial = False
            res.state("refused")
            res.outcomes.add("%s:refused:%s" % (setup, r.error[1][:60]))
            if r.error[0] != "construct":
                res.fail("C14|%s|sample|raises:%s" % (comp, r.error[0]),
                         "uninterrupted run warmup(%d);sample(%d) raised %s" % (k, n, r.error[1]))
            return
        refs_[n] = r
        res.state((k, n))
        for p, ch in r.chain.items():
            if len(ch) != k + n:
                res.fail("C14|%s|sample|length" % comp, "chain of %r has %d entries after %d transitions" % (p, len(ch), k + n))
        msg = _last_state_bad(r.chain, r.current, k + n)
        res.evaluations += 1
        if msg:
            res.fail("C14|%s|sample|last-state" % comp, "uninterrupted run warmup(%d);sample(%d): %s (set-up %s, seed %d)"
                     % (k, n, msg, setup, seed))
    full = refs_[maxn].chain
    res.outcomes.add("%s:k%d:moves=%s" % (setup, k, "/".join(_moves(full[p]) for p in sorted(full))))
    res.outcomes.add("%s:blocks=%s" % (setup, "+".join(refs_[maxn].state)))
    for b in refs_[maxn].state:
        res.count("block:" + b)
    # burn-in / thinning product on the JointSamples; stored states = copy of its content when it was handed out
    burnthin_product(res, refs_[maxn].raw, full, "HybridGibbs.get_samples() after warmup(%d);sample(%d) (set-up %s)"
                     % (k, maxn, setup))
    fails = {}
    for h in histories(maxn, maxdev, dev=("R",), reinit=False) + zero_call_histories(maxn):
        n = sum(ADV.get(op, 0) for op in h)
        o = run_hybrid(setup, cat, k, seed, h)
        res.transitions += o.ops
        res.traces += 1
        res.evaluations += 1
        bad = {}
        ref = refs_[n]
        if o.error is not None:
            bad["raises:" + o.error[0]] = "operation %s raised %s" % o.error
        else:
            for p in sorted(ref.chain):
                if len(o.chain[p]) != k + n:
                    bad["length"] = "chain of %r has %d entries after %d transitions" % (p, len(o.chain[p]), k + n)
                    break
                if not _eq_chain(o.chain[p], ref.chain[p]):
                    bad["chain"] = "chain of %r differs from the uninterrupted run warmup(%d);sample(%d)" % (p, k, n)
                    break
            for got, copy, cur in o.reads:
                if any(not _same(np.asarray(got[p].samples, dtype=float), copy[p]) for p in copy):
                    bad["stored-entry-altered"] = "a chain returned by get_samples() changed after it was returned"
                msg = _last_state_bad(copy, cur, len(_chain_of(copy[sorted(copy)[0]])))
                if msg:
                    bad.setdefault("last-state", "get_samples() in mid-run: " + msg)
            msg = None if "length" in bad else _last_state_bad(o.chain, o.state, k + n)
            if msg:
                bad.setdefault("last-state", msg)
            if not bad and o.rng != ref.rng:
                bad["stream"] = _rng_diff(o.rng, ref.rng)
        if bad:
            fails[h] = bad
    # ---- re-initialising returns the sampler to its constructed configuration - also after use as a Gibbs block
    blockbad = {}
    for kg, ng in sorted({(k, 1), (k, maxn), (k + 1, 0)}):
        for cls, f in probe_blocks(setup, cat, kg, ng, seed, res).items():
            blockbad.setdefault(cls, f)
    for cls, (facet, msg) in sorted(blockbad.items()):
        res.fail("C14|cuqi.experimental.mcmc.%s|reinitialize-after-gibbs-block|%s" % (cls, facet),
                 "%s: the re-initialised sampler object does not behave like a freshly constructed sampler of the same "
                 "configuration (set-up %s, seed %d)" % (msg, setup, seed), focus={"block": cls})
    _attribute(res, comp, fails, extra=" (set-up %s, warm-up %d, seed %d)" % (setup, k, seed))
    res.sample = {"setup": setup, "k": k, "histories": res.traces, "failing_histories": len(fails),
                  "reference": {p: [float(v[0]) for v in full[p]] for p in full}}


BLOCK_RUN = (2, 2)      # stand-alone run warmup(2);sample(2) of a block sampler object after the Gibbs run


def _standalone(s, seed, reinit):
    """(chain, state dictionary, generator position) of warmup;sample of one sampler object on the stream `seed`;
    the object is re-initialised first (reinit) or freshly constructed (initialised lazily by warmup)."""
    _seed_streams(seed)
    if reinit:
        s.reinitialize()
    s.warmup(BLOCK_RUN[0])
    s.sample(BLOCK_RUN[1])
    return (_chain_of(s.get_samples()), {key: _val(v) for key, v in s.get_state()["state"].items()}, _rng_state())


def probe_blocks(setup, cat, kg, ng, seed, res):
    """The block sampler objects handed to HybridGibbs remain the user's: after the Gibbs run warmup(kg);sample(ng) each
    of them is re-initialised and run stand-alone (on its last conditional target) against a freshly constructed twin
    (same constructor arguments, same target) on the same stream.  -> {block class: (facet, message)}"""
    bad = {}
    try:
        strategy, _ = _hybrid_strategy(setup)
        g = _make_hybrid(setup, cat, strategy)
        _seed_streams(seed + 1)
        if kg:
            g.warmup(kg)
        if ng:
            g.sample(ng)
    except Exception:       # the Gibbs run itself is judged by the histories
        res.refused += 1
        return bad
    res.transitions += 2
    for p in sorted(strategy):
        b = strategy[p]
        cls = type(b).__name__
        res.state(("reinitialize-after-gibbs-block", cls, kg, ng))
        res.count("block-reinitialized:" + cls)
        twin = _hybrid_strategy(setup)[0][p]
        try:
            twin.target = b.target
            want = _standalone(twin, seed, False)
        except Exception as e:          # this sampler class does not run stand-alone on the conditional: nothing to compare
            res.refused += 1
            res.outcomes.add("%s:block-%s-standalone-refused:%s" % (setup, cls, type(e).__name__))
            continue
        res.transitions += 2 * sum(BLOCK_RUN)
        res.traces += 1
        res.evaluations += 1
        where = "block %r (%s) after the Gibbs run warmup(%d);sample(%d)" % (p, cls, kg, ng)
        try:
            got = _standalone(b, seed, True)
        except Exception as e:
            bad.setdefault(cls, ("raises", "%s: reinitialize();warmup(%d);sample(%d) raised %s: %s" % (
                where, BLOCK_RUN[0], BLOCK_RUN[1], type(e).__name__, str(e)[:160])))
            continue
        if len(got[0]) != len(want[0]):
            f = ("length", "re-initialised object recorded %d states, the twin %d" % (len(got[0]), len(want[0])))
        elif not _eq_chain(got[0], want[0]):
            d = next(i for i, (x, y) in enumerate(zip(got[0], want[0])) if not _same(x, y))
            f = ("chain", "state %d of the re-initialised object is %s, of the freshly constructed twin %s" % (d, got[0][d], want[0][d]))
        elif sorted(got[1]) != sorted(want[1]):
            f = ("state-keys", "state dictionary keys %s vs %s" % (sorted(got[1]), sorted(want[1])))
        else:
            key = next((key for key in sorted(want[1]) if not _same(got[1][key], want[1][key])), None)
            if key is not None:
                f = ("state:" + key, "state dictionary entry %r is %r, the twin has %r" % (key, got[1][key], want[1][key]))
            elif got[2] != want[2]:
                f = ("stream", _rng_diff(got[2], want[2]))
            else:
                f = None
        if f is not None:
            bad.setdefault(cls, (f[0], "%s: %s" % (where, f[1])))
    return bad


def _hybrid_ref(setup, cat, k, seed, n):
    o = Obs()
    stage = "construct"
    try:
        s = _make_hybrid(setup, cat)
        _seed_streams(seed)
        if k > 0:
            stage = "warmup"
            s.warmup(k)
            o.ops += 1
        if n > 0:
            stage = "sample"
            s.sample(n)
            o.ops += 1
        o.rng = _rng_state()
        stage = "get_samples"
        got = s.get_samples()
        o.raw = got
        o.chain = {p: _chain_of(got[p]) for p in s.par_names}
        o.state = sorted({type(b).__name__ for b in s.samplers.values()})      # block sampler classes in use
        o.current = _current_of(s)
    except Exception as e:
        o.error = (stage, "%s: %s" % (type(e).__name__, str(e)[:200]))
    return o


# ----------------------------------------------------------------------------------------
# stateless interface (cuqi.sampler): sample(N, Nb) / sample_adapt(N, Nb)
# ----------------------------------------------------------------------------------------
def _legacy_setups():
    """name -> (class, target id, kwargs factory, burn-in equivalence claimed, explicit x0)"""
    return {
        "MH/gauss": ("MH", "gauss", lambda: dict(scale=0.9, x0=X0[2].copy()), True),
        "MH/post-x0-default": ("MH", "post", lambda: dict(scale=0.6), True),
        "CWMH/gauss": ("CWMH", "gauss", lambda: dict(scale=0.9, x0=X0[2].copy()), True),
        "pCN/post": ("pCN", "post", lambda: dict(scale=0.6, x0=X0[2].copy()), True),
        "MALA/gauss": ("MALA", "gauss", lambda: dict(scale=0.8, x0=X0[2].copy()), True),
        "ULA/gauss": ("ULA", "gauss", lambda: dict(scale=0.2, x0=X0[2].copy()), True),
        "NUTS/gauss-fixed": ("NUTS", "gauss", lambda: dict(max_depth=3, adapt_step_size=0.35, x0=X0[2].copy()), True),
        "NUTS/post-adaptive": ("NUTS", "post", lambda: dict(max_depth=3, adapt_step_size=True, x0=X0[2].copy()), False),
        "LinearRTO/post": ("LinearRTO", "post", lambda: dict(x0=X0[2].copy()), True),
        "RegularizedLinearRTO/reg": ("RegularizedLinearRTO", "reg", lambda: dict(x0=X0[2].copy(), maxit=25), True),
        "UGLA/lmrf": ("UGLA", "lmrf", lambda: dict(x0=X0[3].copy(), maxit=4), True),
    }


SAMPLE_GRID = [(N, Nb) for N in (1, 2, 3, 4, 5) for Nb in (0, 1, 2, 3)]      # N in 1..dim+2 for the dimensions 2 and 3
ADAPT_GRID = [(N, Nb) for N in (10, 12) for Nb in (0, 2, 5)]
LONG_GRID = [(150, 60), (205, 0)]


class LObs:
    __slots__ = ("chain", "log", "x0", "error", "raw")

    def __init__(self):
        self.chain = None
        self.log = None
        self.x0 = None
        self.error = None
        self.raw = None


def run_legacy(setup, cat, seed, method, N, Nb):
    import cuqi
    o = LObs()
    log = Log()
    cls, tid, kw, _ = _legacy_setups()[setup]
    stage = "construct"
    try:
        kwargs = kw()
        given = kwargs.get("x0")
        given = None if given is None else np.array(np.asarray(given, dtype=float), copy=True).ravel()
        s = getattr(cuqi.sampler, cls)(TARGETS[tid](cat), callback=log, **kwargs)
        # the initial point in effect: the one handed to the constructor (kept by the harness, NOT read back from the
        # sampler); only when none was given the point the sampler announces as its x0
        o.x0 = given if given is not None else np.array(np.asarray(s.x0, dtype=float), copy=True).ravel()
        _seed_streams(seed)
        stage = method
        out = getattr(s, method)(N, Nb)
        o.raw = out
        o.chain = _chain_of(out) if hasattr(out, "samples") else [np.array(np.asarray(out, dtype=float), copy=True).ravel()]
        o.log = log.entries
    except Exception as e:
        o.error = (stage, "%s: %s" % (type(e).__name__, str(e)[:200]))
    return o


def _judge_legacy(o, N, Nb, ref, burnin_equiv):
    """first failing facet -> message ; ref = observation of method(N+Nb, 0) on the same stream (or None)."""
    T = N + Nb
    if len(o.chain) != N:
        return "length", "sample(N=%d, Nb=%d) returned %d states" % (N, Nb, len(o.chain))
    idx = [i for _, i in o.log]
    if len(idx) != T - 1:
        return "callback-count", "call-back invoked %d times, %d states were produced by transitions (N=%d, Nb=%d)" % (
            len(idx), T - 1, N, Nb)
    if [int(i) for i in idx] == list(range(1, T)):
        off = 0
    elif [int(i) for i in idx] == list(range(1 - Nb, T - Nb)):
        off = Nb
    else:
        return "callback-index", "call-back indices %s are neither the indices in the run nor in the returned chain" % idx
    for (v, i) in o.log:
        j = int(i) + off - Nb          # position in the returned chain
        if 0 <= j < N and not _same(v, o.chain[j]):
            return "stored-entry-altered", ("entry %d of the returned chain is %s but the call-back received %s when that "
                                            "state was produced (N=%d, Nb=%d)" % (j, o.chain[j], v, N, Nb))
    if Nb == 0 and not _same(o.chain[0], o.x0):
        return "first-entry", "chain with Nb=0 begins with %s, the initial point is %s" % (o.chain[0], o.x0)
    if burnin_equiv and ref is not None and ref.error is None and Nb > 0:
        if not _eq_chain(o.chain, ref.chain[Nb:]):
            return "burn-in", ("sample(N=%d, Nb=%d) is not the last N states of sample(%d, 0) on the same stream"
                               % (N, Nb, T))
    return None


FACET_PRIORITY = ["length", "callback-count", "callback-index", "stored-entry-altered", "first-entry", "burn-in",
                  "chain-order"]


def eval_legacy(cell, res):
    """All (N, Nb) of both grids; per method only the first failing facet (in FACET_PRIORITY order) is reported,
    because the later ones are consequences (a chain altered in place also loses x0 and the prefix property)."""
    setup, cat, seed = cell["setup"], cell["cat"], cell["seed"]
    cls, tid, kw, burnin_equiv = _legacy_setups()[setup]
    comp = "cuqi.sampler." + cls
    moved = False
    for method, grid in (("sample", SAMPLE_GRID), ("sample_adapt", ADAPT_GRID)):
        found = {}
        full = {}
        tmax = max(N + Nb for N, Nb in grid)
        if method == "sample":
            for T in range(1, tmax + 2):
                full[T] = run_legacy(setup, cat, seed, method, T, 0)
                res.transitions += T - 1
            # one chain, in order: the run of length T is a prefix of the run of length T+1 on the same stream
            for T in range(1, tmax + 1):
                a, b = full[T], full[T + 1]
                if a.error is None and b.error is None and burnin_equiv:
                    res.evaluations += 1
                    if not _eq_chain(a.chain, b.chain[:len(a.chain)]):
                        found.setdefault("chain-order", ("sample(%d, 0) is not a prefix of sample(%d, 0) on the same "
                                                         "stream" % (T, T + 1), {"N": T, "Nb": 0}))
        longest = full.get(tmax + 1) if (full.get(tmax + 1) is not None and full[tmax + 1].error is None) else None
        for N, Nb in grid:
            o = run_legacy(setup, cat, seed, method, N, Nb)
            res.transitions += N + Nb - 1
            res.state((method, N, Nb))
            if o.error is not None:
                res.refused += 1
                res.outcomes.add("%s:%s:refused:%s" % (setup, method, o.error[1][:50]))
                continue
            res.traces += 1
            res.evaluations += 1
            if hasattr(o.raw, "samples") and (longest is None or len(o.chain) > len(longest.chain)):
                longest = o
            moved = moved or len({tuple(np.round(v, 12)) for v in o.chain}) > 1
            bad = _judge_legacy(o, N, Nb, full.get(N + Nb), burnin_equiv and method == "sample")
            if bad:
                found.setdefault(bad[0], (bad[1], {"N": N, "Nb": Nb}))
        # long horizon: book-keeping that is throttled / batched by the chain length (progress printing every
        # Ns//100 steps, adaptation windows) only shows on chains of a few hundred states
        for N, Nb in LONG_GRID:
            o = run_legacy(setup, cat, seed, method, N, Nb)
            res.transitions += N + Nb - 1
            res.state((method, N, Nb))
            if o.error is not None:
                res.refused += 1
                res.outcomes.add("%s:%s:long-refused:%s" % (setup, method, o.error[1][:50]))
                continue
            res.traces += 1
            res.evaluations += 1
            bad = _judge_legacy(o, N, Nb, None, False)
            if bad:
                found.setdefault(bad[0], (bad[1], {"N": N, "Nb": Nb}))
        # burn-in / thinning product on the longest returned chain of the grid (content copied when it was returned)
        if longest is not None and hasattr(longest.raw, "samples"):
            burnthin_product(res, longest.raw, {"": longest.chain}, "cuqi.sampler.%s.%s (set-up %s)" % (cls, method, setup))
        for facet in FACET_PRIORITY:
            if facet in found:
                res.fail("C14|%s|%s|%s" % (comp, method, facet), "%s (set-up %s, seed %d; also failing: %s)" % (
                    found[facet][0], setup, seed, sorted(set(found) - {facet}) or "nothing"), focus=found[facet][1])
                break
        if method == "sample" and full[tmax].error is None:
            res.outcomes.add("%s:moves=%s" % (setup, _moves(full[tmax].chain)))
            res.sample = {"setup": setup, "sample(%d,0) first component" % tmax: [float(v[0]) for v in full[tmax].chain]}
    if not moved:
        res.nontrivial = False


# ----------------------------------------------------------------------------------------
# stateless interface: the initial point in effect x the route by which it (and the call-back) reached the sampler
# ----------------------------------------------------------------------------------------
_U2 = (np.array([0.5, -0.25]), np.array([-0.75, 0.375]))
_P2 = (np.array([0.5, 0.25]), np.array([0.125, 0.75]))            # feasible for the non-negativity constraint
_U3 = (np.array([0.25, -0.5, 0.75]), np.array([-0.5, 0.125, 0.375]))


def _legacy_x0_setups():
    """One set-up per class of cuqi.sampler that has the sample(N, Nb) / x0 / callback interface:
    class -> (target id, constructor arguments WITHOUT x0 and callback, two distinct non-default feasible initial points
    (neither the ones- nor the zeros-vector the classes default to), burn-in equivalence claimed)."""
    return {
        "MH": ("gauss", lambda: dict(scale=0.9), _U2, True),
        "CWMH": ("gauss", lambda: dict(scale=0.9), _U2, True),
        "pCN": ("post", lambda: dict(scale=0.6), _U2, True),
        "ULA": ("gauss", lambda: dict(scale=0.2), _U2, True),
        "MALA": ("gauss", lambda: dict(scale=0.8), _U2, True),
        "NUTS": ("gauss", lambda: dict(max_depth=3, adapt_step_size=0.35), _U2, True),
        "LinearRTO": ("post", lambda: dict(), _U2, True),
        "RegularizedLinearRTO": ("reg", lambda: dict(maxit=25), _P2, True),
        "UGLA": ("lmrf", lambda: dict(maxit=4), _U3, True),
    }


# classes exported by cuqi.sampler without that interface (no x0, no callback, no sample()): abstract bases, and the
# direct samplers / the Gibbs sampler, which are covered by the legacy Gibbs cells (LEGACY_GIBBS)
LEGACY_NO_CHAIN_API = {"Sampler": "abstract", "ProposalBasedSampler": "abstract", "Conjugate": "gibbs-block",
                       "ConjugateApprox": "gibbs-block", "Gibbs": "gibbs"}

X0_ROUTES = ("constructor", "assigned", "reassigned", "default")
# lengths of the first and of the second run of ONE sampler object; (N, Nb) of the burn-in runs, each against the run
# (N+Nb, 0) of a twin on the same stream (the adaptive loops of MH/CWMH/pCN adapt every int(0.1*N) steps: N >= 10 as in ADAPT_GRID)
X0_RUNS = {"sample": (3, 4), "sample_adapt": (10, 12)}
X0_BURN = {"sample": ((3, 2), (2, 1)), "sample_adapt": ((10, 2), (10, 5))}
ROUTE_FACETS = ("first-entry", "second-run-length", "second-run-callback-count", "second-run-callback-index",
                "second-run-first-entry", "earlier-chain-altered-by-second-run", "burn-in")
X0_PRIORITY = ["length", "callback-count", "callback-index", "stored-entry-altered", "raises"] + list(ROUTE_FACETS)


def _make_legacy_x0(cls, tid, cat, kw, route, v, log):
    """-> (sampler, the initial point in effect as the harness knows it).  constructor: x0 and callback are constructor
    arguments; assigned: both are assigned to the constructed object; reassigned: constructed with another point and another
    call-back, then both assigned; default: no x0 given (in effect: what the sampler announces as x0 after construction)."""
    import cuqi
    C = getattr(cuqi.sampler, cls)
    t = TARGETS[tid](cat)
    v1, v2 = v
    if route == "constructor":
        s = C(t, x0=v1.copy(), callback=log, **kw())
    elif route == "assigned":
        s = C(t, **kw())
        s.x0 = v1.copy()
        s.callback = log
    elif route == "reassigned":
        s = C(t, x0=v2.copy(), callback=Log(), **kw())
        s.x0 = v1.copy()
        s.callback = log
    else:
        s = C(t, callback=log, **kw())
        return s, np.array(np.asarray(s.x0, dtype=float), copy=True).ravel()
    return s, v1.copy()


def _legacy_obs(s, x_eff, log, seed, method, N, Nb):
    """One run method(N, Nb) of the given sampler object on the stream `seed` (call-back log emptied first)."""
    o = LObs()
    log.entries = []
    o.x0 = x_eff
    try:
        _seed_streams(seed)
        out = getattr(s, method)(N, Nb)
        o.raw = out
        o.chain = _chain_of(out) if hasattr(out, "samples") else [np.array(np.asarray(out, dtype=float), copy=True).ravel()]
        o.log = log.entries
    except Exception as e:
        o.error = (method, "%s: %s" % (type(e).__name__, str(e)[:200]))
    return o


def eval_legacy_x0(cell, res):
    """Per class: (route of the initial point and the call-back) x (sample, sample_adapt) x {first run, second run of the same
    object, burn-in runs}.  Per method only the first failing facet in X0_PRIORITY order (then route order) is reported."""
    cls, cat, seed = cell["cls"], cell["cat"], cell["seed"]
    tid, kw, v, burnin_equiv = _legacy_x0_setups()[cls]
    comp = "cuqi.sampler." + cls
    moved = False
    for method in ("sample", "sample_adapt"):
        found = {}

        def note(facet, route, msg, **focus):
            key = (X0_PRIORITY.index(facet), X0_ROUTES.index(route) if route in X0_ROUTES else len(X0_ROUTES))
            if key not in found:
                found[key] = (facet, route, msg, focus)

        for route in X0_ROUTES:
            res.state(("x0", method, route))
            res.count("legacy-x0:%s:%s" % (cls, route))
            res.count("legacy-callback:%s:%s" % (cls, {"assigned": "assigned", "reassigned": "reassigned"}.get(route, "constructor")))
            log = Log()
            try:
                s, x_eff = _make_legacy_x0(cls, tid, cat, kw, route, v, log)
            except Exception as e:
                note("raises", route, "construction raised %s: %s" % (type(e).__name__, str(e)[:160]))
                continue
            if x_eff.size != int(s.dim):
                note("first-entry", route, "the sampler announces the initial point %s for a target of dimension %d" % (x_eff, s.dim))
                continue
            # ---- first run
            N1, N2 = X0_RUNS[method]
            o1 = _legacy_obs(s, x_eff, log, seed, method, N1, 0)
            res.transitions += N1 - 1
            if o1.error is not None:
                note("raises", route, "%s(%d, 0) raised %s" % (method, N1, o1.error[1]))
                continue
            res.traces += 1
            res.evaluations += 1
            moved = moved or len({tuple(np.round(x, 12)) for x in o1.chain}) > 1
            bad = _judge_legacy(o1, N1, 0, None, False)
            if bad:
                note(bad[0], route, "%s (initial point %s by route '%s')" % (bad[1], x_eff, route), N=N1, Nb=0)
            copy1 = [x.copy() for x in o1.chain]
            # ---- second run of the same object: a new chain that begins with the initial point again
            o2 = _legacy_obs(s, x_eff, log, seed + 1, method, N2, 0)
            res.transitions += N2 - 1
            if o2.error is not None:
                note("raises", route, "second run %s(%d, 0) raised %s" % (method, N2, o2.error[1]))
            else:
                res.traces += 1
                res.evaluations += 2
                bad = _judge_legacy(o2, N2, 0, None, False)
                if bad and bad[0] in ("length", "callback-count", "callback-index", "first-entry"):
                    note("second-run-" + bad[0], route, "second run of the same sampler object: %s (initial point %s by route "
                         "'%s')" % (bad[1], x_eff, route), N=N2, Nb=0)
                elif bad:
                    note(bad[0], route, "second run of the same sampler object: " + bad[1], N=N2, Nb=0)
                if not _eq_chain(_chain_of(o1.raw), copy1):
                    note("earlier-chain-altered-by-second-run", route, "the chain returned by the first %s(%d, 0) changed during "
                         "the second run of the same sampler object" % (method, N1), N=N2, Nb=0)
            # ---- burn-in: the run (N, Nb) is the tail of the run (N+Nb, 0) of the same configuration on the same stream
            for N, Nb in X0_BURN[method]:
                obs = []
                for n_, nb_ in ((N, Nb), (N + Nb, 0)):
                    lg = Log()
                    try:
                        s_, xe_ = _make_legacy_x0(cls, tid, cat, kw, route, v, lg)
                    except Exception:
                        obs.append(None)
                        continue
                    obs.append(_legacy_obs(s_, xe_, lg, seed, method, n_, nb_))
                    res.transitions += n_ + nb_ - 1
                if any(x is None or x.error is not None for x in obs):
                    res.refused += 1
                    continue
                res.traces += 2
                res.evaluations += 2
                res.state(("x0-burn", method, route, N, Nb))
                for x, (n_, nb_), rf in ((obs[1], (N + Nb, 0), None), (obs[0], (N, Nb), obs[1])):
                    bad = _judge_legacy(x, n_, nb_, rf, burnin_equiv and method == "sample")
                    if bad:
                        note(bad[0], route, "%s (initial point %s by route '%s')" % (bad[1], x.x0, route), N=n_, Nb=nb_)
                        break
        if found:
            facet, route, msg, focus = found[min(found)]
            sig = "C14|%s|%s|%s" % (comp, method, ("%s,x0=%s" % (facet, route)) if facet in ROUTE_FACETS else facet)
            res.fail(sig, "%s (class %s, seed %d; also failing: %s)" % (
                msg, cls, seed, sorted({"%s/%s" % (f, r) for f, r, _, _ in found.values()} - {"%s/%s" % (facet, route)}) or "nothing"),
                focus=dict(focus, route=route))
    # ---- step(x): one transition from the point handed over (the route by which the legacy Gibbs sampler sets the initial
    # point of its block samplers) == the second state of sample(2, 0) of a sampler constructed with x0 = x, same stream
    import cuqi
    v1, v2 = v
    for how in ("default", "constructor"):
        res.state(("x0", "step", how))
        res.count("legacy-x0:%s:step-argument" % cls)
        try:
            C = getattr(cuqi.sampler, cls)
            s = C(TARGETS[tid](cat), **kw()) if how == "default" else C(TARGETS[tid](cat), x0=v2.copy(), **kw())
            r = C(TARGETS[tid](cat), x0=v1.copy(), **kw())
            _seed_streams(seed)
            want = _chain_of(r.sample(2, 0))
            _seed_streams(seed)
            got = np.array(np.asarray(s.step(v1.copy()), dtype=float), copy=True).ravel()
        except Exception as e:
            res.refused += 1
            res.outcomes.add("%s:step-refused:%s" % (cls, type(e).__name__))
            continue
        res.transitions += 2
        res.traces += 1
        res.evaluations += 1
        if len(want) == 2 and _same(want[0], v1) and not _same(got, want[1]):     # (a reference not starting at x is judged above)
            res.fail("C14|%s|step|transition-from-argument" % comp, "step(x) of a sampler constructed with %s x0 returned %s, "
                     "the transition from x = %s made by sample(2, 0) on the same stream leads to %s (class %s, seed %d)"
                     % ("the default" if how == "default" else "another", got, v1, want[1], cls, seed), focus={"constructed": how})
            break
    res.outcomes.add("%s:x0-routes:moved=%s" % (cls, moved))
    if not moved:
        res.nontrivial = False


# ----------------------------------------------------------------------------------------
# legacy Gibbs: N then M (with and without warm-up in the first call), length, returned chains immutable
# ----------------------------------------------------------------------------------------
def _legacy_gibbs_setups():
    """name -> (target id, {parameter(s): (class of cuqi.sampler, keyword arguments)}); together the set-ups use every class of
    cuqi.sampler as a block sampler (the Gibbs sampler constructs a block sampler per step and sets its initial point through
    step(x); classes that need constructor arguments are handed over as a factory, as a user would)."""
    return {
        "Gibbs/rto-conjugate": ("hier", {"x": ("LinearRTO", {}), ("d", "l"): ("Conjugate", {})}),
        "Gibbs/cwmh-conjugate": ("hier", {"x": ("CWMH", {}), ("d", "l"): ("Conjugate", {})}),
        "Gibbs/regrto-conjugate": ("reg_hier", {"x": ("RegularizedLinearRTO", {}), ("d", "l"): ("Conjugate", {})}),
        "Gibbs/ugla-conjugateapprox": ("lmrf_hier", {"x": ("UGLA", {"maxit": 4}), "s": ("ConjugateApprox", {})}),
        "Gibbs/mh-pcn-mala": ("hier_mh", {"d": ("MH", {"scale": 0.8}), "s": ("pCN", {"scale": 0.5}),
                                          "x": ("MALA", {"scale": 0.05})}),
        "Gibbs/mh-pcn-ula": ("hier_mh", {"d": ("MH", {"scale": 0.8}), "s": ("pCN", {"scale": 0.5}),
                                         "x": ("ULA", {"scale": 0.05})}),
        "Gibbs/mh-pcn-nuts": ("hier_mh", {"d": ("MH", {"scale": 0.8}), "s": ("pCN", {"scale": 0.5}),
                                          "x": ("NUTS", {"max_depth": 2, "adapt_step_size": 0.2})}),
    }


def _block_factory(cls, kwargs):
    import cuqi
    C = getattr(cuqi.sampler, cls)
    if not kwargs:
        return C                                    # the class itself, as in the library's documentation

    def make(target):
        return C(target, **kwargs)
    return make


def _make_gibbs(setup, cat):
    import cuqi
    tid, blocks = _legacy_gibbs_setups()[setup]
    return cuqi.sampler.Gibbs(TARGETS[tid](cat), {p: _block_factory(c, k) for p, (c, k) in blocks.items()})


LEGACY_GIBBS = list(_legacy_gibbs_setups())


def _compositions(total_max, parts=(1, 2, 3)):
    out = []

    def rec(seq, n):
        if seq:
            out.append(tuple(seq))
        for p in parts:
            if n + p <= total_max:
                rec(seq + [p], n + p)

    rec([], 0)
    return out


def run_gibbs(setup, cat, seed, calls, Nb):
    o = Obs()
    stage = "construct"
    try:
        s = _make_gibbs(setup, cat)
        _seed_streams(seed)
        got = None
        for j, N in enumerate(calls):
            stage = "sample#%d" % j
            got = s.sample(N, Nb) if j == 0 else s.sample(N)
            o.ops += 1
            o.transitions += N + (Nb if j == 0 else 0)
            o.reads.append((got, {p: np.array(got[p].samples, copy=True) for p in got}))
        o.rng = _rng_state()
        o.raw = got
        o.chain = {p: _chain_of(got[p]) for p in got}
    except Exception as e:
        o.error = (stage, "%s: %s" % (type(e).__name__, str(e)[:200]))
    return o


def eval_gibbs(cell, res):
    setup, cat, seed, maxn = cell["setup"], cell["cat"], cell["seed"], cell["maxn"]
    comp = "cuqi.sampler.Gibbs"
    seen = set()

    def fail(op, facet, msg):
        sig = "C14|%s|%s|%s" % (comp, op, facet)
        if sig not in seen:
            seen.add(sig)
            res.fail(sig, msg + " (set-up %s, seed %d)" % (setup, seed))

    try:
        g0 = _make_gibbs(setup, cat)
        s_dims = {p: g0.target.get_density(p).dim for p in g0.par_names}
    except Exception as e:
        res.refused += 1
        res.nontrivial = False
        res.outcomes.add("%s:refused:%s" % (setup, type(e).__name__))
        return
    res.count("legacy-class:Gibbs")
    for c, _ in _legacy_gibbs_setups()[setup][1].values():
        res.count("legacy-gibbs-block:" + c)
    for Nb in (0, 1, 2):
        refs_ = {}
        for n in range(1, maxn + 2):
            refs_[n] = run_gibbs(setup, cat, seed, (n,), Nb)
            res.transitions += refs_[n].ops
            res.state(("gibbs", Nb, n))
        # one chain, in order, for every length N in 1..dim+2 (dim <= 2 here): the run of N states is a prefix of the run
        # of N+1 states on the same stream, has one column per state, and later calls continue from its last column
        for n in range(1, maxn + 1):
            a, b = refs_[n], refs_.get(n + 1)
            if a.error is not None:
                continue
            res.evaluations += 1
            for p in sorted(a.chain):
                arr = np.asarray(a.raw[p].samples)
                dim_p = int(s_dims[p])
                if arr.ndim == 1 and dim_p == 1:
                    arr = arr[None, :]
                res.state(("record", dim_p, n))
                if arr.shape != (dim_p, n):
                    fail("sample", "recorded-shape,%s" % _rel(n, dim_p), "sample(%d, %d): Samples array of %r has shape %s for "
                         "%d states of dimension %d" % (n, Nb, p, arr.shape, n, dim_p))
                elif b is not None and b.error is None and not _eq_chain(a.chain[p], b.chain[p][:n]):
                    fail("sample", "recorded-states,%s" % _rel(n, dim_p), "sample(%d, %d): chain of %r (dimension %d) is not "
                         "the first %d states of sample(%d, %d) on the same stream" % (n, Nb, p, dim_p, n, n + 1, Nb))
        for calls in _compositions(maxn):
            n = sum(calls)
            o = run_gibbs(setup, cat, seed, calls, Nb)
            ref = refs_[n]
            res.transitions += o.ops
            if o.error is not None or ref.error is not None:
                res.refused += 1
                res.outcomes.add("%s:refused:%s" % (setup, (o.error or ref.error)[1][:50]))
                if ref.error is None and len(calls) > 1:
                    fail("sample-then-sample", "raises", "calls %s (Nb=%d) raised %s" % (list(calls), Nb, o.error[1]))
                continue
            res.traces += 1
            res.evaluations += 1
            op = "sample" if len(calls) == 1 else "sample-then-sample"
            for p in sorted(ref.chain):
                if len(o.chain[p]) != n:
                    fail(op, "length", "calls %s (Nb=%d): chain of %r has %d entries" % (list(calls), Nb, p, len(o.chain[p])))
                    break
                if not _eq_chain(o.chain[p], ref.chain[p]):
                    fail(op, "chain", "calls %s (Nb=%d): chain of %r differs from the single call sample(%d, %d) on the "
                         "same stream" % (list(calls), Nb, p, n, Nb))
                    break
            else:
                if o.rng != ref.rng:
                    fail(op, "stream", "calls %s (Nb=%d): %s" % (list(calls), Nb, _rng_diff(o.rng, ref.rng)))
            # chains returned by earlier calls are not altered by later transitions, and are prefixes of the final one
            m = 0
            for (got, copy), N in zip(o.reads, calls):
                m += N
                for p in copy:
                    if not _same(np.asarray(got[p].samples, dtype=float), copy[p]):
                        fail(op, "stored-entry-altered", "calls %s (Nb=%d): the chain returned by an earlier call changed "
                             "during a later call" % (list(calls), Nb))
                    elif not _eq_chain(_chain_of(copy[p]), o.chain[p][:m]):
                        fail(op, "chain-order", "calls %s (Nb=%d): the chain returned after %d samples is not a prefix of "
                             "the final chain" % (list(calls), Nb, m))
        if refs_[maxn].error is None:
            ch = refs_[maxn].chain
            burnthin_product(res, refs_[maxn].raw, ch, "cuqi.sampler.Gibbs.sample(%d, %d) (set-up %s)" % (maxn, Nb, setup))
            res.outcomes.add("%s:Nb%d:moves=%s" % (setup, Nb, "/".join(_moves(ch[p]) for p in sorted(ch))))
            res.sample = {"setup": setup, "Nb": Nb, "reference": {p: [float(v[0]) for v in ch[p]] for p in ch}}


# ----------------------------------------------------------------------------------------
# chain length x block dimension product: get_samples() against the states recorded by the harness at production
# ----------------------------------------------------------------------------------------
RECORD_WARMUPS = (0, 1, 2)


def _rel(N, dim):
    return "N<dim" if N < dim else ("N=dim" if N == dim else "N>dim")


def _record_bad(samples_obj, dim, rec):
    """samples_obj: Samples handed out when len(rec) states had been recorded; rec: the states copied by the harness when
    they were produced (None = not observable).  -> (facet, message) or None"""
    T = len(rec)
    arr = np.asarray(samples_obj.samples, dtype=float)
    if arr.ndim == 1 and dim == 1:      # a chain of scalar states may be handed out as a flat array
        arr = arr[None, :]
    if arr.shape != (dim, T):
        return "shape", "Samples array has shape %s for %d recorded states of dimension %d" % (arr.shape, T, dim)
    for j in range(T):
        if rec[j] is not None and not _same(np.array(arr[:, j]), rec[j]):
            return "states", "entry %d of the chain of %d states is %s, the state produced by transition %d was %s" % (
                j, T, arr[:, j], j, rec[j])
    return None


def eval_record_hybrid(cell, res):
    """HybridGibbs: for every total number of recorded states T in 1..max(block dim)+2 (so that T == dim, dim-1, dim+1
    occur for every block dimension present), reached by warmup(kw) + single sample(1) calls and by one call sample(T):
    get_samples() lists, per parameter, exactly the states `current_samples` showed after each transition."""
    setup, cat, seed = cell["setup"], cell["cat"], cell["seed"]
    comp = "cuqi.experimental.mcmc.HybridGibbs"
    seen = set()

    def fail(op, facet, N, dim, msg):
        sig = "C14|%s|%s|recorded-%s,%s" % (comp, op, facet, _rel(N, dim))
        if sig not in seen:
            seen.add(sig)
            res.fail(sig, msg + " (set-up %s, seed %d)" % (setup, seed), focus={"N": N, "dim": dim})

    def compare(g, rec, op, how):
        T = len(next(iter(rec.values())))
        got = g.get_samples()
        res.evaluations += 1
        for p_ in g.par_names:
            res.state(("record", dims[p_], T))
            res.count("record:%s" % _rel(T, dims[p_]))
            bad = _record_bad(got[p_], dims[p_], rec[p_])
            if bad:
                fail(op, bad[0], T, dims[p_], "%s: chain of %r (dimension %d): %s" % (how, p_, dims[p_], bad[1]))

    try:
        g = _make_hybrid(setup, cat)
        dims = {p_: int(g.target.get_density(p_).dim) for p_ in g.par_names}
    except Exception as e:
        res.refused += 1
        res.nontrivial = False
        res.outcomes.add("%s:refused:%s" % (setup, type(e).__name__))
        return
    nmax = max(dims.values()) + 2
    res.outcomes.add("%s:dims=%s" % (setup, sorted(set(dims.values()))))
    # the Gibbs chain starts at the initial points the block samplers were constructed with (the state the sampler is in
    # before its first transition), and the first transition of every block leaves from there: observable as current_samples
    try:
        start = _current_of(g)
    except Exception as e:
        start = None
        fail("construct", "raises", 0, 1, "current_samples after construction: %s: %s" % (type(e).__name__, str(e)[:120]))
    for p_, (bcls, bkw) in sorted(_hybrid_spec(setup)[0].items()):
        given = bkw.get("initial_point")
        res.count("hybrid-block-arg:%s:initial_point=%s" % (bcls, "default" if given is None else "constructor"))
        if given is None or start is None:
            continue
        res.evaluations += 1
        res.state(("gibbs-initial-point", bcls))
        if not _same(start[p_], np.atleast_1d(np.asarray(given, dtype=float)).ravel()):
            sig = "C14|%s|construct|initial-point,block=%s" % (comp, bcls)
            if sig not in seen:
                seen.add(sig)
                res.fail(sig, "before the first transition the Gibbs sampler is at %r = %s, its %s block sampler was constructed "
                         "with initial_point = %s (set-up %s)" % (p_, start[p_], bcls, given, setup), focus={"block": bcls})
    stepwise = None
    for kw in RECORD_WARMUPS:
        how = "warmup(%d) then single sample(1) calls" % kw
        try:
            g = _make_hybrid(setup, cat)
            _seed_streams(seed)
            rec = {p_: [] for p_ in g.par_names}
            if kw:
                g.warmup(kw)
                res.transitions += 1
                cur = _current_of(g)
                for p_ in rec:
                    rec[p_] = [None] * (kw - 1) + [cur[p_]]
                compare(g, rec, "get_samples", how)
            for _ in range(nmax - kw):
                g.sample(1)
                res.transitions += 1
                cur = _current_of(g)
                for p_ in rec:
                    rec[p_].append(cur[p_])
                compare(g, rec, "get_samples", how)
            res.traces += 1
        except Exception as e:
            fail("get_samples", "raises", 0, 1, "%s raised %s: %s" % (how, type(e).__name__, str(e)[:160]))
            continue
        if kw == 0:
            stepwise = rec
    if stepwise is None:
        res.nontrivial = False
        return
    for T in range(1, nmax + 1):            # one call sample(T): the same chain (continuity), so the same record
        how = "one call sample(%d)" % T
        try:
            g = _make_hybrid(setup, cat)
            _seed_streams(seed)
            g.sample(T)
            res.transitions += 1
            rec = {p_: [v for v in stepwise[p_][:T - 1]] + [_current_of(g)[p_]] for p_ in stepwise}
            compare(g, rec, "sample", how)
            res.traces += 1
        except Exception as e:
            fail("sample", "raises", 0, 1, "%s raised %s: %s" % (how, type(e).__name__, str(e)[:160]))
    moved = any(len({tuple(np.round(v, 12)) for v in stepwise[p_]}) > 1 for p_ in stepwise)
    if not moved:
        res.nontrivial = False
    res.outcomes.add("%s:record-moves=%s" % (setup, "/".join(_moves(stepwise[p_]) for p_ in sorted(stepwise))))
    res.sample = {"setup": setup, "dims": dims, "recorded_first_components": {p_: [float(v[0]) for v in stepwise[p_]]
                                                                              for p_ in stepwise}}


def eval_record_stateful(cell, res):
    """Single sampler: for every T in 1..dim+2 and every warm-up kw in RECORD_WARMUPS (kw <= T): after warmup(kw);
    sample(T-kw) get_samples() has shape (dim, T), lists the states handed to the call-back in order, and ends with the
    sampler's current point."""
    setup, cat, seed = cell["setup"], cell["cat"], cell["seed"]
    cls = _stateful_setups()[setup][0]
    comp = "cuqi.experimental.mcmc." + cls
    seen = set()
    moved = False
    try:
        dim = int(_make_stateful(setup, cat, None).target.dim)
    except Exception as e:
        res.refused += 1
        res.nontrivial = False
        res.outcomes.add("%s:refused:%s" % (setup, type(e).__name__))
        return
    res.outcomes.add("%s:dim=%d" % (setup, dim))
    for T in range(1, dim + 3):
        for kw in RECORD_WARMUPS:
            if kw > T:
                continue
            how = "warmup(%d);sample(%d)" % (kw, T - kw)
            res.state(("record", dim, T, kw))
            res.count("record:%s" % _rel(T, dim))
            log = Log()
            try:
                sm = _make_stateful(setup, cat, log)
                _seed_streams(seed)
                if kw:
                    sm.warmup(kw)
                if T - kw:
                    sm.sample(T - kw)
                got = sm.get_samples()
                cur = np.array(np.asarray(sm.current_point, dtype=float), copy=True).ravel()
            except Exception as e:
                bad = ("raises", "raised %s: %s" % (type(e).__name__, str(e)[:160]))
            else:
                res.transitions += 2
                res.traces += 1
                res.evaluations += 1
                rec = [v for v, _ in log.entries]
                moved = moved or len({tuple(np.round(v, 12)) for v in rec}) > 1
                if len(rec) != T:
                    bad = ("callback-count", "call-back invoked %d times for %d transitions" % (len(rec), T))
                else:
                    bad = _record_bad(got, dim, rec)
                    if bad is None and not _same(rec[-1], cur):
                        bad = ("last-state", "last recorded state is %s, current_point is %s" % (rec[-1], cur))
            if bad:
                sig = "C14|%s|get_samples|recorded-%s,%s" % (comp, bad[0], _rel(T, dim))
                if sig not in seen:
                    seen.add(sig)
                    res.fail(sig, "%s: chain of dimension %d: %s (set-up %s, seed %d)" % (how, dim, bad[1], setup, seed),
                             focus={"N": T, "dim": dim, "warmup": kw})
    if not moved:
        res.nontrivial = False


# ----------------------------------------------------------------------------------------
# the call-back alphabet: what KIND of callable the user hands over (both interfaces)
# ----------------------------------------------------------------------------------------
def _rec(entries, sample, index):
    entries.append((np.array(np.asarray(sample, dtype=float), copy=True).ravel(), index))


class _Recorder:
    """The call-back is the bound method `record` of this object."""

    def __init__(self, entries):
        self.entries = entries

    def record(self, sample, index):
        _rec(self.entries, sample, index)


class _CallableRecorder:
    def __init__(self, entries):
        self.entries = entries

    def __call__(self, sample, index):
        _rec(self.entries, sample, index)


class _SizedRecorder(_CallableRecorder):
    """A monitor that reports how many states it has seen: len() == 0 (truth value False) before its first call."""

    def __len__(self):
        return len(self.entries)


class _BoolRecorder(_CallableRecorder):
    """A monitor whose truth value says whether it has seen a state yet: False before its first call."""

    def __bool__(self):
        return len(self.entries) > 0


CALLBACK_KINDS = ("function", "lambda", "bound-method", "partial", "object", "object-len0", "object-bool-false")


def _make_callback(kind):
    """-> (callable of the given kind, the list its invocations are recorded in as (copy of the state, index))"""
    entries = []
    if kind == "function":
        def cb(sample, index):
            _rec(entries, sample, index)
    elif kind == "lambda":
        cb = lambda sample, index: _rec(entries, sample, index)      # noqa: E731
    elif kind == "bound-method":
        cb = _Recorder(entries).record
    elif kind == "partial":
        cb = functools.partial(_rec, entries)
    elif kind == "object":
        cb = _CallableRecorder(entries)
    elif kind == "object-len0":
        cb = _SizedRecorder(entries)
    elif kind == "object-bool-false":
        cb = _BoolRecorder(entries)
    else:
        raise ValueError(kind)
    return cb, entries


CALLBACK_ROUTES = ("constructor", "assigned")
CALLBACK_FACETS = ["raises", "length", "callback-count", "callback-index", "callback-state", "chain"]
CB_LEGACY_RUNS = (("sample", 3, 1), ("sample_adapt", 10, 2))
CB_STATEFUL_RUN = (3, 3)            # warmup(3);sample(3)


def _log_diff(entries, ref_entries):
    """Invocations of a call-back against those of the plain-function call-back in the same run on the same stream."""
    if len(entries) != len(ref_entries):
        return "callback-count", "call-back invoked %d times, the plain function was invoked %d times in the same run" % (
            len(entries), len(ref_entries))
    if [int(i) for _, i in entries] != [int(i) for _, i in ref_entries]:
        return "callback-index", "call-back received the indices %s, the plain function %s" % (
            [int(i) for _, i in entries], [int(i) for _, i in ref_entries])
    for j, ((v, _), (w, _)) in enumerate(zip(entries, ref_entries)):
        if not _same(v, w):
            return "callback-state", "invocation %d handed over the state %s, the plain function received %s" % (j, v, w)
    return None


class _Found:
    """First failure in (facet priority, enumeration order); the others are listed as 'also failing'."""

    def __init__(self, priority):
        self.priority = priority
        self.items = []

    def note(self, facet, label, msg, **focus):
        base = facet.split(":")[0]
        pr = self.priority.index(base) if base in self.priority else len(self.priority)
        self.items.append(((pr, len(self.items)), facet, label, msg, focus))

    def first(self):
        if not self.items:
            return None
        _, facet, label, msg, focus = min(self.items, key=lambda t: t[0])
        others = sorted({"%s/%s" % (f, l) for _, f, l, _, _ in self.items} - {"%s/%s" % (facet, label)})
        return facet, label, msg + " (also failing: %s)" % (others[:8] or "nothing"), focus


def eval_callback_stateless(cell, res):
    """cuqi.sampler class x (sample(N,Nb), sample_adapt(N,Nb)) x kind of callable x route (constructor / assigned):
    the plain function is invoked exactly once per state produced by a transition with the state's index; every other kind
    of callable receives exactly the same invocations in the same run on the same stream, and the returned chain is the same."""
    import cuqi
    cls, cat, seed = cell["cls"], cell["cat"], cell["seed"]
    tid, kw, v, _ = _legacy_x0_setups()[cls]
    comp = "cuqi.sampler." + cls
    found = _Found(CALLBACK_FACETS)
    moved = invoked = False

    def run(kind, route, method, N, Nb):
        cb, entries = _make_callback(kind)
        C = getattr(cuqi.sampler, cls)
        if route == "constructor":
            s = C(TARGETS[tid](cat), x0=v[0].copy(), callback=cb, **kw())
        else:
            s = C(TARGETS[tid](cat), x0=v[0].copy(), **kw())
            s.callback = cb
        _seed_streams(seed)
        out = getattr(s, method)(N, Nb)
        return _chain_of(out), entries

    for method, N, Nb in CB_LEGACY_RUNS:
        T = N + Nb
        for route in CALLBACK_ROUTES:
            ref = None
            for kind in CALLBACK_KINDS:
                res.state(("callback", method, route, kind))
                res.count("callback-kind:%s" % kind)
                label = "%s,%s,%s" % (kind, route, method)
                try:
                    chain, entries = run(kind, route, method, N, Nb)
                except Exception as e:
                    if kind == "function":      # the reference run itself is refused: nothing to compare on this route
                        res.refused += 1
                        res.outcomes.add("%s:%s:callback-reference-refused:%s" % (cls, method, type(e).__name__))
                        break
                    found.note("raises", label, "%s(%d, %d) with a call-back of kind '%s' (route %s) raised %s: %s; with a plain "
                               "function it runs" % (method, N, Nb, kind, route, type(e).__name__, str(e)[:120]), kind=kind)
                    continue
                res.transitions += T - 1
                res.traces += 1
                res.evaluations += 1
                if kind == "function":
                    ref = (chain, entries)
                    moved = moved or len({tuple(np.round(x, 12)) for x in chain}) > 1
                    invoked = invoked or len(entries) > 1
                    idx = [int(i) for _, i in entries]
                    if len(idx) != T - 1:
                        found.note("callback-count", label, "%s(%d, %d): call-back (plain function, route %s) invoked %d times, %d "
                                   "states were produced by transitions" % (method, N, Nb, route, len(idx), T - 1), kind=kind)
                        ref = None
                        break
                    if idx != list(range(1, T)) and idx != list(range(1 - Nb, T - Nb)):
                        found.note("callback-index", label, "%s(%d, %d): call-back indices %s are neither the indices in the run "
                                   "nor in the returned chain" % (method, N, Nb, idx), kind=kind)
                        ref = None
                        break
                    continue
                bad = _log_diff(entries, ref[1])
                if bad is None and not _eq_chain(chain, ref[0]):
                    bad = ("chain", "the returned chain differs from the chain of the same run with a plain-function call-back")
                if bad:
                    found.note(bad[0], label, "%s(%d, %d) with a call-back of kind '%s' given by route '%s': %s (%d states were "
                               "produced by transitions)" % (method, N, Nb, kind, route, bad[1], T - 1), kind=kind)
    f = found.first()
    if f:
        facet, label, msg, focus = f
        res.fail("C14|%s|callback-kind|%s,callback=%s" % (comp, facet, focus.get("kind", "function")),
                 "%s (class %s, seed %d)" % (msg, cls, seed), focus=focus)
    res.outcomes.add("%s:callback-kinds:moved=%s" % (cls, moved))
    if not invoked:
        res.nontrivial = False


def eval_callback_stateful(cell, res):
    """cuqi.experimental.mcmc class x kind of callable x route (constructor / assigned): in warmup(3);sample(3) the plain
    function is invoked once per transition with (state, index in the chain) and receives the recorded states; every other
    kind of callable receives the same invocations, and chain, state dictionary and generator position are the same."""
    setup, cat, seed = cell["setup"], cell["cat"], cell["seed"]
    cls = _stateful_setups()[setup][0]
    comp = "cuqi.experimental.mcmc." + cls
    loop_comp = "cuqi.experimental.mcmc." + _defining_class(cls, "sample")
    kw_, n_ = CB_STATEFUL_RUN
    found = _Found(CALLBACK_FACETS)
    moved = invoked = False

    def run(kind, route):
        cb, entries = _make_callback(kind)
        if route == "constructor":
            s = _make_stateful(setup, cat, cb)
        else:
            s = _make_stateful(setup, cat, None)
            s.callback = cb
        return (entries,) + _twin_run(s, seed, kw_, n_, False)

    for route in CALLBACK_ROUTES:
        ref = None
        for kind in CALLBACK_KINDS:
            res.state(("callback", route, kind))
            res.count("callback-kind:%s" % kind)
            label = "%s,%s" % (kind, route)
            try:
                entries, chain, state, rng = run(kind, route)
            except Exception as e:
                if kind == "function":
                    res.refused += 1
                    res.outcomes.add("%s:callback-reference-refused:%s" % (setup, type(e).__name__))
                    break
                found.note("raises", label, "warmup(%d);sample(%d) with a call-back of kind '%s' (route %s) raised %s: %s; with a "
                           "plain function it runs" % (kw_, n_, kind, route, type(e).__name__, str(e)[:120]), kind=kind)
                continue
            res.transitions += 2
            res.traces += 1
            res.evaluations += 1
            if kind == "function":
                ref = (entries, chain, state, rng)
                moved = moved or len({tuple(np.round(x, 12)) for x in chain}) > 1
                invoked = invoked or len(entries) > 1
                idx = [int(i) for _, i in entries]
                bad = None
                if len(chain) != kw_ + n_:
                    bad = ("length", "recorded chain has %d entries after %d transitions" % (len(chain), kw_ + n_))
                elif len(idx) != kw_ + n_:
                    bad = ("callback-count", "call-back invoked %d times for %d transitions" % (len(idx), kw_ + n_))
                elif idx != list(range(kw_ + n_)):
                    bad = ("callback-index", "call-back indices %s, chain indices are %s" % (idx, list(range(kw_ + n_))))
                elif not all(_same(x, y) for (x, _), y in zip(entries, chain)):
                    bad = ("callback-state", "a state handed to the call-back is not the chain entry at its index")
                if bad:
                    found.note(bad[0], label, "warmup(%d);sample(%d), plain-function call-back by route %s: %s" % (kw_, n_, route, bad[1]),
                               kind=kind)
                    ref = None
                    break
                continue
            bad = _log_diff(entries, ref[0])
            if bad is None:
                d = _twin_diff((chain, state, rng), ref[1:])
                if d is not None:
                    bad = ("chain", "%s (compared: the same run with a plain-function call-back)" % d[1])
            if bad:
                found.note(bad[0], label, "warmup(%d);sample(%d) with a call-back of kind '%s' given by route '%s': %s (%d transitions "
                           "were made)" % (kw_, n_, kind, route, bad[1], kw_ + n_), kind=kind)
    f = found.first()
    if f:
        facet, label, msg, focus = f
        res.fail("C14|%s|callback-kind|%s,callback=%s" % (loop_comp if facet in LOOP_FACETS else comp, facet,
                                                           focus.get("kind", "function")),
                 "%s (set-up %s, seed %d)" % (msg, setup, seed), focus=focus)
    res.outcomes.add("%s:callback-kinds:moved=%s" % (setup, moved))
    if not invoked:
        res.nontrivial = False


# ----------------------------------------------------------------------------------------
# tunable constructor arguments (scale / step size) x their representation; the caller's array objects are tracked
# ----------------------------------------------------------------------------------------
ARG_REPS = ("float", "float64", "0-d", "1-element", "vector")


def _rep(rep, val, dim):
    """The value `val` of a tunable argument in the given representation (None: not applicable)."""
    if rep == "float":
        return float(val)
    if rep == "float64":
        return np.float64(val)
    if rep == "0-d":
        return np.array(float(val))
    if rep == "1-element":
        return np.array([float(val)])
    if rep == "vector":
        return None if dim < 2 else float(val) * np.array([1.0, 0.5, 0.75, 0.625])[:dim]
    raise ValueError(rep)


def _copy_arg(a):
    return np.array(a, copy=True) if isinstance(a, np.ndarray) else a


def _snap(a):
    """Comparable content of an object the caller handed over (bytes for arrays)."""
    if isinstance(a, np.ndarray):
        return (a.dtype.str, a.shape, a.tobytes())
    return repr(a)


def _twin_run(s, seed, k, n, reinit):
    """(chain, state dictionary, generator position) of warmup(k);sample(n) of one stateful sampler object on the stream `seed`;
    the object is re-initialised first (reinit) or used as constructed (initialised lazily by the first call)."""
    _seed_streams(seed)
    if reinit:
        s.reinitialize()
    if k:
        s.warmup(k)
    if n:
        s.sample(n)
    return (_chain_of(s.get_samples()), {key: _val(x) for key, x in s.get_state()["state"].items()}, _rng_state())


def _twin_diff(got, want):
    """First difference between two observations of _twin_run -> (facet, message) or None."""
    if len(got[0]) != len(want[0]):
        return "length", "recorded %d states, the reference %d" % (len(got[0]), len(want[0]))
    if not _eq_chain(got[0], want[0]):
        d = next(i for i, (x, y) in enumerate(zip(got[0], want[0])) if not _same(x, y))
        return "chain", "state %d is %s, in the reference run %s" % (d, got[0][d], want[0][d])
    if sorted(got[1]) != sorted(want[1]):
        return "state-keys", "state dictionary keys %s vs %s" % (sorted(got[1]), sorted(want[1]))
    key = next((key for key in sorted(want[1]) if not _same(got[1][key], want[1][key])), None)
    if key is not None:
        return "state:" + key, "state dictionary entry %r is %r, the reference has %r" % (key, got[1][key], want[1][key])
    if got[2] != want[2]:
        return "stream", _rng_diff(got[2], want[2])
    return None


def _tunable_stateful():
    """class -> (target id, other constructor arguments, tunable argument, value, (HybridGibbs set-up, parameter) in which the
    class is a block sampler).  Every class of cuqi.experimental.mcmc with a scale / step-size argument."""
    return {
        "MH": ("gauss", lambda: dict(), "scale", 0.9, ("HybridGibbs/hier_mh", "d")),
        "CWMH": ("gauss", lambda: dict(), "scale", 0.9, ("HybridGibbs/direct", "x")),
        "PCN": ("post", lambda: dict(), "scale", 0.15, ("HybridGibbs/hier_mh", "s")),
        "ULA": ("gauss", lambda: dict(), "scale", 0.2, ("HybridGibbs/hier_mh-ula", "x")),
        "MALA": ("gauss", lambda: dict(), "scale", 0.8, ("HybridGibbs/hier_mh", "x")),
        "NUTS": ("gauss", lambda: dict(max_depth=3), "step_size", 0.1, ("HybridGibbs/hier_mh-nuts", "x")),
        "RegularizedLinearRTO": ("reg", lambda: dict(maxit=25), "stepsize", 0.05, ("HybridGibbs/reg_hier", "x")),
    }


TUNABLE_USES = ("warmup", "sample", "warmup+sample", "gibbs-block")
TUNABLE_RUN = (3, 4)            # compared run warmup(3);sample(4): tuning fires after every warm-up step
TUNABLE_FACETS = ["caller-array-altered", "reinitialize", "second-sampler", "raises"]


def eval_tunable_stateful(cell, res):
    """Stateful class x representation of its tunable argument x use of sampler A.  The caller keeps the objects `a` (the
    argument) and `ip` (the initial point) it hands to the constructors of A and of a second sampler B (built before A
    runs).  After construction, after the use of A, after A.reinitialize() + run and after the run of B the caller's objects
    hold the bytes they were created with; the re-initialised A and the untouched B each make the run of a sampler freshly
    constructed from COPIES of the arguments, on the same stream (chain, state dictionary, generator position)."""
    from cuqi.experimental import mcmc
    cls, cat, seed = cell["cls"], cell["cat"], cell["seed"]
    tid, kwf, arg, val, (hsetup, hpar) = _tunable_stateful()[cls]
    comp = "cuqi.experimental.mcmc." + cls
    C = getattr(mcmc, cls)
    k, n = TUNABLE_RUN
    found = _Found(TUNABLE_FACETS)
    moved = False
    ip0 = np.array(PROBE_IP[tid], dtype=float)
    dim = ip0.size

    def snaps(objs, pristine, where, label, rep, use):
        for name, obj in objs.items():
            if _snap(obj) != pristine[name]:
                found.note("caller-array-altered", label, "the caller's object handed over as %s (created as %s) holds %r %s"
                           % (name, _describe(pristine[name]), obj, where), rep=rep, use=use)
                return False
        return True

    for rep in ARG_REPS:
        # ---------------- stand-alone uses
        a0 = _rep(rep, val, dim)
        if a0 is None:
            continue
        res.count("tunable-rep:%s" % rep)
        try:
            want = _twin_run(C(TARGETS[tid](cat), initial_point=ip0.copy(), **{arg: _copy_arg(a0)}, **kwf()), seed, k, n, False)
        except Exception as e:          # this representation is not accepted by the class
            res.refused += 1
            res.outcomes.add("%s:%s=%s:refused:%s" % (cls, arg, rep, type(e).__name__))
            want = None
        if want is not None:
            res.transitions += 2
            moved = moved or len({tuple(np.round(x, 12)) for x in want[0]}) > 1
            res.outcomes.add("%s:%s=%s:accepted" % (cls, arg, rep))
        for use in TUNABLE_USES[:3]:
            if want is None:
                break
            label = "%s,%s" % (rep, use)
            res.state(("tunable", arg, rep, use))
            objs = {arg: _copy_arg(a0), "initial_point": ip0.copy()}
            pristine = {name: _snap(o) for name, o in objs.items()}
            try:
                A = C(TARGETS[tid](cat), initial_point=objs["initial_point"], **{arg: objs[arg]}, **kwf())
                B = C(TARGETS[tid](cat), initial_point=objs["initial_point"], **{arg: objs[arg]}, **kwf())
                ok = snaps(objs, pristine, "after the construction of two samplers", label, rep, use)
                _seed_streams(seed + 1)
                if use == "warmup":
                    A.warmup(3)
                elif use == "sample":
                    A.sample(2)
                else:
                    A.warmup(2)
                    A.sample(1)
                res.transitions += 2
                ok = ok and snaps(objs, pristine, "after %s of sampler A" % use, label, rep, use)
                got = _twin_run(A, seed, k, n, True)
                res.transitions += 3
                res.traces += 1
                res.evaluations += 2
                d = _twin_diff(got, want)
                if d:
                    found.note("reinitialize:" + d[0], label, "sampler A constructed with %s = %r (%s), used by %s and re-initialised "
                               "does not make the run warmup(%d);sample(%d) of a sampler freshly constructed from a copy of the "
                               "arguments: %s" % (arg, a0, rep, use, k, n, d[1]), rep=rep, use=use)
                ok = ok and snaps(objs, pristine, "after %s; reinitialize(); warmup(%d); sample(%d) of sampler A" % (use, k, n),
                                  label, rep, use)
                gotB = _twin_run(B, seed, k, n, False)
                res.transitions += 2
                res.traces += 1
                res.evaluations += 2
                d = _twin_diff(gotB, want)
                if d:
                    found.note("second-sampler:" + d[0], label, "sampler B, constructed from the same objects (%s = %r, %s) as A "
                               "before A was used (%s), does not make the run warmup(%d);sample(%d) of a sampler constructed from a "
                               "copy of the arguments: %s" % (arg, a0, rep, use, k, n, d[1]), rep=rep, use=use)
                if ok:
                    snaps(objs, pristine, "after the run of sampler B", label, rep, use)
            except Exception as e:
                found.note("raises", label, "%s = %r (%s), use %s: %s: %s; a sampler constructed from a copy of the arguments makes "
                           "warmup(%d);sample(%d)" % (arg, a0, rep, use, type(e).__name__, str(e)[:140], k, n), rep=rep, use=use)
        # ---------------- use as a block sampler of HybridGibbs (the block samplers remain the caller's objects)
        use = "gibbs-block"
        label = "%s,%s" % (rep, use)
        spec, steps = _hybrid_spec(hsetup)
        bkw = dict(spec[hpar][1])
        hval = bkw.pop(arg, val)
        hip = np.atleast_1d(np.asarray(bkw.pop("initial_point"), dtype=float)).copy()
        b0 = _rep(rep, hval, hip.size)
        if b0 is None:
            continue
        res.state(("tunable", arg, rep, use))

        def block(a_, ip_):
            return C(initial_point=ip_, **{arg: a_}, **bkw)

        objs = {arg: _copy_arg(b0), "initial_point": hip.copy()}
        pristine = {name: _snap(o) for name, o in objs.items()}
        try:                # reference: the Gibbs run with a block constructed from copies, and that block's conditional target
            strategy, _ = _hybrid_strategy(hsetup)
            strategy[hpar] = block(_copy_arg(b0), hip.copy())
            g = _make_hybrid(hsetup, cat, strategy)
            _seed_streams(seed + 1)
            g.warmup(3)
            g.sample(1)
            twin = block(_copy_arg(b0), hip.copy())
            twin.target = strategy[hpar].target
            wantb = _twin_run(twin, seed, BLOCK_RUN[0], BLOCK_RUN[1], False)
        except Exception as e:
            res.refused += 1
            res.outcomes.add("%s:%s=%s:gibbs-block-refused:%s" % (cls, arg, rep, type(e).__name__))
            continue
        res.transitions += 4
        res.outcomes.add("%s:%s=%s:gibbs-block-accepted" % (cls, arg, rep))
        try:
            strategy, _ = _hybrid_strategy(hsetup)
            A = strategy[hpar] = block(objs[arg], objs["initial_point"])
            B = block(objs[arg], objs["initial_point"])
            g = _make_hybrid(hsetup, cat, strategy)
            _seed_streams(seed + 1)
            g.warmup(3)
            g.sample(1)
            res.transitions += 2
            ok = snaps(objs, pristine, "after HybridGibbs.warmup(3);sample(1) with sampler A as the block of %r" % hpar, label, rep, use)
            got = _twin_run(A, seed, BLOCK_RUN[0], BLOCK_RUN[1], True)
            res.traces += 1
            res.evaluations += 2
            d = _twin_diff(got, wantb)
            if d:
                found.note("reinitialize:" + d[0], label, "sampler A constructed with %s = %r (%s), used as the block of %r in "
                           "HybridGibbs.warmup(3);sample(1) (set-up %s) and re-initialised does not make the run of a sampler "
                           "freshly constructed from a copy of the arguments on the same conditional target: %s"
                           % (arg, b0, rep, hpar, hsetup, d[1]), rep=rep, use=use)
            B.target = A.target
            gotB = _twin_run(B, seed, BLOCK_RUN[0], BLOCK_RUN[1], False)
            res.traces += 1
            res.evaluations += 2
            d = _twin_diff(gotB, wantb)
            if d:
                found.note("second-sampler:" + d[0], label, "sampler B, constructed from the same objects (%s = %r, %s) as the Gibbs "
                           "block A before the Gibbs run (set-up %s), does not make the run of a sampler constructed from a copy of "
                           "the arguments: %s" % (arg, b0, rep, hsetup, d[1]), rep=rep, use=use)
            if ok:
                snaps(objs, pristine, "after the stand-alone runs of the re-initialised block A and of B", label, rep, use)
        except Exception as e:
            found.note("raises", label, "%s = %r (%s), use as Gibbs block (set-up %s): %s: %s; the same with a block constructed "
                       "from a copy of the arguments runs" % (arg, b0, rep, hsetup, type(e).__name__, str(e)[:140]), rep=rep, use=use)
    f = found.first()
    if f:
        facet, label, msg, focus = f
        res.fail("C14|%s|tunable-argument|%s,arg=%s" % (comp, facet, arg), "%s (class %s, seed %d)" % (msg, cls, seed), focus=focus)
    if not moved:
        res.nontrivial = False


def _describe(snap):
    if isinstance(snap, tuple):
        return "%s%s %s" % (snap[0], snap[1], np.frombuffer(snap[2], dtype=np.dtype(snap[0])).reshape(snap[1]))
    return snap


def _tunable_legacy():
    """class -> (target id, other constructor arguments, tunable argument, value, initial point).  Every class of cuqi.sampler
    with a scale / step-size argument."""
    return {
        "MH": ("gauss", lambda: dict(), "scale", 0.9, _U2[0]),
        "CWMH": ("gauss", lambda: dict(), "scale", 0.9, _U2[0]),
        "pCN": ("post", lambda: dict(), "scale", 0.3, _U2[0]),
        "ULA": ("gauss", lambda: dict(), "scale", 0.2, _U2[0]),
        "MALA": ("gauss", lambda: dict(), "scale", 0.8, _U2[0]),
        "NUTS": ("gauss", lambda: dict(max_depth=3), "adapt_step_size", 0.35, _U2[0]),
        "RegularizedLinearRTO": ("reg", lambda: dict(maxit=25), "stepsize", 0.05, _P2[0]),
    }


def eval_tunable_stateless(cell, res):
    """Stateless class x representation of its tunable argument x (sample, sample_adapt).  The caller hands the objects `a`
    (the argument) and `x0` to the constructors of sampler A and of a second sampler B; after construction, after A's run
    (on another stream) and after B's run the objects hold the bytes they were created with, and B's run is the run of a
    sampler constructed from copies of the arguments, on the same stream."""
    import cuqi
    cls, cat, seed = cell["cls"], cell["cat"], cell["seed"]
    tid, kwf, arg, val, x0 = _tunable_legacy()[cls]
    comp = "cuqi.sampler." + cls
    C = getattr(cuqi.sampler, cls)
    found = _Found(TUNABLE_FACETS)
    moved = False

    def go(s, sd, method, N, Nb):
        _seed_streams(sd)
        return _chain_of(getattr(s, method)(N, Nb))

    for rep in ARG_REPS:
        a0 = _rep(rep, val, x0.size)
        if a0 is None:
            continue
        res.count("tunable-rep:%s" % rep)
        for method, N, Nb in CB_LEGACY_RUNS:
            label = "%s,%s" % (rep, method)
            res.state(("tunable", arg, rep, method))
            try:
                want = go(C(TARGETS[tid](cat), x0=x0.copy(), **{arg: _copy_arg(a0)}, **kwf()), seed, method, N, Nb)
            except Exception as e:
                res.refused += 1
                res.outcomes.add("%s:%s=%s:%s:refused:%s" % (cls, arg, rep, method, type(e).__name__))
                continue
            res.transitions += N + Nb - 1
            res.outcomes.add("%s:%s=%s:%s:accepted" % (cls, arg, rep, method))
            moved = moved or len({tuple(np.round(x, 12)) for x in want}) > 1
            objs = {arg: _copy_arg(a0), "x0": x0.copy()}
            pristine = {name: _snap(o) for name, o in objs.items()}

            def snaps(where):
                for name, obj in objs.items():
                    if _snap(obj) != pristine[name]:
                        found.note("caller-array-altered", label, "the caller's object handed over as %s (created as %s) holds %r %s"
                                   % (name, _describe(pristine[name]), obj, where), rep=rep, method=method)
                        return False
                return True

            try:
                A = C(TARGETS[tid](cat), x0=objs["x0"], **{arg: objs[arg]}, **kwf())
                B = C(TARGETS[tid](cat), x0=objs["x0"], **{arg: objs[arg]}, **kwf())
                ok = snaps("after the construction of two samplers")
                go(A, seed + 1, method, N, Nb)
                res.transitions += N + Nb - 1
                ok = ok and snaps("after %s(%d, %d) of sampler A" % (method, N, Nb))
                got = go(B, seed, method, N, Nb)
                res.transitions += N + Nb - 1
                res.traces += 1
                res.evaluations += 2
                if len(got) != len(want) or not _eq_chain(got, want):
                    found.note("second-sampler:chain", label, "sampler B, constructed from the same objects (%s = %r, %s) as A before A "
                               "made %s(%d, %d), does not return the chain of a sampler constructed from a copy of the arguments on "
                               "the same stream" % (arg, a0, rep, method, N, Nb), rep=rep, method=method)
                if ok:
                    snaps("after %s(%d, %d) of sampler B" % (method, N, Nb))
            except Exception as e:
                found.note("raises", label, "%s = %r (%s), %s(%d, %d): %s: %s; a sampler constructed from a copy of the arguments runs"
                           % (arg, a0, rep, method, N, Nb, type(e).__name__, str(e)[:140]), rep=rep, method=method)
    f = found.first()
    if f:
        facet, label, msg, focus = f
        res.fail("C14|%s|tunable-argument|%s,arg=%s" % (comp, facet, arg), "%s (class %s, seed %d)" % (msg, cls, seed), focus=focus)
    if not moved:
        res.nontrivial = False


# ----------------------------------------------------------------------------------------
# cells
# ----------------------------------------------------------------------------------------
SEEDS = [11, 23, 37]


def cells(tier, seed):
    cat = refs.cat(seed)
    quick = tier == "quick"
    ks = (0, 3) if quick else (0, 1, 2, 3)
    seeds = SEEDS[:1] if quick else SEEDS
    maxn = 4 if quick else 5
    out = []
    for setup in _stateful_setups():
        if setup.endswith("scalar_x0"):     # one witness cell: generator seed 0 rejects the first proposals
            out.append({"iface": "stateful", "setup": setup, "k": 0, "seed": 0, "cat": cat, "maxn": maxn, "maxdev": 2})
            continue
        for k in ks:
            for sd in seeds:
                out.append({"iface": "stateful", "setup": setup, "k": k, "seed": sd + int(seed), "cat": cat,
                            "maxn": maxn, "maxdev": 2})
    for setup in GIBBS_SETUPS:
        for k in ks:
            # scalar initial points: fixed generator seeds whose first PCN proposal is rejected (witness of a chain
            # that mixes a Python scalar with arrays), independent of VERIF_SEED
            for sd in ([5] if quick else [5, 13]) if setup.endswith("scalar_x0") else [x + int(seed) for x in seeds]:
                out.append({"iface": "hybridgibbs", "setup": setup, "k": k, "seed": sd, "cat": cat,
                            "maxn": maxn, "maxdev": 2})
    for setup in _legacy_setups():
        for sd in seeds:
            out.append({"iface": "stateless", "setup": setup, "seed": sd + int(seed), "cat": cat})
    for cls in _legacy_x0_setups():
        for sd in seeds:
            out.append({"iface": "stateless-x0", "cls": cls, "seed": sd + int(seed), "cat": cat})
    for setup in LEGACY_GIBBS:
        for sd in seeds:
            out.append({"iface": "gibbs", "setup": setup, "seed": sd + int(seed), "cat": cat, "maxn": maxn})
    # chain length x dimension product (recorded chain against the states seen at production)
    for setup in GIBBS_SETUPS:
        for sd in seeds:
            out.append({"iface": "record-hybridgibbs", "setup": setup, "seed": sd + int(seed), "cat": cat})
    for setup in _stateful_setups():
        for sd in seeds:
            out.append({"iface": "record-stateful", "setup": setup, "seed": sd + int(seed), "cat": cat})
    # the kind of callable handed over as call-back (one set-up per class of either interface)
    first = {}
    for setup, (cls, _, _) in _stateful_setups().items():
        first.setdefault(cls, setup)
    for sd in seeds:
        for cls in _legacy_x0_setups():
            out.append({"iface": "callback-stateless", "cls": cls, "seed": sd + int(seed), "cat": cat})
        for cls, setup in first.items():
            out.append({"iface": "callback-stateful", "setup": setup, "seed": sd + int(seed), "cat": cat})
        # representation of the tunable constructor arguments; the caller's array objects are tracked
        for cls in _tunable_stateful():
            out.append({"iface": "tunable-stateful", "cls": cls, "seed": sd + int(seed), "cat": cat})
        for cls in _tunable_legacy():
            out.append({"iface": "tunable-stateless", "cls": cls, "seed": sd + int(seed), "cat": cat})
    return out


def eval_cell(cell):
    res = CellResult(cell)
    {"stateful": eval_stateful, "hybridgibbs": eval_hybrid, "stateless": eval_legacy, "stateless-x0": eval_legacy_x0,
     "gibbs": eval_gibbs,
     "record-hybridgibbs": eval_record_hybrid, "record-stateful": eval_record_stateful,
     "callback-stateless": eval_callback_stateless, "callback-stateful": eval_callback_stateful,
     "tunable-stateful": eval_tunable_stateful, "tunable-stateless": eval_tunable_stateless}[cell["iface"]](cell, res)
    return res
