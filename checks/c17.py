"""C17 - shipped test problems match their documentation and are internally consistent.

E3 (configuration product vs. independent reference operators) + E2 (scripted random stream).

Per cell (one test problem + one option combination) the check decides on the real code
  (a) forward model == documented operator, on the complete parameter basis for linear models
      (explicit-index convolution with the documented boundary rule and PSF centre, Abel quadrature,
      Euler recurrence of the heat equation) and on a point lattice for the non-linear ones (Poisson, cubic); for the
      PDE problems with an observation_grid_map: the reference solution observed at the mapped points IN THE ORDER the
      map returned them (node values where the points are nodes, otherwise any member of the accepted interpolant
      family), and the range geometry's grid == the mapped grid in that order;
  (b) exactData == model(exactSolution);
  (c) the noise exactly: the constructor is re-run under a scripted stream whose single normal request is
      answered by 0 and by every basis vector e_i; data - exactData must be an affine map T z with zero
      offset and T T^T == the stated covariance (std^2 I, diag((std*exactData)^2), (||exactData||/SNR)^2 I);
  (d) model / data / likelihood / prior / posterior / get_components() refer to the same objects and
      posterior.logd(x) == reference Gaussian log-likelihood(stated noise) + prior.logd(x) on a point lattice.
  (f) histories: after ONE operation of the public interface (MAP, ML, sample_posterior, sample_prior - also through the
      MCMC fallback for priors that cannot be sampled directly -, UQ) on the live problem object, with the default prior
      and with priors assigned through ``problem.prior = ...``, everything the problem hands out (data everywhere, model,
      likelihood, prior, posterior evaluated on probe points) has the values it had before the operation.
  (g) user-supplied prior: for every problem whose constructor takes ``prior`` (Deconvolution1D incl. legacy form,
      Deconvolution2D, WangCubic) x prior family x the way the prior's name is given (the name of the problem's own default
      prior, explicit "x", another explicit name, unnamed = inferred from the caller's variable) x every noise type:
      construction succeeds (a raise is a verdict), likelihood / posterior are functions of the prior's variable, the
      prior handed out is the density that was passed, data == exactData + stated noise, and posterior.logd ==
      reference Gaussian log-likelihood (reference operator, stated noise) + reference log-prior (dense, from the
      family's documented density), positionally and by keyword.
No statistical test is involved anywhere.
"""
import hashlib
import contextlib
import io
import numpy as np
from vfw.core import CellResult, close, HarnessError
from vfw import refs
from vfw.stream import Stream
from checks import _tp_refs as tp

PROPERTY = "C17"
RULE = ("cells = test problem x constructor options (sub-products listed in BOUND; every keyword of every constructor "
        "signature in cuqi/testproblem/_testproblem.py is given its default and at least one non-default value); each "
        "*full* cell builds the problem n+3 times under a scripted normal stream (zero, every basis vector, one generic "
        "vector; n = data size), each *light* cell (the option-class cells whose new facet is not a noise option) twice "
        "(zero and one generic vector); every cell evaluates the forward model on the complete parameter basis (linear "
        "models) or a point lattice (Poisson1D, WangCubic, mapped fields) and the posterior/likelihood/prior on a point "
        "lattice; Heat1D / Poisson1D cells carry an observation_grid_map kind out of {none, ascending sub-grid by index, "
        "by location} and the widened classes {same number of points at other locations, off-node ascending, existing "
        "nodes in non-ascending order, off-node points in descending order, repeated nodes, a single point}: model output, "
        "exactData and data are compared entry by entry with the reference solution observed at the mapped points in the "
        "map's order, and the range geometry must carry exactly that grid; "
        "a cell is non-trivial when the problem was constructed, exactData is finite and not constant and (for "
        "noisy problems) the stream was asked for exactly one normal vector; *user-prior* cells (problem x prior family x "
        "name kind x noise type x option sub-product) build the problem under the scripted stream (zero and one generic "
        "vector, plus a default-prior sibling when the name is 'that of the default prior') and evaluate prior / "
        "likelihood / posterior on 6 points (origin, two basis vectors, two generic vectors - one outside the support of "
        "the Uniform prior -, one point next to the prior's mean) against dense references; *magnitude* cells (light) cross "
        "the noise level {2^-20, documented default, 2^20} with the problem size {small, Deconvolution1D ``dim`` left at "
        "its documented default 128 / Deconvolution2D 144 observations} and both noise types: forward on the complete "
        "basis, noise map, likelihood.logd and posterior.logd on the lattice against the dense reference (log-determinant "
        "by LU, never a product of variances); *PSF-magnitude* cells cross a user-supplied signed, non-point-symmetric ndarray "
        "PSF with an exact power-of-two factor s in {2^-40, 2^-30, 1, 2^30} (noise_std = 0.05 s) under a scale-homogeneous "
        "oracle: forward and adjoint on the complete basis, exactData, data (one generic normal vector) and "
        "posterior.gradient on 3 points must equal s x the dense references built from the UNSCALED PSF (adjoint "
        "reference: transpose of the assembled matrix for Deconvolution1D, the documented rotated-PSF convolution for "
        "Deconvolution2D; gradient = adjoint-reference (data - A x)/noise_std^2 + gradient of the Gaussian log-prior) and, "
        "differentially, s x the same quantities of the unscaled sibling problem to 1e-13")
BOUND = {
    "quick": "Deconvolution1D: dim {7,8} x PSF {gauss,moffat,defocus,custom asymmetric} x PSF_size {3,4,dim} x 5 BCs x "
             "noise {gaussian,scaledgaussian} x noise_std {0.01,0.1} (phantom sinc, default prior); + 10 phantoms x dim "
             "{7,8} x 2 noise types x BC {periodic,zero}; + 4 priors x 2 noise types x dim {7,8} x BC {periodic,mirror}; "
             "+ legacy form dim 8 x 4 PSFs x 2 noise types; + light option classes: PSF_size {default(None), dim+1, dim+2, "
             "2dim+1} x 4 PSFs (custom: array of that length) x 5 BCs x PSF_param {base, 4 x base} x dim {7,8}; "
             "PSF_param 4 x base x PSF_size {3,4,dim}; PSF_param default x PSF_size {3,default,dim+1} x 3 PSFs x 5 BCs; "
             "default phantom_param x 9 phantoms; + full cells with the docstring spellings of PSF / BC / noise_type / "
             "phantom (4 PSFs x 5 BCs x 2 noise types).  Deconvolution2D: dim {5,6} x 4 PSFs x PSF_size {3,4} x 5 BCs x 2 "
             "noise types (+ 2 priors x 2 noise types); + light: dim 5 x 4 PSFs x PSF_size {dim, dim+1, dim+2, default 21 "
             "with default PSF_param 2.56} x 5 BCs; PSF_param 4 x base and default x PSF_size {3,4}; phantom {default "
             "'satellite', 'camera', array of another size}; + docstring spellings 3 PSFs x 5 BCs.  Heat1D: dim {5,8} x "
             "field {none,KL,KL-3 modes,Step} x map {none,exp} x observation map {none,sub-grid} x SNR {200,50}; + light: "
             "(endpoint,max_time) in {(2.,.25),(2.,.5),(.5,.05),(.5,.1),(1.,.25),(int 2,.25)} x field {none,KL,Step} x "
             "observation map {none, by index, by location}; field {KL-3, Step default n_steps, KL_Full default / params, "
             "CustomKL params, Geometry objects StepExpansion / Continuous1D} x map {none, exp+imap, x^2+.5 without imap} "
             "(endpoint 1; map none also endpoint 2); user exactSolution x 3 fields x 2 maps; + widened observation maps: 12 "
             "maps {compress, shrink, mid-points, reversed, last three reversed, three nearest ranked by distance, "
             "permutation, off-node descending, every second node twice, (a,b,a), one node, one off-node point} x dim {5,8} "
             "x (endpoint,max_time) {(1.,.1),(2.,.25)} x field {none,KL,Step} (light) and x dim 5, field none (full "
             "noise identification).  Poisson1D: dim {5,8} x 4 fields x observation map "
             "x SNR; + light: endpoint {2., .5, int 2} x source {custom, default, linear} x 3 observation maps x field "
             "{none,Step} (int 2: none); 9 field/map variants x endpoint {1,2}; user exactSolution; + the 12 widened observation maps x dim {5,8} x "
             "endpoint {1.,2.} x field {none,KL+exp,Step} with the three sources in rotation (light) and x dim 5, field "
             "none (full).  Abel1D: dim {4,7} x 4 fields x SNR "
             "{100,20}; + endpoint {2., .5, int 2, 1.} x 11 field/map variants.  WangCubic: noise_std {1,.5,2.} x data x prior.  "
             "Histories (one operation on the live object, components before == after): 7 problems (Deconvolution1D dim 8, "
             "legacy dim 8, Deconvolution2D dim 4, Heat1D / Poisson1D / Abel1D dim 5, WangCubic) x default prior x {MAP, ML, "
             "sample_posterior(20), sample_prior(20)} (+ UQ(20) for Deconvolution1D, Abel1D, WangCubic); x assigned LMRF / "
             "CMRF prior x sample_prior (MCMC fallback); assigned non-zero-mean Gaussian prior x {MAP, sample_posterior} "
             "for Deconvolution1D / Abel1D.  User-supplied prior: prior family {Gaussian (non-zero mean, non-constant "
             "variances), GMRF, LMRF, CMRF (zero boundary, non-zero location), Laplace, Uniform} x name kind {name of the "
             "default prior, 'x', 'z', inferred from the caller's variable} x [Deconvolution1D dim 8 x noise {gaussian, "
             "scaledgaussian} x (PSF, PSF_size, BC) in {(gauss,3,periodic), (custom,4,zero)}; legacy form dim 8 PSF gauss x 2 "
             "noise types; Deconvolution2D dim 4 (custom 3x3 PSF, Neumann) x 2 noise types x prior geometry {Image2D, "
             "default}; WangCubic noise_std {1,.5} x data {default, 2.5}].  Magnitude facet (light): Deconvolution1D [dim 8 x noise_std {2^-20, 2^20}; dim left at its "
             "default 128 x noise_std {2^-20, 0.01, 2^20}] x noise {gaussian, scaledgaussian} x (PSF, PSF_size, BC) in "
             "{(gauss,5,periodic), (custom,4,zero)} (phantom gauss); Deconvolution2D [dim 5 x noise_std {2^-20, 2^20}; dim "
             "12 x noise_std {2^-20, 0.0036, 2^20}] x 2 noise types x {(gauss,3,periodic), (custom 4x4,neumann)}.  PSF-magnitude "
             "facet: custom signed non-symmetric ndarray PSF x s {2^-40, 2^-30, 1, 2^30} x all 5 BCs x [Deconvolution1D "
             "(dim, PSF length) {(8,4), (7,3)}; Deconvolution2D (dim, PSF side) {(4,3), (4,4)}], Gaussian noise 0.05 s, "
             "non-zero-mean Gaussian prior.",
    "thorough": "Deconvolution1D full product dim {7,8,16} x 4 PSFs x PSF_size {3,4,5,dim} x 5 BCs x 10 phantoms x 2 "
                "noise types x 2 noise_std, + 4 priors x 2 noise types x 2 std x 3 dims x 5 BCs x {gauss,custom}; legacy "
                "dims {8,16}; light option classes as quick with dims {7,8,16}, PSF_size {default, dim+1, dim+2, dim+3, "
                "2dim, 2dim+1, 3dim, 3dim+1} and both noise types; Deconvolution2D dim {5,6,8} x 4 PSFs x PSF_size "
                "{3,4,5} x 5 BCs x 2 noise types x 2 noise_std x 2 phantoms, light classes for dims {5,6}; PDE problems "
                "and Abel1D as quick with dims {5,8,12} / {4,7,12} (full widened-observation-map cells for dims {5,8}); histories: full product 7 problems x prior {default, "
                "assigned Gaussian, LMRF, CMRF} x {MAP, ML, sample_posterior, sample_prior, UQ}; user-supplied prior: 6 "
                "families x 4 name kinds x [Deconvolution1D dims {7,8,16} x 2 noise types x PSF {gauss, custom} (size 4) x "
                "5 BCs; legacy dims {8,16} x PSF {gauss, custom} x 2 noise types; Deconvolution2D dims {4,5} x PSF {gauss, "
                "custom} (size 3) x 5 BCs x 2 noise types x 2 prior geometries; WangCubic as quick]; magnitude facet: "
                "as quick with 4 PSFs x 5 BCs (Deconvolution1D, PSF_size {5,4}) / {gauss, custom} x 5 BCs (Deconvolution2D); "
                "PSF-magnitude facet as quick plus Deconvolution1D {(16,5), (8,8)}, Deconvolution2D {(5,5), (6,4), (5,6)}",
}
ASSUMPTIONS = [
    "documented PSFs are read as: Gaussian exp(-x^2/(2 s^2)), Moffat (1+x^2/s^2)^-1, out-of-focus = indicator of the disc "
    "|x| <= R, sampled at integer offsets from the convolution centre size//2 and normalised to unit sum; PSF_size is "
    "the number of samples whatever its relation to dim (a PSF longer than the signal folds back through the boundary "
    "rule: the index formulas of the reference are periodic in the documented extension)",
    "boundary rules are the scipy.ndimage mode semantics the docstring points to (zero=constant, periodic=wrap, mirror, "
    "reflect, nearest); Deconvolution2D 'Neumann (reflective)' = reflection about the edge, 'Mirror' = about the last "
    "pixel centre; the index formulas are cross-checked once per run against scipy.ndimage (self-test)",
    "SNR noise level: sigma = ||exactData||/SNR and ||exactData||/(sqrt(m) SNR) are both accepted (the docstring only "
    "says 'signal-to-noise ratio'); Poisson1D mesh width: endpoint/N and endpoint/(N+1) are both accepted; the nodes "
    "on which the Poisson source term is evaluated (observed through a recording source function) may be any of three "
    "readings of 'interior nodes' but must be the solution grid the problem hands out",
    "time steps of Heat1D are taken from the constructed problem (their number is not documented) but must run from 0 "
    "to max_time; the solution grid must be the dim interior nodes of (0, endpoint); the solve itself is an independent "
    "dense reference",
    "observation_grid_map (documented as 'returns a sub-grid of the nodes where observations are available'; the PDE "
    "classes document grid_obs as 'the grid on which the observed solution should be interpolated'): entry i of model "
    "output / exactData / data belongs to point i of the mapped grid as returned (order and repetitions kept), which "
    "must be the grid of the range geometry.  Points that are solution nodes (|distance| <= 1e-12): the nodal value "
    "of the independent reference solve is the only admissible answer.  Off-node points: the interpolation rule is "
    "undocumented - accepted family = piecewise linear (own arithmetic), quadratic spline, cubic not-a-knot spline, "
    "natural cubic spline through all nodes (scipy.interpolate's general spline constructors are the trusted base), "
    "evaluated point by point.  All catalogue points lie inside the hull of the nodes (extrapolation not covered); a "
    "map returning a bare scalar is not covered.  A constructor that refuses a map (Heat1D refuses every non-ascending "
    "point order: its tensor-product spline evaluation demands sorted points) is a counted refusal",
    "Abel1D: midpoint quadrature of int_0^s f(t)/sqrt(s-t) dt on [0, endpoint] with dim cells (h = endpoint/dim)",
    "field parameterisations from the geometry docstrings (KLExpansion, KLExpansion_Full - its default cor_len / nu are "
    "accepted in the reading of the signature and of the docstring -, StepExpansion); CustomKL has no closed form: the "
    "reference is the parameterisation of an independently constructed cuqi.geometry.CustomKL(grid, **field_params) "
    "(differential oracle for the wiring of grid and field_params, the geometry itself is not judged here)",
    "default PSF_param (documented only as 'depends on PSF'): the operator must be the convolution with a member of the "
    "documented PSF family for some parameter (solved from the two central taps); default phantom_param and named / "
    "resized 2-D phantoms: pixel values undocumented, only size, exactData == model(exactSolution), noise and posterior "
    "are decided",
    "light cells decide the noise map on 0 and one generic normal vector only (elementwise +-sqrt(stated variance) * z); "
    "the complete-basis identification of the noise map is done in the full cells over all noise options",
    "a constructor that raises is counted as a refusal (not judged), except that the docstring spelling of an option value "
    "must not be refused when its lower-case spelling is accepted",
    "the law of numpy's standard normal generator is the trusted base: the noise is decided through its affine image",
    "user-supplied prior: the constructors document ``prior : cuqi.distribution.Distribution`` without restricting family, "
    "geometry or name, and cuqi documents that an unnamed density takes the name of the caller's variable; every cell of "
    "the stated product is therefore demanded to construct (a raise is the verdict 'construct-raises', not a refusal; "
    "only the default-prior sibling used to read off the default name may refuse).  Reference log-priors are the "
    "documented densities in dense numpy (checks/_tp_refs.user_prior_logd): N(mean, diag var); GMRF order 1, zero "
    "boundary = N(mean, (prec D^T D)^-1); LMRF / CMRF = i.i.d. Laplace / Cauchy on the zero-boundary differences (both "
    "directions for an Image2D geometry, a chain for a default geometry); i.i.d. Laplace; Uniform box (log-density -inf "
    "outside, where the posterior must be -inf as well).  Not covered: hierarchical / conditional priors, priors of a "
    "wrong dimension, the private problems _Deblur / _Deconv_1D, priors assigned after construction under another name "
    "than the likelihood's parameter (the assigned-prior histories use the problem's own parameter name)",
    "magnitude facet: noise_std is documented as a 'scalar' without range, so 2^-20 and 2^20 are legal levels; the "
    "log-densities themselves stay far inside the double range (|logd| < 1e16), only intermediate products / powers of "
    "the variances would not; data - exactData is compared with the stated noise up to the rounding of forming the "
    "difference (8 eps (|exactData| + |noise|)); the default size of Deconvolution2D (128 x 128) is not covered - 12 x "
    "12 stands for 'more observations than the product of their variances can carry'",
    "PSF-magnitude facet: a custom PSF is documented as 'ndarray' without normalisation or range, so P x 2^-40 ... 2^30 are "
    "legal PSFs and the documented operator (convolution with the stated PSF) is homogeneous of degree one in it; the "
    "factors are exact powers of two so that scaling commutes with every rounding of the FFT / matrix route (differential "
    "tolerance 1e-13, reference tolerance 1e-9).  Adjoint of Deconvolution2D: the documented mechanism is the same padded "
    "convolution with the PSF rotated by 180 degrees; this is the exact transpose of the forward matrix only for odd PSF "
    "sides under zero / periodic boundaries - for even sides or reflective boundaries the rotated-PSF operator is taken "
    "as the documented adjoint (the outcome 'adjoint-reference:rotated-PSF(not the transpose)' records those cells; "
    "<Ax,b> == <x,A*b> is NOT demanded there), and posterior.gradient is demanded to be that adjoint applied to the "
    "residual.  Not covered: scales at which s x P or noise_std^2 leave the normal double range, non-Gaussian priors, "
    "scaledgaussian noise in these cells",
    "history cells run the operation with numpy's global generator as re-seeded by the runner (the values drawn are not "
    "judged, only the problem's components before / after); an operation that raises counts as refused but must leave "
    "the components unchanged as well; histories of length one only (plus the after-MAP probe of the full "
    "Deconvolution1D cells)",
]

# (h) magnitude facet: noise levels (dyadic, far below / at / far above the documented defaults) and the option
#     sub-product they are crossed with in the quick tier
MAG_LEVELS = [("2^-20", 2.0 ** -20), ("default", 0.01), ("2^20", 2.0 ** 20)]
MAG_D1_OPTS = [("gauss", 5, "periodic"), ("custom", 4, "zero")]
MAG_D2_OPTS = [("gauss", 3, "periodic"), ("custom", 4, "neumann")]
PHANTOMS = ["gauss", "sinc", "vonmises", "square", "hat", "bumps", "derivgauss", "pc", "skyscraper", "array"]
PRIORS = ["default", "gaussian-u", "gmrf", "lmrf"]
NOISE = ["gaussian", "scaledgaussian"]
_SELFTEST = []


# ----------------------------------------------------------------------------------------
# enumeration
# ----------------------------------------------------------------------------------------
def cells(tier, seed):
    if not _SELFTEST:
        bad = tp.selftest()
        if bad:
            raise HarnessError("reference convolution disagrees with scipy.ndimage semantics: %r" % (bad[:5],))
        _SELFTEST.append(True)
    k = refs.cat(seed)
    T = tier != "quick"
    out = []

    def d1(dim, psf, size, bc, phantom="sinc", noise="gaussian", std=0.01, prior="default", **extra):
        c = {"fam": "d1", "dim": dim, "PSF": psf, "size": size, "BC": bc, "phantom": phantom, "noise": noise,
             "std": std, "prior": prior, "cat": k}
        c.update(extra)
        out.append(c)
    if not T:
        for dim in (7, 8):
            for psf in tp.PSF_NAMES:
                for size in (3, 4, dim):
                    for bc in tp.BC_1D:
                        for noise in NOISE:
                            for std in (0.01, 0.1):
                                d1(dim, psf, size, bc, noise=noise, std=std)
        for ph in PHANTOMS:
            for dim in (7, 8):
                for noise in NOISE:
                    for bc in ("periodic", "zero"):
                        d1(dim, "gauss", 3, bc, phantom=ph, noise=noise, std=0.05)
        for pr in PRIORS:
            for noise in NOISE:
                for dim in (7, 8):
                    for bc in ("periodic", "mirror"):
                        d1(dim, "custom", 4, bc, noise=noise, std=0.05, prior=pr)
    else:
        for dim in (7, 8, 16):
            for psf in tp.PSF_NAMES:
                for size in (3, 4, 5, dim):
                    for bc in tp.BC_1D:
                        for ph in PHANTOMS:
                            for noise in NOISE:
                                for std in (0.01, 0.1):
                                    d1(dim, psf, size, bc, phantom=ph, noise=noise, std=std)
        for pr in PRIORS:
            for noise in NOISE:
                for std in (0.01, 0.1):
                    for dim in (7, 8, 16):
                        for bc in tp.BC_1D:
                            for psf in ("gauss", "custom"):
                                d1(dim, psf, 4, bc, noise=noise, std=std, prior=pr)
    # --- Deconvolution1D option classes (light cells, see RULE): PSF_size default / above dim in both parities,
    #     PSF_param small / large / default, documented spellings, default phantom_param
    i = 0
    for dim in ((7, 8) if not T else (7, 8, 16)):
        above = (dim + 1, dim + 2, 2 * dim + 1) if not T else (dim + 1, dim + 2, dim + 3, 2 * dim, 2 * dim + 1,
                                                                         3 * dim, 3 * dim + 1)
        for psf in tp.PSF_NAMES:
            for size in (None,) + above:
                if psf == "custom" and size is None:
                    continue                      # an array PSF has no default size
                for bc in tp.BC_1D:
                    for pmul in ((1,) if psf == "custom" else (1, 4)):
                        for noise in (NOISE if T else (NOISE[i % 2],)):
                            i += 1
                            d1(dim, psf, size, bc, noise=noise, std=0.05, pmul=pmul, light=True)
        for psf in ("gauss", "moffat", "defocus"):
            for size in ((3, 4, dim) if not T else (3, 4, 5, dim)):
                for bc in tp.BC_1D:
                    i += 1
                    d1(dim, psf, size, bc, noise=NOISE[i % 2], std=0.05, pmul=4, light=True)
            for size in ((3, None, dim + 1) if not T else (3, 4, None, dim + 1)):
                for bc in tp.BC_1D:
                    i += 1
                    d1(dim, psf, size, bc, noise=NOISE[i % 2], std=0.05, defpar=True, light=True)
    i = 0
    for psf in tp.PSF_NAMES:
        for bc in tp.BC_1D:
            for noise in NOISE:
                i += 1
                # (scaled noise needs exact data without zeros: smooth positive phantoms only)
                ph = PHANTOMS[i % 9] if noise == "gaussian" else ("gauss", "sinc", "vonmises", "bumps")[i % 4]
                d1(8, psf, (3, 4)[i % 2], bc, phantom=ph, noise=noise, std=0.05, spell="doc")
    for ph in PHANTOMS[:-1]:
        d1(8, "gauss", 3, "periodic", phantom=ph, noise="gaussian", std=0.05, phdef=True, light=True)
    # --- (h) magnitude facet (light cells): noise level {2^-20, documented default 0.01, 2^20} x problem size {small,
    #     ``dim`` left at its documented default 128} x noise type - the per-observation variances and their number are
    #     such that products / powers of them leave the double range while every single quantity of the statement
    #     (operator, data, log-densities) stays moderate
    for dimdef in (False, True):
        for psf, size, bc in (MAG_D1_OPTS if not T else [(p, (5, 4)[j % 2], b) for p in tp.PSF_NAMES
                                                         for j, b in enumerate(tp.BC_1D)]):
            for noise in NOISE:
                for tag, std in MAG_LEVELS:
                    if tag == "default" and not dimdef:
                        continue                  # small dim x ordinary level: the cells above
                    d1(128 if dimdef else 8, psf, size, bc, phantom="gauss", noise=noise, std=std, light=True,
                       dimdef=dimdef, mag=tag)
    for dim in ((8,) if not T else (8, 16)):
        for psf in ("gauss", "sinc", "vonmises", "custom"):
            for noise in NOISE:
                out.append({"fam": "d1leg", "dim": dim, "PSF": psf, "noise": noise, "std": 0.05, "cat": k})
    for dim in ((5, 6) if not T else (5, 6, 8)):
        for psf in tp.PSF_NAMES:
            for size in ((3, 4) if not T else (3, 4, 5)):
                for bc in tp.BC_2D:
                    for noise in NOISE:
                        for std in ((0.05,) if not T else (0.01, 0.1)):
                            for ph in (("array",) if not T else ("array", "vector")):
                                out.append({"fam": "d2", "dim": dim, "PSF": psf, "size": size, "BC": bc, "noise": noise,
                                            "std": std, "prior": "default", "phantom": ph, "cat": k})
    for pr in ("gaussian-u", "gmrf"):
        for noise in NOISE:
            out.append({"fam": "d2", "dim": 5, "PSF": "custom", "size": 3, "BC": "neumann", "noise": noise, "std": 0.05,
                        "prior": pr, "phantom": "array", "cat": k})

    # --- Deconvolution2D option classes (light): PSF_size == dim / above dim / default (21), PSF_param large /
    #     default (2.56), documented spellings, phantom default / named / array of another size (resized)
    def d2(dim, psf, size, bc, noise, **extra):
        c = {"fam": "d2", "dim": dim, "PSF": psf, "size": size, "BC": bc, "noise": noise, "std": 0.05,
             "prior": "default", "phantom": "array", "cat": k}
        c.update(extra)
        out.append(c)
    i = 0
    for dim in ((5,) if not T else (5, 6)):
        for psf in tp.PSF_NAMES:
            for size in (dim, dim + 1, dim + 2, "default"):
                if psf == "custom" and size == "default":
                    continue
                for bc in tp.BC_2D:
                    i += 1
                    d2(dim, psf, size, bc, NOISE[i % 2], defpar=(size == "default"), light=True)
        for psf in ("gauss", "moffat", "defocus"):
            for size in (3, 4):
                for bc in tp.BC_2D:
                    i += 1
                    d2(dim, psf, size, bc, NOISE[i % 2], pmul=4, light=True)
                    if bc in ("zero", "neumann"):
                        d2(dim, psf, size, bc, NOISE[(i + 1) % 2], defpar=True, light=True)
    i = 0
    for psf in ("gauss", "moffat", "defocus"):
        for bc in tp.BC_2D:
            i += 1
            d2(5, psf, (3, 4)[i % 2], bc, NOISE[i % 2], spell="doc")
    for ph in ("default", "camera", "resized"):
        for noise in NOISE:
            d2(5, "custom", 3, "mirror", noise, phantom=ph, light=True)
    # --- (h) magnitude facet, Deconvolution2D: noise level x size {dim 5, dim 12 = 144 observations} x noise type
    for dim in (5, 12):
        for psf, size, bc in (MAG_D2_OPTS if not T else [(p, (3, 4)[j % 2], b) for p in ("gauss", "custom")
                                                         for j, b in enumerate(tp.BC_2D)]):
            for noise in NOISE:
                for tag, std in MAG_LEVELS:
                    if tag == "default" and dim == 5:
                        continue
                    d2(dim, psf, size, bc, noise, std=(0.0036 if tag == "default" else std), light=True, mag=tag)

    for dim in ((5, 8) if not T else (5, 8, 12)):
        for field in ("none", "KL", "KL-3", "Step"):
            for mp in ("none", "exp"):
                for obs in ("none", "sub"):
                    for snr in (200, 50):
                        out.append({"fam": "heat", "dim": dim, "field": field, "map": mp, "obs": obs, "SNR": snr, "cat": k})
        for field in ("none", "KL+exp", "Step", "Step+exp"):
            for obs in ("none", "sub"):
                for snr in (200, 50):
                    out.append({"fam": "poisson", "dim": dim, "field": field, "obs": obs, "SNR": snr, "cat": k})

    # --- widened observation_grid_map facet, full cells (noise map identified on the complete basis: e.g. two
    #     sensors on the same node carry independent noise)
    for dim in ((5,) if not T else (5, 8)):
        for obs in OBS_WIDE:
            out.append({"fam": "heat", "dim": dim, "field": "none", "map": "none", "obs": obs, "SNR": 200, "cat": k})
            out.append({"fam": "poisson", "dim": dim, "field": "none", "obs": obs, "SNR": 200, "cat": k})

    # --- PDE option classes (light): endpoint (float above / below 1, int), max_time, source, every field type with
    #     default and non-default field_params, map with and without imap, observation map by index / by location,
    #     user-supplied exactSolution
    def pde(fam, dim, field, obs="none", snr=200, **extra):
        c = {"fam": fam, "dim": dim, "field": field, "obs": obs, "SNR": snr, "cat": k, "light": True}
        if fam == "heat":
            c["map"] = extra.pop("map", "none")
        c.update(extra)
        out.append(c)
    i = 0
    for dim in ((5, 8) if not T else (5, 8, 12)):
        # (max_time chosen so that there are >= 4 time nodes: the sub-grid observation interpolates in time as well)
        for L, Tm in ((2.0, 0.25), (2.0, 0.5), (0.5, 0.05), (0.5, 0.1), (1.0, 0.25), (2, 0.25)):
            for field in ("none", "KL", "Step"):
                for obs in ("none", "sub", "mask"):
                    i += 1
                    pde("heat", dim, field, obs, (200, 50)[i % 2], L=L, T=Tm)
        for field in ("KL-3", "Step-default", "KLFull", "KLFull-p", "CustomKL-p", "geom:Step3", "geom:C1D"):
            for mp in ("none", "exp", "sq"):
                for L in ((1.0, 2.0) if (T or mp == "none") else (1.0,)):
                    i += 1
                    pde("heat", dim, field, "none", (200, 50)[i % 2], L=L, map=mp)
        for field in ("none", "KL", "Step"):
            for mp in ("none", "exp"):
                i += 1
                pde("heat", dim, field, ("none", "sub")[i % 2], 200, map=mp, xs=True)
        for L in (2.0, 0.5, 2):
            for src in ("custom", "default", "linear"):
                for obs in ("none", "sub", "mask"):
                    for field in (("none", "Step") if (T or L != 2) else ("none",)):
                        i += 1
                        pde("poisson", dim, field, obs, (200, 50)[i % 2], L=L, src=src)
        for field in ("KL-3+exp", "Step-default", "KLFull+exp", "KLFull-p+exp", "CustomKL-p+exp", "geom:Step3", "geom:C1D",
                      "KL+sq", "KL"):
            for L in (1.0, 2.0):
                i += 1
                pde("poisson", dim, field, "none", (200, 50)[i % 2], L=L, src=("custom", "default", "linear")[i % 3])
        for field in ("none", "KL+exp"):
            pde("poisson", dim, field, "sub", 200, xs=True)
        # widened observation_grid_map facet x end-point x field (see _OBS_CLASS)
        for obs in OBS_WIDE:
            for L, Tm in ((1.0, 0.1), (2.0, 0.25)):
                for fh, fp in (("none", "none"), ("KL", "KL+exp"), ("Step", "Step")):
                    i += 1
                    pde("heat", dim, fh, obs, (200, 50)[i % 2], L=L, T=Tm)
                    pde("poisson", dim, fp, obs, (200, 50)[i % 2], L=L, src=("custom", "default", "linear")[i % 3])
    for dim in ((4, 7) if not T else (4, 7, 12)):
        for field in ("none", "KL", "Step", "KL+exp"):
            for snr in (100, 20):
                out.append({"fam": "abel", "dim": dim, "field": field, "SNR": snr, "cat": k})
        # Abel1D option classes: endpoint x every field type (full noise identification: the problem is cheap)
        i = 0
        for L in (2.0, 0.5, 2, 1.0):
            for field in ("none", "KL", "KL-3", "Step", "Step-default", "CustomKL-p", "geom:Step3", "geom:C1D", "KL+exp",
                          "KL-3+sq", "Step+exp"):
                if L == 1.0 and field in ("none", "KL", "Step", "KL+exp"):
                    continue
                i += 1
                out.append({"fam": "abel", "dim": dim, "field": field, "SNR": (100, 20)[i % 2], "L": L, "cat": k})
    # --- histories: problem x prior (default / assigned) x ONE operation on the live object
    for pk in USE_PROBLEMS:
        for prk in USE_PRIORS:
            for op in USE_OPS:
                if not T and not (prk == "default" or (op == "sample_prior" and prk in ("lmrf", "cmrf")) or
                                  (prk == "gaussian" and op in ("MAP", "sample_posterior") and pk in ("d1", "abel"))):
                    continue
                if op == "UQ" and not (T or pk in ("d1", "abel", "wang")):
                    continue
                out.append({"fam": "use", "prob": pk, "prior": prk, "op": op, "cat": k})
    for std in (1, 0.5, 2.0):
        for data in (None, 2.5, 0, 0.0, -1.5):      # incl. the falsy observations 0 / 0.0
            for pr in ("default", "gaussian"):
                out.append({"fam": "wang", "std": std, "data": data, "prior": pr, "cat": k})
    # --- (g) user-supplied prior: every problem whose constructor takes ``prior`` x prior family x how the prior's
    #     name is given x every noise type x a sub-product of the other options
    for pfam in tp.PRIOR_FAMILIES:
        for nk in UP_NAMES:
            for noise in NOISE:
                for dim in ((8,) if not T else (7, 8, 16)):
                    for psf, size, bc in (UP_D1_OPTS if not T else
                                          [(p, 4, b) for p in ("gauss", "custom") for b in tp.BC_1D]):
                        out.append({"fam": "uprior", "prob": "d1", "pfam": pfam, "name": nk, "noise": noise, "dim": dim,
                                    "PSF": psf, "size": size, "BC": bc, "std": 0.05, "cat": k})
                    if dim != 7:
                        for psf in (("gauss",) if not T else ("gauss", "custom")):
                            out.append({"fam": "uprior", "prob": "d1leg", "pfam": pfam, "name": nk, "noise": noise,
                                        "dim": dim, "PSF": psf, "std": 0.05, "cat": k})
                for dim in ((4,) if not T else (4, 5)):
                    for psf, size, bc in (UP_D2_OPTS if not T else
                                          [(p, 3, b) for p in ("gauss", "custom") for b in tp.BC_2D]):
                        for pgeom in ("image2d", "default"):
                            out.append({"fam": "uprior", "prob": "d2", "pfam": pfam, "name": nk, "noise": noise,
                                        "dim": dim, "PSF": psf, "size": size, "BC": bc, "pgeom": pgeom, "std": 0.05,
                                        "cat": k})
            for std in (1, 0.5):
                for data in (None, 2.5):
                    out.append({"fam": "uprior", "prob": "wang", "pfam": pfam, "name": nk, "std": std, "data": data,
                                "cat": k})
    # --- (i) magnitude of a user-supplied PSF: custom signed non-symmetric ndarray PSF x exact power of two x BC
    for tag, _ in PSF_SCALES:
        for bc in tp.BC_1D:
            for dim, size in (((8, 4), (7, 3)) if not T else ((8, 4), (7, 3), (16, 5), (8, 8))):
                out.append({"fam": "psfmag", "prob": "d1", "dim": dim, "size": size, "BC": bc, "scale": tag, "cat": k})
        for bc in tp.BC_2D:
            for dim, size in (((4, 3), (4, 4)) if not T else ((4, 3), (4, 4), (5, 5), (6, 4), (5, 6))):
                out.append({"fam": "psfmag", "prob": "d2", "dim": dim, "size": size, "BC": bc, "scale": tag, "cat": k})
    return out


# ----------------------------------------------------------------------------------------
# helpers
# ----------------------------------------------------------------------------------------
def _arr(x):
    return np.asarray(x, dtype=float)


def _parity(s):
    return "even" if s % 2 == 0 else "odd"


def _param(cell):
    return [1.25, 2.0, 1.5][cell["cat"]] * cell.get("pmul", 1)


# the spellings used in the docstrings (the library is documented with these; option values are case-insensitive)
DOC_SPELL = {"gauss": "Gauss", "moffat": "Moffat", "defocus": "Defocus", "mirror": "Mirror", "reflect": "Reflect",
             "nearest": "Nearest", "neumann": "Neumann", "gaussian": "Gaussian", "scaledgaussian": "scaledGaussian",
             "vonmises": "vonMises", "derivgauss": "derivGauss"}


def _sp(cell, word):
    return DOC_SPELL.get(word, word) if cell.get("spell") == "doc" else word


def _sizetag(size, dim):
    """Class of a PSF_size w.r.t. the signal size: parity, and whether it exceeds dim / is the default."""
    if size is None or size == "default":
        return "default"
    return _parity(size) + (">dim" if size > dim else "")


def _make_prior(kind, dim, k, geometry=None):
    import cuqi
    kw = {} if geometry is None else {"geometry": geometry}
    if kind == "default":
        return None
    if kind == "gaussian-u":
        return cuqi.distribution.Gaussian(refs.dyadic_vec(dim, k, scale=0.125), 0.5 + 0.125 * np.arange(dim), name="u", **kw)
    if kind == "gmrf":
        return cuqi.distribution.GMRF(np.zeros(dim), 2.0, bc_type="zero", name="x", **kw)
    if kind == "lmrf":
        return cuqi.distribution.LMRF(0, 0.5, bc_type="zero", geometry=dim if geometry is None else geometry, name="x")
    raise ValueError(kind)


def _scripted(build, z):
    """Run the constructor with its normal requests answered by [z]; returns (problem, stream)."""
    s = Stream(normal=(lambda n, i: np.zeros(n)) if z is None else [np.asarray(z, float)])
    with s.installed():
        prob = build()
    return prob, s


def _columns(fn, n):
    cols = []
    for i in range(n):
        e = np.zeros(n)
        e[i] = 1.0
        cols.append(_arr(fn(e)).ravel())
    return np.array(cols).T


# ----------------------------------------------------------------------------------------
# (c) noise, decided exactly; (b) exact data; (d) components and posterior
# ----------------------------------------------------------------------------------------
def check_noise(res, comp, facet, build, cov_readings, what, light=False):
    """cov_readings(exactData) -> list of admissible covariance *vectors* (diagonals).  Returns (problem built with a
    generic z, variance vector actually realised or None).
    light=True (cells whose new facet is not a noise option): the noise map is probed with 0 and ONE generic normal
    vector z only; data - exactData must equal +-sqrt(stated variance) * z elementwise."""
    p0, s0 = _scripted(build, None)
    reqs = [r for r in s0.log if r["kind"] == "normal"]
    res.transitions += 1
    y0 = _arr(p0.exactData).ravel()
    d0 = _arr(p0.data).ravel()
    m = y0.size
    if len(s0.log) != 1 or len(reqs) != 1 or int(np.prod(reqs[0]["shape"])) != m:
        res.fail("C17|%s|noise-stream|%s" % (comp, what), "constructor drew %r from the random stream; one normal vector of "
                 "size %d (the noise) is the documented randomness" % ([(r["kind"], r.get("shape")) for r in s0.log], m))
        return p0, None
    if not np.all(np.isfinite(y0)):
        res.nontrivial = False
        res.outcomes.add("exactData-not-finite")
        return p0, None
    res.evaluations += 1
    if not close(d0, y0, 1e-12):
        res.fail("C17|%s|noise-mean|%s" % (comp, what), "with the normal draw answered by 0 the data differ from exactData by "
                 "up to %r (noise must have mean zero)" % float(np.max(np.abs(d0 - y0))), facet=facet)
        return p0, None
    if light:
        z = refs.dyadic_vec(m, res.cell["cat"] + 1)
        pz, sz = _scripted(build, z)
        res.transitions += 1
        res.evaluations += 1
        nz = _arr(pz.data).ravel() - _arr(pz.exactData).ravel()
        readings = cov_readings(y0)
        scale = max(float(np.max(np.abs(nz))), float(np.sqrt(np.max(np.abs(readings[0])))) * float(np.max(np.abs(z))), 1e-300)
        # (data - exactData is formed in floating point: rounding of size eps * |data| is not the library's doing)
        atol = 1e-9 + 8 * np.finfo(float).eps * float(np.max(np.abs(y0)) + np.max(np.abs(nz))) / scale
        hit = [i for i, v in enumerate(readings)
               if any(close(nz / scale, sg * np.sqrt(np.asarray(v, float)) * z / scale, 1e-9, atol=atol)
                      for sg in (1.0, -1.0))]
        if not hit:
            res.fail("C17|%s|noise-covariance|%s" % (comp, what),
                     "data - exactData for the scripted normal draw z is %r..., stated noise std * z = %r..." %
                     (nz[:4].tolist(), (np.sqrt(np.asarray(readings[0], float)) * z)[:4].tolist()), facet=facet)
            return pz, None
        res.outcomes.add("noise-level-reading:%d/%d" % (hit[0], len(readings)))
        res.outcomes.add("noise:%s:ok(light)" % what)
        return pz, np.asarray(readings[hit[0]], float).copy()
    T = np.zeros((m, m))
    for i in range(m):
        e = np.zeros(m)
        e[i] = 1.0
        pi, si = _scripted(build, e)
        res.transitions += 1
        T[:, i] = _arr(pi.data).ravel() - _arr(pi.exactData).ravel()
    z = refs.dyadic_vec(m, res.cell["cat"] + 1)
    pz, sz = _scripted(build, z)
    res.transitions += 1
    nz = _arr(pz.data).ravel() - _arr(pz.exactData).ravel()
    res.traces += 1
    if not close(nz, T @ z, 1e-9, atol=1e-9 * max(1e-300, float(np.max(np.abs(T))) * float(np.max(np.abs(z))))):
        res.fail("C17|%s|noise-affine|%s" % (comp, what), "data - exactData is not a linear image of the normal draw")
        return pz, None
    C = T @ T.T
    readings = cov_readings(y0)
    scale = max(float(np.max(np.abs(readings[0]))), 1e-300)
    hit = [i for i, v in enumerate(readings) if close(C / scale, np.diag(np.asarray(v, float)) / scale, 1e-9)]
    ok = bool(hit)
    res.evaluations += 1
    if ok:
        res.outcomes.add("noise-level-reading:%d/%d" % (hit[0], len(readings)))
    if not ok:
        res.fail("C17|%s|noise-covariance|%s" % (comp, what),
                 "covariance of data - exactData (T T^T, T identified on the complete basis) has diagonal %r..., stated "
                 "noise has variances %r..." % (np.diag(C)[:4].tolist(), np.asarray(readings[0])[:4].tolist()),
                 facet=facet, T=T if m <= 8 else T[:8, :8])
        return pz, None
    res.outcomes.add("noise:%s:ok" % what)
    return pz, np.diag(C).copy()


def check_exact_data(res, comp, facet, prob, is_par):
    res.evaluations += 1
    res.transitions += 1
    xs = prob.exactSolution
    try:
        y = _arr(prob.model.forward(xs, is_par=is_par) if not is_par else prob.model.forward(xs)).ravel()
    except Exception as e:
        res.fail("C17|%s|exactData|%s" % (comp, "model-raises"), "model(exactSolution) raised %r" % (e,))
        return
    if not close(y, _arr(prob.exactData).ravel(), 1e-9):
        res.fail("C17|%s|exactData|%s" % (comp, facet), "exactData != model(exactSolution): max diff %r" %
                 float(np.nanmax(np.abs(y - _arr(prob.exactData).ravel()))))
    ys = _arr(prob.exactData).ravel()
    if ys.size > 1 and np.all(np.isfinite(ys)) and float(np.ptp(ys)) == 0.0:
        res.nontrivial = False


def check_components(res, comp, prob, var, pts, has_info=True, sfx=""):
    """(d): same model / data / geometries everywhere and posterior.logd == reference log-likelihood + prior.logd.
    sfx: option facet appended to the signatures of the evaluation verdicts (widened observation-map classes)."""
    model, data, info = prob.get_components()
    res.evaluations += 1
    lik = prob.likelihood
    post = prob.posterior
    prior = prob.prior
    same = {"get_components-model": model is prob.model, "likelihood-model": lik.model is prob.model,
            "posterior-model": post.model is prob.model,
            "get_components-data": data is prob.data or close(_arr(data), _arr(prob.data), 1e-15),
            "likelihood-data": close(_arr(lik.data), _arr(prob.data), 1e-15),
            "posterior-data": close(_arr(post.data), _arr(prob.data), 1e-15),
            "posterior-prior": post.prior is prior, "posterior-likelihood": post.likelihood is lik}
    for name, ok in same.items():
        if not ok:
            res.fail("C17|%s|components|%s" % (comp, name), "%s is not the problem's own object/value" % name)
    for attr in ("exactSolution", "exactData", "infoString"):
        if hasattr(prob, attr):
            a, b = getattr(info, attr), getattr(prob, attr)
            if not (a is b or (a is not None and b is not None and not isinstance(a, str) and close(_arr(a), _arr(b), 1e-15))):
                res.fail("C17|%s|components|info.%s" % (comp, attr), "get_components() info.%s differs from the attribute" % attr)
    n, m = int(prob.model.domain_dim), int(prob.model.range_dim)
    dims = {"prior.dim": int(prior.dim) == n, "posterior.dim": int(post.dim) == n,
            "data.size": _arr(prob.data).size == m,
            "posterior.geometry": int(post.geometry.par_dim) == n,
            "likelihood.geometry": int(lik.geometry.par_dim) == n}
    if prob.exactData is not None:
        dims["exactData.size"] = _arr(prob.exactData).size == m
        g = getattr(prob.exactData, "geometry", None)
        dims["exactData.geometry"] = g is None or _same_geometry(g, prob.model.range_geometry)
        g = getattr(prob.exactSolution, "geometry", None)
        dims["exactSolution.geometry"] = g is None or _same_geometry(g, prob.model.domain_geometry)
    g = getattr(prob.data, "geometry", None)
    dims["data.geometry"] = g is None or _same_geometry(g, prob.model.range_geometry)
    for name, ok in dims.items():
        if not ok:
            res.fail("C17|%s|components|%s" % (comp, name), "%s inconsistent with the model's geometries" % name)
    if var is None:
        return
    if np.any(np.asarray(var) <= 0):
        res.count("degenerate-noise-variance")   # scaled noise with a zero in exactData: density undefined
        res.outcomes.add("posterior:skipped-degenerate")
        return
    d = _arr(prob.data).ravel()
    worst = 0.0
    for x in pts:
        res.transitions += 1
        try:
            mean = _arr(prob.model.forward(x)).ravel()
            lp = float(_arr(prior.logd(x)).ravel()[0])
        except HarnessError:
            raise
        except Exception as e:
            res.fail("C17|%s|forward|raises,posterior-lattice" % comp, "model.forward / prior.logd raised %r on an admissible "
                     "parameter vector" % (e,), x=x)
            return
        if mean.shape != d.shape:
            res.fail("C17|%s|forward|output-size" % comp, "model.forward(x) has %d entries, the data %d" % (mean.size, d.size))
            return
        ll_ref = refs.gauss_logpdf(d, mean, np.asarray(var, float) if np.ndim(var) else float(var))
        try:
            got = float(_arr(post.logd(x)).ravel()[0])
            gl = float(_arr(lik.logd(x)).ravel()[0])
        except Exception as e:
            res.fail("C17|%s|posterior|raises%s" % (comp, sfx), "posterior/likelihood logd raised %r" % (e,))
            return
        res.evaluations += 1
        if not close(gl, ll_ref, 1e-9):
            res.fail("C17|%s|likelihood|logd%s" % (comp, sfx), "likelihood.logd(x) = %r, Gaussian log-density of the data given "
                     "model(x) with the stated noise = %r" % (gl, ll_ref), x=x)
            return
        if not (np.isfinite(lp) and close(got, ll_ref + lp, 1e-9)) and not (not np.isfinite(lp) and got == lp):
            res.fail("C17|%s|posterior|logd%s" % (comp, sfx), "posterior.logd(x) = %r != log-likelihood %r + prior.logd %r" %
                     (got, ll_ref, lp), x=x)
            return
        worst = max(worst, abs(got - ll_ref - lp))
    res.outcomes.add("posterior:ok")
    if res.sample is None:
        res.sample = {"posterior_logd_minus_reference_max_abs": worst, "points": len(pts)}


def _same_geometry(g, h):
    try:
        if int(g.par_dim) != int(h.par_dim):
            return False
        gs, hs = g.fun_shape, h.fun_shape
        if gs is not None and hs is not None and tuple(gs) != tuple(hs):
            return False
        gg, hg = getattr(g, "grid", None), getattr(h, "grid", None)
        if isinstance(gg, np.ndarray) and isinstance(hg, np.ndarray) and not (gg.shape == hg.shape and close(gg, hg, 1e-12)):
            return False
        return True
    except Exception:
        return True


def _points(n, k, lo=None):
    pts = [np.zeros(n)]
    for i in range(n):
        e = np.zeros(n)
        e[i] = 1.0
        pts.append(e)
    pts += [refs.dyadic_vec(n, k), refs.dyadic_vec(n, k + 2, scale=0.5)]
    return pts


def _magsfx(cell):
    """Signature suffix of the magnitude-facet cells (noise level x problem size); empty for all other cells."""
    if "mag" not in cell:
        return ""
    return ",noise_std=%s,dim=%s" % (cell["mag"], "default" if cell.get("dimdef") else cell["dim"])


def _info_std(res, comp, prob, noise, std):
    s = getattr(prob, "infoString", None)
    res.evaluations += 1
    if s is None or str(std) not in s or noise.lower() not in s.lower():
        res.fail("C17|%s|infoString|noise" % comp, "infoString %r does not state noise type %r and level %r" % (s, noise, std))


# ----------------------------------------------------------------------------------------
# Deconvolution1D
# ----------------------------------------------------------------------------------------
def _phantom_args(cell):
    ph = cell.get("phantom", "sinc")
    if ph == "array":
        return {"phantom": refs.dyadic_vec(cell["dim"], cell["cat"] + 1)}
    name = _sp(cell, ph)
    if cell.get("phdef") or ph in ("bumps", "pc", "skyscraper"):
        return {"phantom": name}                # phantom_param left at its default
    if ph in ("square", "hat"):
        return {"phantom": name, "phantom_param": 3}
    return {"phantom": name, "phantom_param": [2.0, 3.0, 1.5][cell["cat"]]}


def eval_d1(res, cell):
    import cuqi
    dim, k, legacy = cell["dim"], cell["cat"], cell["fam"] == "d1leg"
    comp = "Deconvolution1D"
    if legacy:
        Pc = tp.custom_psf_1d(dim, k)
        P = Pc if cell["PSF"] == "custom" else cell["PSF"]
        par = None if cell["PSF"] == "custom" else [8.0, 12.0, 6.0][k]
        facet = "legacy,PSF=%s" % cell["PSF"]

        def build():
            return cuqi.testproblem.Deconvolution1D(dim=dim, PSF=P, PSF_param=par, use_legacy=True,
                                                    noise_type=cell["noise"], noise_std=cell["std"])
        if cell["PSF"] == "custom":
            h = np.array([Pc[(i + dim // 2) % dim] for i in range(dim)])    # centre dim//2 moved to index 0
        else:
            h = tp.legacy_kernel(cell["PSF"], dim, par)
        R = tp.circulant(h)
        Roff = None
    else:
        size, bc = cell["size"], cell["BC"]          # size None: PSF_size left at its default (documented: dim)
        esize = dim if size is None else size
        defpar = bool(cell.get("defpar"))            # PSF_param left at its default ("depends on PSF")
        par = None if defpar else _param(cell)
        Pc = tp.custom_psf_1d(esize, k)
        P = Pc if cell["PSF"] == "custom" else _sp(cell, cell["PSF"])
        stag = _sizetag(size, dim)
        facet = "BC=%s,PSF=%s,PSF_size=%s" % (bc, cell["PSF"], stag)
        okw = {}
        dkw = {} if cell.get("dimdef") else {"dim": dim}     # dimdef: ``dim`` left at its documented default (128)
        if size is not None:
            okw["PSF_size"] = size
        if par is not None:
            okw["PSF_param"] = par

        def build(BC=None):
            # (BC given: the zero-boundary sibling used to read off the default PSF - plain Gaussian noise, so that it
            #  is constructible whatever the exact data are)
            return cuqi.testproblem.Deconvolution1D(PSF=P, BC=_sp(cell, bc) if BC is None else BC, **dkw,
                                                    noise_type=_sp(cell, cell["noise"]) if BC is None else "gaussian",
                                                    noise_std=cell["std"],
                                                    prior=_make_prior(cell.get("prior", "default"), dim, k),
                                                    **okw, **_phantom_args(cell))
    try:
        prob, _ = _scripted(build, None)
    except HarnessError:
        raise
    except Exception as e:
        _refused(res, e)
        _spelling_refusal(res, comp, cell, eval_d1, e)
        return
    res.state("built")
    if not legacy:
        Roff = None
        if cell["PSF"] == "custom":
            Pref = Pc
        elif defpar:
            # default PSF_param: undocumented value -> the taps (read off the zero-boundary operator of a sibling
            # problem) must be a member of the documented PSF family for some parameter; the operator of THIS cell
            # is then compared with the convolution by that member under the cell's boundary rule
            try:
                p0, _ = _scripted(lambda: build(BC="zero"), None)
                F0 = _columns(p0.model.forward, dim)
                res.transitions += dim + 1
            except HarnessError:
                raise
            except Exception as e:
                res.fail("C17|%s|forward|raises,PSF_param=default" % comp, "zero-boundary sibling problem raised %r" % (e,))
                return
            c = esize // 2
            taps = np.array([F0[kk - c, 0] if 0 <= kk - c < dim else F0[0, c - kk] for kk in range(esize)])
            fam = tp.identify_psf_1d(cell["PSF"], taps)
            res.evaluations += 1
            if not fam:
                res.fail("C17|%s|PSF|PSF_param=default,PSF=%s" % (comp, cell["PSF"]), "with the default PSF_param the "
                         "point-spread function %r... is not a %d-point member of the documented %s family for any "
                         "parameter" % (taps[:5].tolist(), esize, cell["PSF"]), facet=facet, taps=taps)
                return
            Pref = fam[0]
            res.outcomes.add("default-param:identified")
        else:
            Pref = tp.psf_1d(cell["PSF"], esize, par)
            if cell["PSF"] == "defocus":
                Roff = tp.conv1d_matrix(tp.defocus_1d_offcentre(esize, par), dim, bc)
        R = tp.conv1d_matrix(Pref, dim, bc)
    # (a) forward on the complete basis
    F = _columns(prob.model.forward, dim)
    res.transitions += dim
    res.evaluations += 1
    res.outcomes.add("F#" + hashlib.sha1(np.round(F, 9).tobytes()).hexdigest()[:10])
    lead = "legacy," if legacy else ""
    if not close(F, R, 1e-9):
        i, j = np.unravel_index(int(np.argmax(np.abs(F - R))), F.shape)
        msg = ("forward(e_%d)[%d] = %r, documented convolution gives %r" % (j, i, F[i, j], R[i, j]))
        if close(F, R.T, 1e-9):
            res.fail("C17|%s|forward|%smatrix-transposed" % (comp, lead), msg + " (the model matrix is the transpose of the "
                     "documented convolution operator: correlation instead of convolution)", facet=facet, F=F, R=R)
        elif Roff is not None and close(F, Roff, 1e-9):
            # the "out-of-focus blur" has no documented formula: the implemented disc (centred one pixel before
            # size//2) is accepted as a reading of it - observation only, not judged
            res.outcomes.add("forward:ok(defocus disc off-centre)")
            res.count("defocus_offcentre_accepted")
        elif Roff is not None and close(F, Roff.T, 1e-9):
            res.fail("C17|%s|forward|matrix-transposed" % comp, msg + " (transposed operator)", facet=facet)
        else:
            res.fail("C17|%s|forward|%s" % (comp, lead + ("PSF=%s" % cell["PSF"] if legacy else
                                                        "BC=%s,PSF_size=%s%s" % (cell["BC"], stag,
                                                                                 ",PSF_param=default" if defpar else ""))),
                     msg, facet=facet, F=F, R=R)
    else:
        res.outcomes.add("forward:ok")
    res.state("forward")
    # (b)
    check_exact_data(res, comp, "legacy" if legacy else "BC=%s" % cell["BC"], prob, True)
    if cell.get("phantom") == "array" and not close(_arr(prob.exactSolution), _phantom_args(cell)["phantom"], 1e-15):
        res.fail("C17|%s|exactSolution|phantom=array" % comp, "exactSolution is not the phantom array that was passed")
    # (c)
    std = cell["std"]
    if cell["noise"] == "gaussian":
        readings = lambda y: [np.full(y.size, std ** 2)]
    else:
        readings = lambda y: [(std * y) ** 2]
    light = bool(cell.get("light"))
    pz, var = check_noise(res, comp, facet, build, readings, lead + "noise=" + cell["noise"], light=light)
    res.state("noise")
    _info_std(res, comp, pz, cell["noise"], std)
    # (d)
    check_components(res, comp, pz, var, _points(dim, k), sfx=_magsfx(cell))
    res.state("components")
    # (e) non-initial state: after a point estimate / direct sampling on the SAME problem object the data and the
    #     posterior it hands out are still the ones checked above
    if dim <= 8 and pz is not None and not light:
        try:
            d0 = np.array(_arr(pz.data), copy=True)
            xq = _points(dim, k)[-1]
            l0 = float(_arr(pz.posterior.logd(xq)).ravel()[0])
            with contextlib.redirect_stdout(io.StringIO()):
                pz.MAP(disp=False)
            res.transitions += 1
            d1v = _arr(pz.data)
            l1 = float(_arr(pz.posterior.logd(xq)).ravel()[0])
        except HarnessError:
            raise
        except Exception as e:
            res.outcomes.add("after-MAP:refused:" + type(e).__name__)
        else:
            res.evaluations += 1
            res.state("after-MAP")
            if not close(d1v, d0, 1e-13) or not close(l1, l0, 1e-10):
                res.fail("C17|%s|data|altered-by-MAP" % comp, "after MAP() on the same problem object the data / posterior handed out "
                         "changed (max |data change| %.3g, posterior logd %.10g -> %.10g)" % (float(np.max(np.abs(d1v - d0))), l0, l1))


# ----------------------------------------------------------------------------------------
# Deconvolution2D
# ----------------------------------------------------------------------------------------
def eval_d2(res, cell):
    import cuqi
    dim, k, size, bc = cell["dim"], cell["cat"], cell["size"], cell["BC"]
    comp = "Deconvolution2D"
    # size "default" / defpar: PSF_size / PSF_param left at the defaults of the signature (21 / 2.56)
    defpar = bool(cell.get("defpar"))
    par = 2.56 if defpar else _param(cell)
    okw = {} if defpar else {"PSF_param": par}
    if size == "default":
        size = 21
    else:
        okw["PSF_size"] = size
    Pc = tp.custom_psf_2d(size, k)
    P = Pc if cell["PSF"] == "custom" else _sp(cell, cell["PSF"])
    facet = "BC=%s,PSF_size=%s" % (bc, _sizetag(cell["size"], dim))
    phk = cell["phantom"]
    given = phk in ("array", "vector")
    if phk == "array":
        okw["phantom"] = refs.dyadic_vec(dim * dim, k + 1).reshape(dim, dim)
    elif phk == "vector":
        okw["phantom"] = refs.dyadic_vec(dim * dim, k + 1)
    elif phk == "resized":                       # "The image will automatically be resized to fit the problem size"
        okw["phantom"] = refs.dyadic_vec((dim + 3) ** 2, k + 1).reshape(dim + 3, dim + 3)
    elif phk != "default":                       # a named phantom of cuqi.data ("default": the signature's 'satellite')
        okw["phantom"] = phk
    geom = cuqi.geometry.Image2D((dim, dim))

    def build():
        return cuqi.testproblem.Deconvolution2D(dim=dim, PSF=P, BC=_sp(cell, bc),
                                                noise_type=_sp(cell, cell["noise"]), noise_std=cell["std"],
                                                prior=_make_prior(cell["prior"], dim * dim, k, geometry=geom), **okw)
    try:
        prob, _ = _scripted(build, None)
    except HarnessError:
        raise
    except Exception as e:
        _refused(res, e)
        _spelling_refusal(res, comp, cell, eval_d2, e)
        return
    res.state("built")
    n = dim * dim
    Pref = Pc if cell["PSF"] == "custom" else tp.psf_2d(cell["PSF"], size, par)
    Pimpl = _arr(prob.Miscellaneous["PSF"])
    res.evaluations += 1
    psf_ok = Pimpl.shape == Pref.shape and close(Pimpl, Pref, 1e-12)
    if not psf_ok and cell["PSF"] == "defocus" and close(Pimpl, tp.defocus_2d_offcentre(size, par), 1e-12):
        # undocumented formula of the out-of-focus PSF: off-centre disc accepted (observation, not judged)
        Pref, psf_ok = Pimpl, True
        res.count("defocus_offcentre_accepted")
    if not psf_ok:
        why = ""
        res.fail("C17|%s|PSF|PSF=%s" % (comp, cell["PSF"]), "point-spread function handed out by the problem differs from "
                 "the documented %s PSF%s" % (cell["PSF"], why), impl=Pimpl, ref=Pref)
    F = _columns(prob.model.forward, n)
    res.transitions += n
    res.evaluations += 1
    res.outcomes.add("F#" + hashlib.sha1(np.round(F, 9).tobytes()).hexdigest()[:10])
    R = tp.conv2d_matrix(Pref, dim, bc)
    if not close(F, R, 1e-9):
        if not psf_ok and close(F, tp.conv2d_matrix(Pimpl, dim, bc), 1e-9):
            res.outcomes.add("forward:convolution-with-the-reported-PSF")      # explained by the PSF finding above
        else:
            i, j = np.unravel_index(int(np.argmax(np.abs(F - R))), F.shape)
            res.fail("C17|%s|forward|%s" % (comp, facet), "forward(e_%d)[%d] = %r, documented convolution gives %r" %
                     (j, i, F[i, j], R[i, j]))
    else:
        res.outcomes.add("forward:ok")
    res.state("forward")
    check_exact_data(res, comp, "BC=%s" % bc, prob, True)
    # (magnitude cells, dim 12: the library passes the phantom through its resize step also when the size already fits,
    #  which leaves rounding of a few ulp - "is the phantom" is read up to 1e-12 there, 1e-15 elsewhere as before)
    if given and not close(_arr(prob.exactSolution), refs.dyadic_vec(dim * dim, k + 1), 1e-12 if "mag" in cell else 1e-15):
        res.fail("C17|%s|exactSolution|phantom=%s" % (comp, cell["phantom"]), "exactSolution is not the (dim x dim) phantom "
                 "that was passed, row-major")
    if not given:
        # named / resized phantoms: the pixel values are not documented, the size is
        xs = _arr(prob.exactSolution).ravel()
        res.evaluations += 1
        res.outcomes.add("phantom:%s" % phk)
        if xs.size != n or not np.all(np.isfinite(xs)):
            res.fail("C17|%s|exactSolution|phantom=%s" % (comp, phk), "exactSolution has %d finite pixels, dim*dim = %d"
                     % (int(np.sum(np.isfinite(xs))), n))
        if xs.size and float(np.ptp(xs)) == 0.0:
            res.nontrivial = False
    std = cell["std"]
    if cell["noise"] == "gaussian":
        readings = lambda y: [np.full(y.size, std ** 2)]
    else:
        readings = lambda y: [(std * y) ** 2]
    pz, var = check_noise(res, comp, facet, build, readings, "noise=" + cell["noise"], light=bool(cell.get("light")))
    res.state("noise")
    _info_std(res, comp, pz, cell["noise"], std)
    pts = [np.zeros(n), refs.dyadic_vec(n, k), refs.dyadic_vec(n, k + 2, scale=0.5)] + [np.eye(n)[i] for i in (0, n // 2, n - 1)]
    check_components(res, comp, pz, var, pts, sfx=_magsfx(cell))
    res.state("components")


# ----------------------------------------------------------------------------------------
# fields of the PDE / Abel problems
# ----------------------------------------------------------------------------------------
def _cov(x, y):
    return np.exp(-abs(x - y) / 0.3)


_CUSTOMKL = {"trunc_term": 3, "cov_func": _cov, "mean": 0.5, "std": 1.25}
_MAPS = {"none": (None, None), "exp": (np.exp, np.log), "sq": (lambda x: x ** 2 + 0.5, None)}   # "sq": map without imap


def _field(cell, grid):
    """-> (mk, readings, elementwise map or None, imap or None).

    mk() gives fresh constructor kwargs (field_type / field_params); readings is the list of admissible documented
    parameterisations (B, f0): function values = map(f0 + B p).  Field types: None, "KL", "KL_Full", "Step", "CustomKL"
    with default and non-default field_params, and ready-made Geometry objects ("geom:...")."""
    import cuqi
    f = cell["field"]
    N = len(grid)
    grid = np.asarray(grid, float)
    parts = f.split("+")
    base = parts[0]
    mp = parts[1] if len(parts) > 1 else cell.get("map", "none")
    z = np.zeros(N)
    if base == "none":
        mk, Bs = (lambda: {}), [np.eye(N)]
    elif base == "KL":
        mk, Bs = (lambda: {"field_type": "KL"}), [tp.kl_matrix(N)]
    elif base == "KL-3":
        mk = lambda: {"field_type": "KL", "field_params": {"num_modes": 3, "decay_rate": 1.5, "normalizer": 4.0}}
        Bs = [tp.kl_matrix(N, 3, 1.5, 4.0)]
    elif base == "Step":
        mk, Bs = (lambda: {"field_type": "Step", "field_params": {"n_steps": 2}}), [tp.step_matrix(grid, 2)]
    elif base == "Step-default":                 # n_steps left at the default of StepExpansion's signature (3)
        mk, Bs = (lambda: {"field_type": "Step"}), [tp.step_matrix(grid, 3)]
    elif base == "KLFull":                       # defaults: the signature says cor_len=0.2, nu=3.0, the docstring 1.0, 2.5
        mk, Bs = (lambda: {"field_type": "KL_Full"}), [tp.kl_full_matrix(N, 1.0, 0.2, 3.0), tp.kl_full_matrix(N, 1.0, 1.0, 2.5)]
    elif base == "KLFull-p":
        mk = lambda: {"field_type": "KL_Full", "field_params": {"std": 1.5, "cor_len": 0.3, "nu": 2.0}}
        Bs = [tp.kl_full_matrix(N, 1.5, 0.3, 2.0)]
    elif base == "CustomKL-p":
        # "a CustomKL geometry object will be created and set as a domain geometry": differential oracle - the
        # parameterisation of an independently constructed CustomKL(grid, **field_params) (affine: offset + matrix)
        mk = lambda: {"field_type": "CustomKL", "field_params": dict(_CUSTOMKL)}
        g = cuqi.geometry.CustomKL(grid.copy(), **_CUSTOMKL)
        m = int(g.par_dim)
        f0 = _arr(g.par2fun(np.zeros(m))).ravel()
        Bs = [(np.array([_arr(g.par2fun(np.eye(m)[i])).ravel() - f0 for i in range(m)]).T, f0)]
    elif base == "geom:Step3":
        mk, Bs = (lambda: {"field_type": cuqi.geometry.StepExpansion(grid.copy(), n_steps=3)}), [tp.step_matrix(grid, 3)]
    elif base == "geom:C1D":
        mk, Bs = (lambda: {"field_type": cuqi.geometry.Continuous1D(grid.copy())}), [np.eye(N)]
    else:
        raise ValueError(f)
    readings = [b if isinstance(b, tuple) else (b, z) for b in Bs]
    fmap, imap = _MAPS[mp]
    return mk, readings, fmap, imap


# observation_grid_map catalogue.  Existing kinds: "sub" (ascending sub-grid by index), "mask" (by location, the form of
# the docstring's example).  Widened facet (class = the name used in signatures):
#   same-count         as many points as solution nodes, at other locations (compressed towards the first node;
#                      shrunk about the centre = every point shifted by a fraction of a cell)
#   off-node           fewer points, between the nodes, ascending (cell mid-points)
#   nodes-reordered    existing nodes in non-ascending order (all reversed; the last three reversed; the three nodes
#                      nearest to a point ranked by distance; a permutation of all nodes)
#   off-node-reordered points between the nodes, descending
#   repeated           nodes listed more than once (ascending: every second node twice; non-ascending: a, b, a)
#   single             one point (a node; a point between two nodes), returned as a 1-element array
_OBS_CLASS = {"none": "none", "sub": "sub", "mask": "mask",
              "compress": "same-count", "shrink": "same-count", "mid": "off-node",
              "rev": "nodes-reordered", "revsub": "nodes-reordered", "ranked": "nodes-reordered", "perm": "nodes-reordered",
              "offrev": "off-node-reordered", "rep": "repeated", "rep2": "repeated",
              "single": "single", "singleoff": "single"}
OBS_WIDE = ["compress", "shrink", "mid", "rev", "revsub", "ranked", "perm", "offrev", "rep", "rep2", "single", "singleoff"]
_OBS_DESCENT = ("rev", "revsub", "ranked", "perm", "offrev", "rep2")     # must not come out ascending (self-check)


def _obs_sfx(kind):
    """Signature suffix of the evaluation verdicts for the widened map classes (existing signatures stay as they are)."""
    return ",obs=%s" % _OBS_CLASS[kind] if kind in OBS_WIDE else ""


def _perm(n):
    m = [q for q in (2, 3, 5, 7, 11) if n % q][0]           # multiplier coprime with n: i -> (m i + 1) mod n is a bijection
    return [(m * i + 1) % n for i in range(n)]


def _obs_map(kind, endpoint=1.0):
    if kind == "none":
        return None
    if kind == "sub":                            # by index
        return lambda g: g[1::2]
    c = 0.45 * float(endpoint)
    if kind == "mask":                           # by location, the form of the docstring's example
        return lambda g: g[np.where(g > c)]
    return {
        "compress": lambda g: g[0] + 0.5 * (g - g[0]),
        "shrink": lambda g: 0.5 * (g[0] + g[-1]) + 0.75 * (g - 0.5 * (g[0] + g[-1])),
        "mid": lambda g: g[:-1] + 0.5 * np.diff(g),
        "rev": lambda g: g[::-1],
        "revsub": lambda g: g[::-1][:3],
        "ranked": lambda g: g[np.argsort(np.abs(g - c), kind="stable")[:3]],      # sensors ranked by distance from c
        "perm": lambda g: g[_perm(len(g))],
        "offrev": lambda g: (g[:-1] + 0.3 * np.diff(g))[::-1],
        "rep": lambda g: np.repeat(g[1::2], 2),
        "rep2": lambda g: g[[1, 3, 1]],
        "single": lambda g: g[[len(g) // 2]],
        "singleoff": lambda g: np.array([g[1] + 0.3 * (g[2] - g[1])]),
    }[kind]


def _obs_points(kind, om, grid):
    """The mapped grid (own application of the cell's map to the solution nodes), with the catalogue's self-check."""
    if om is None:
        return None
    pts = np.array(om(np.array(grid, dtype=float)), dtype=float).ravel()
    if kind in _OBS_DESCENT and pts.size > 1 and np.all(np.diff(pts) > 0):
        raise HarnessError("observation map %r came out ascending on %r" % (kind, grid))
    return pts


def _check_range_grid(res, comp, prob, expected, cls, tag):
    """The range geometry handed out says where entry i of model output / exactData / data lives: it must be the mapped
    grid, in the order the map returned it (no map: the solution grid)."""
    res.evaluations += 1
    g = getattr(prob.model.range_geometry, "grid", None)
    ok = g is not None and np.asarray(g).size == expected.size and close(_arr(g).ravel(), expected, 1e-12)
    if not ok:
        res.fail("C17|%s|range-geometry|obs=%s%s" % (comp, cls, tag), "grid of the model's range geometry %r is not the "
                 "observation grid %r (in the order the observation_grid_map returned it)" %
                 (None if g is None else _arr(g).ravel().tolist(), expected.tolist()))
    else:
        res.outcomes.add("range-grid:ok")


def _snr_readings(snr):
    def f(y):
        s = float(np.linalg.norm(y)) / snr
        return [np.full(y.size, s ** 2), np.full(y.size, s ** 2 / y.size)]
    return f


def _etag(cell):
    """Signature suffix for a non-default end-point (so that existing signatures stay as they are)."""
    L = cell.get("L", 1.0)
    return "" if float(L) == 1.0 else ",endpoint!=1"


def _refused(res, e):
    res.refused += 1
    res.nontrivial = False
    res.transitions += 1
    res.state("construct-refused")
    res.outcomes.add("construct-refused:" + type(e).__name__)


def _spelling_refusal(res, comp, cell, evaluator, e):
    """Option values are documented in the spelling of the docstring ('Mirror', 'scaledGaussian', ...): a problem that is
    constructed with the lower-case spelling must not be refused with the documented one (differential)."""
    if cell.get("spell") != "doc":
        return
    alt = {kk: v for kk, v in cell.items() if kk != "spell"}
    r2 = CellResult(alt)
    evaluator(r2, alt)
    res.evaluations += 1
    if not r2.refused:
        res.fail("C17|%s|construct|documented-spelling" % comp, "constructor raised %r for the option spellings of the "
                 "docstring, but accepts the same options in lower case" % (e,))


def _finish_pde(res, comp, cell, prob, build, op_ref, freadings, mp, fpts, pts, facet, opfacet, sfx=""):
    """Common tail of Heat1D / Poisson1D / Abel1D.

    op_ref(f) -> list of admissible reference observations for the *function values* f.  The forward model is
    compared (i) on function values (is_par=False: the operator itself) and, if that holds, (ii) on parameters
    (operator after the documented field parameterisation) - so that a fault is named by the part it sits in."""
    worst = 0.0
    op_ok = True
    for f in fpts:
        res.transitions += 1
        res.evaluations += 1
        try:
            got = _arr(prob.model.forward(f, is_par=False)).ravel()
        except Exception as e:
            res.fail("C17|%s|forward|raises,%s" % (comp, opfacet), "forward raised %r on admissible function values" % (e,), f=f)
            op_ok = False
            break
        ref_list = op_ref(f)
        good = [i for i, r in enumerate(ref_list) if r.shape == got.shape and close(got, r, 1e-8)]
        if not good:
            res.fail("C17|%s|forward|%s" % (comp, opfacet), "forward(function values) differs from the reference solution map "
                     "by %r" % (float(np.max(np.abs(got - ref_list[0]))) if got.shape == ref_list[0].shape else got.shape,),
                     f=f, got=got, ref=ref_list[0])
            op_ok = False
            break
        res.outcomes.add("operator-reading:%d/%d" % (good[0], len(ref_list)))
        worst = max(worst, float(np.max(np.abs(got - ref_list[good[0]]))))
    if op_ok:
        alive = list(range(len(freadings)))          # field readings consistent with every point so far
        for p in pts:
            res.transitions += 1
            res.evaluations += 1
            try:
                got = _arr(prob.model.forward(p)).ravel()
            except Exception as e:
                res.fail("C17|%s|forward|raises,%s" % (comp, facet), "forward raised %r on an admissible parameter" % (e,), p=p)
                op_ok = False
                break
            still = []
            for i in alive:
                B, f0 = freadings[i]
                fv = f0 + B @ np.asarray(p, float)
                if mp is not None:
                    fv = mp(fv)
                if any(r.shape == got.shape and close(got, r, 1e-8) for r in op_ref(fv)):
                    still.append(i)
            if not still:
                B, f0 = freadings[alive[0]]
                fv = f0 + B @ np.asarray(p, float)
                res.fail("C17|%s|forward|%s" % (comp, facet), "forward(parameters) differs from the reference operator applied "
                         "to the documented field expansion", p=p, got=got, ref=op_ref(fv if mp is None else mp(fv))[0])
                op_ok = False
                break
            alive = still
        if op_ok:
            res.outcomes.add("field-reading:%d/%d" % (alive[0], len(freadings)))
    if op_ok:
        res.outcomes.add("forward:ok")
    res.state("forward")
    # (b) exact data: the model applied to the exact solution (function values)
    check_exact_data(res, comp, "field=%s" % cell["field"], prob, False)
    xs = _arr(prob.exactSolution).ravel()
    res.evaluations += 1
    if op_ok and not any(close(_arr(prob.exactData).ravel(), r, 1e-8) for r in op_ref(xs)):
        res.fail("C17|%s|exactData|reference" % comp, "exactData is not the reference operator applied to exactSolution")
    if cell.get("xs"):
        res.evaluations += 1
        if not close(xs, _exact_given(xs.size, cell["cat"]), 1e-15):
            res.fail("C17|%s|exactSolution|given" % comp, "exactSolution is not the array of function values that was passed")
        else:
            res.outcomes.add("exactSolution:given")
    res.outcomes.add("y#" + hashlib.sha1(np.round(_arr(prob.exactData), 9).tobytes()).hexdigest()[:10])
    pz, var = check_noise(res, comp, facet, build, _snr_readings(cell["SNR"]), "noise=SNR", light=bool(cell.get("light")))
    res.state("noise")
    s = getattr(pz, "infoString", None)
    if s is not None and str(cell["SNR"]) not in s:
        res.fail("C17|%s|infoString|noise" % comp, "infoString %r does not state the SNR %r" % (s, cell["SNR"]))
    check_components(res, comp, pz, var, pts, sfx=sfx)
    res.state("components")
    if res.sample is None:
        res.sample = {"forward_max_abs_error": worst}


def _exact_given(n, k):
    """User-supplied exact solution (positive function values, so that it is admissible for every problem)."""
    return 0.75 + np.abs(refs.dyadic_vec(n, k + 1, scale=0.125))


def _fun_points(n, k, positive=False):
    if positive:
        return [np.ones(n)] + [np.ones(n) + 0.5 * np.eye(n)[i] for i in range(n)] + \
               [1.0 + np.abs(refs.dyadic_vec(n, k)), 0.5 + np.abs(refs.dyadic_vec(n, k + 2, scale=0.5))]
    return [np.eye(n)[i] for i in range(n)] + [refs.dyadic_vec(n, k), refs.dyadic_vec(n, k + 2, scale=0.5)]


def eval_heat(res, cell):
    import cuqi
    dim, k = cell["dim"], cell["cat"]
    comp = "Heat1D"
    endpoint, max_time = cell.get("L", 1.0), cell.get("T", 0.1)
    dx = endpoint / (dim + 1)
    grid = dx * (np.arange(dim) + 1.0)
    mk, freadings, mp, imap = _field(cell, grid)
    om = _obs_map(cell["obs"], endpoint)
    tag = _etag(cell)

    def build():
        kw = mk()
        if mp is not None:
            kw["map"] = mp
            if imap is not None:
                kw["imap"] = imap
        if cell.get("xs"):
            kw["exactSolution"] = _exact_given(dim, k)
        return cuqi.testproblem.Heat1D(dim=dim, endpoint=endpoint, max_time=max_time, SNR=cell["SNR"],
                                       observation_grid_map=om, **kw)
    try:
        prob, _ = _scripted(build, None)
    except HarnessError:
        raise
    except Exception as e:
        _refused(res, e)
        return
    res.state("built")
    pde = prob.model.pde
    ts = _arr(pde.time_steps)
    if not (ts[0] == 0.0 and close(ts[-1], max_time, 1e-12) and np.all(np.diff(ts) > 0)):
        res.fail("C17|%s|time-grid|max_time" % comp, "time steps %r do not run from 0 to max_time" % ts[[0, -1]].tolist())
    if not close(_arr(pde.grid_sol), grid, 1e-12):
        res.fail("C17|%s|grid|interior-nodes%s" % (comp, tag), "solution grid is not the dim interior nodes of (0, endpoint)")
    gobs = _obs_points(cell["obs"], om, grid)
    ocls = _OBS_CLASS[cell["obs"]]
    _check_range_grid(res, comp, prob, grid if gobs is None else gobs, ocls, tag)
    res.outcomes.add("nobs=%d,nt=%d" % (dim if gobs is None else gobs.size, ts.size))

    def op_ref(u0):
        u = tp.heat_final(u0, dx, ts, pde.method)
        return [u] if gobs is None else tp.observe_refs(grid, u, gobs)
    pts = _points(freadings[0][0].shape[1], k)
    _finish_pde(res, comp, cell, prob, build, op_ref, freadings, mp, _fun_points(dim, k), pts,
                "field=%s,map=%s" % (cell["field"], cell.get("map", "none")), "operator,obs=%s%s" % (ocls, tag),
                sfx=_obs_sfx(cell["obs"]))


def _source(xs):
    return 10 * np.exp(-((xs - 0.4) ** 2) / 0.05) + 1.0


def _source_default(xs):                      # the default of the signature
    return 10 * np.exp(-((xs - 0.5) ** 2) / 0.02)


def _source_linear(xs):                       # depends strongly on where it is evaluated
    return 1.0 + 2.0 * xs


_SOURCES = {"custom": _source, "default": _source_default, "linear": _source_linear}


def eval_poisson(res, cell):
    import cuqi
    dim, k = cell["dim"], cell["cat"]
    comp = "Poisson1D"
    endpoint = cell.get("L", 1.0)
    srck = cell.get("src", "custom")
    srcf = _SOURCES[srck]
    N = dim - 1
    grid_dom = np.linspace(0.0, float(endpoint), dim)
    mk, freadings, mp, imap = _field(cell, grid_dom)
    om = _obs_map(cell["obs"], endpoint)
    tag = _etag(cell)
    seen = []                                   # where the user's source function is evaluated

    def recorder(xs):
        seen.append(np.array(xs, dtype=float).ravel())
        return srcf(xs)

    def build():
        kw = mk()
        if mp is not None:
            kw["map"] = mp
            if imap is not None:
                kw["imap"] = imap
        if cell.get("xs"):
            kw["exactSolution"] = _exact_given(dim, k)
        if srck != "default":
            kw["source"] = recorder
        return cuqi.testproblem.Poisson1D(dim=dim, endpoint=endpoint, SNR=cell["SNR"], observation_grid_map=om, **kw)
    try:
        prob, _ = _scripted(build, None)
    except HarnessError:
        raise
    except Exception as e:
        _refused(res, e)
        return
    res.state("built")
    pde = prob.model.pde
    gs = _arr(pde.grid_sol)
    if gs.size != N or not (np.all(gs > 0) and np.all(gs < endpoint) and np.all(np.diff(gs) > 0)):
        res.fail("C17|%s|grid|interior-nodes%s" % (comp, tag), "solution grid is not dim-1 increasing interior nodes")
        return
    # nodes of the discretisation: where the source term is evaluated.  The docstring does not give them: every
    # reasonable reading is accepted, but they must be the nodes the problem hands out as its solution grid (the
    # observation map selects by these, the range geometry plots against these)
    node_readings = [gs] + tp.poisson_node_readings(N, endpoint)
    if srck != "default":
        res.evaluations += 1
        if not seen or seen[0].size != N:
            res.fail("C17|%s|source|evaluated%s" % (comp, tag), "the source function was called %d times, first with %r nodes; "
                     "expected one evaluation on the %d solution nodes" % (len(seen), seen[0].size if seen else None, N))
            return
        if not any(close(seen[0], r, 1e-12) for r in node_readings):
            res.fail("C17|%s|source|nodes%s" % (comp, tag), "the source term is evaluated at %r, which is no reading of the "
                     "%d interior nodes of (0, %r)" % (seen[0].tolist(), N, endpoint))
            return
        if gs.size == N and not close(seen[0], gs, 1e-12):
            res.fail("C17|%s|grid|solution-nodes-vs-source-nodes%s" % (comp, tag), "the solution / observation grid handed out "
                     "(%r) is not the set of nodes on which the equation is discretised (source evaluated at %r)" %
                     (gs.tolist(), seen[0].tolist()))
        node_readings = [seen[0]]
    rhs_list = [srcf(x) for x in node_readings]
    gobs = _obs_points(cell["obs"], om, gs)
    ocls = _OBS_CLASS[cell["obs"]]
    _check_range_grid(res, comp, prob, gs if gobs is None else gobs, ocls, tag)
    res.outcomes.add("nobs=%d" % (N if gobs is None else gobs.size))

    def op_ref(kappa):
        out = []
        for rhs in rhs_list:
            for h in (endpoint / N, endpoint / (N + 1)):
                u = tp.poisson_solution(kappa, rhs, h)
                out += [u] if gobs is None else tp.observe_refs(gs, u, gobs)
        return out
    n = freadings[0][0].shape[1]
    # non-linear in the conductivity: positive lattice (ones, ones + every basis direction, two generic points)
    pts = _fun_points(n, k, positive=True) if mp is None else _points(n, k)
    _finish_pde(res, comp, cell, prob, build, op_ref, freadings, mp, _fun_points(dim, k, positive=True), pts,
                "field=%s" % cell["field"], "operator,obs=%s%s" % (ocls, tag), sfx=_obs_sfx(cell["obs"]))


def eval_abel(res, cell):
    import cuqi
    dim, k = cell["dim"], cell["cat"]
    comp = "Abel1D"
    endpoint = cell.get("L", 1.0)
    grid = np.linspace(0.0, float(endpoint), dim)
    mk, freadings, mp, imap = _field(cell, grid)
    tag = _etag(cell)

    def build():
        kw = mk()
        if mp is not None:
            kw["KL_map"] = mp
            if imap is not None:
                kw["KL_imap"] = imap
        return cuqi.testproblem.Abel1D(dim=dim, endpoint=endpoint, SNR=cell["SNR"], **kw)
    try:
        prob, _ = _scripted(build, None)
    except HarnessError:
        raise
    except Exception as e:
        _refused(res, e)
        return
    res.state("built")
    A = tp.abel_matrix(dim, endpoint)

    def op_ref(f):
        return [A @ np.asarray(f, float)]
    pts = _points(freadings[0][0].shape[1], k)
    _finish_pde(res, comp, cell, prob, build, op_ref, freadings, mp, _fun_points(dim, k), pts, "field=%s" % cell["field"],
                "operator" + tag)


def eval_wang(res, cell):
    import cuqi
    comp = "WangCubic"
    k = cell["cat"]
    prior = None if cell["prior"] == "default" else cuqi.distribution.Gaussian(np.array([0.25, -0.5]), np.array([2.0, 0.5]), name="x")
    kw = {} if cell["data"] is None else {"data": cell["data"]}
    s = Stream(normal=None)
    with s.installed():
        prob = cuqi.testproblem.WangCubic(noise_std=cell["std"], prior=prior, **kw)
    res.transitions += 1
    res.state("built")
    if s.log:
        res.fail("C17|%s|noise-stream|deterministic" % comp, "constructor drew random numbers although the data are given")
    lat = [-1.0, 0.0, 0.5, 2.0]
    pts = [np.array([a, b]) for a in lat for b in lat] + [refs.dyadic_vec(2, k)]
    for x in pts:
        res.transitions += 1
        res.evaluations += 1
        got = float(_arr(prob.model.forward(x)).ravel()[0])
        if not close(got, tp.wang_cubic(x), 1e-12):
            res.fail("C17|%s|forward|cubic" % comp, "forward(%r) = %r, the cubic gives %r" % (x.tolist(), got, tp.wang_cubic(x)))
            break
    else:
        res.outcomes.add("forward:ok")
    res.state("forward")
    data_ref = 1 if cell["data"] is None else cell["data"]
    if not close(_arr(prob.data), data_ref, 1e-15):
        res.fail("C17|%s|data|given" % comp, "data is not the given (default 1) observation")
    if prob.exactSolution is not None or prob.exactData is not None:
        res.outcomes.add("exact-values-present")
    _info_std(res, comp, prob, "gaussian", cell["std"])
    check_components(res, comp, prob, np.array([float(cell["std"]) ** 2]), pts)
    res.state("components")
    res.outcomes.add("wang:std=%s,data=%s,prior=%s" % (cell["std"], cell["data"], cell["prior"]))


# ----------------------------------------------------------------------------------------
# (f) histories: one operation on the live problem object, components handed out before == after
# ----------------------------------------------------------------------------------------
USE_PROBLEMS = ["d1", "d1leg", "d2", "heat", "poisson", "abel", "wang"]
USE_PRIORS = ["default", "gaussian", "lmrf", "cmrf"]          # the last three assigned through  problem.prior = ...
USE_OPS = ["MAP", "ML", "sample_posterior", "sample_prior", "UQ"]
_USE_COMP = {"d1": "Deconvolution1D", "d1leg": "Deconvolution1D", "d2": "Deconvolution2D", "heat": "Heat1D",
             "poisson": "Poisson1D", "abel": "Abel1D", "wang": "WangCubic"}


def _use_setup(cell):
    """-> (build, admissible noise-variance readings, positive parameters needed?)."""
    import cuqi
    k, pk = cell["cat"], cell["prob"]
    T = cuqi.testproblem
    if pk == "d1":
        P = tp.custom_psf_1d(3, k)
        return (lambda: T.Deconvolution1D(dim=8, PSF=P, BC="zero", phantom="sinc", phantom_param=2.0, noise_std=0.05),
                lambda y: [np.full(y.size, 0.05 ** 2)], False)
    if pk == "d1leg":
        return (lambda: T.Deconvolution1D(dim=8, PSF="gauss", PSF_param=8.0, use_legacy=True, noise_std=0.05),
                lambda y: [np.full(y.size, 0.05 ** 2)], False)
    if pk == "d2":
        P = tp.custom_psf_2d(3, k)
        ph = refs.dyadic_vec(16, k + 1).reshape(4, 4)
        return (lambda: T.Deconvolution2D(dim=4, PSF=P, BC="zero", phantom=ph, noise_std=0.05),
                lambda y: [np.full(y.size, 0.05 ** 2)], False)
    if pk == "heat":
        return (lambda: T.Heat1D(dim=5, max_time=0.1, SNR=50), _snr_readings(50), False)
    if pk == "poisson":
        return (lambda: T.Poisson1D(dim=5, source=_source, SNR=50), _snr_readings(50), True)
    if pk == "abel":
        return (lambda: T.Abel1D(dim=5, SNR=50), _snr_readings(50), False)
    raise ValueError(pk)


def _use_prior(kind, prob, k):
    import cuqi
    n = int(prob.model.domain_dim)
    g = prob.model.domain_geometry
    name = prob.prior.name
    if kind == "gaussian":      # non-zero mean, non-constant variances
        return cuqi.distribution.Gaussian(1.0 + refs.dyadic_vec(n, k, scale=0.0625), 0.5 + 0.125 * np.arange(n), geometry=g, name=name)
    if kind == "lmrf":          # cannot be sampled directly: sample_prior falls back to MCMC
        return cuqi.distribution.LMRF(0, 0.5, bc_type="zero", geometry=g, name=name)
    if kind == "cmrf":
        return cuqi.distribution.CMRF(0, 0.5, bc_type="zero", geometry=g, name=name)
    raise ValueError(kind)


def _snapshot(prob, pts):
    """Everything the problem hands out, as values (NaN where an evaluation raises)."""
    def val(f):
        try:
            return _arr(f()).ravel().copy()
        except HarnessError:
            raise
        except Exception as e:
            return "raises:" + type(e).__name__
    snap = {"data": val(lambda: prob.data), "likelihood.data": val(lambda: prob.likelihood.data),
            "posterior.data": val(lambda: prob.posterior.data), "get_components-data": val(lambda: prob.get_components()[1])}
    for attr in ("exactData", "exactSolution"):
        if getattr(prob, attr, None) is not None:
            snap[attr] = val(lambda: getattr(prob, attr))
    for i, x in enumerate(pts):
        snap["model.forward#%d" % i] = val(lambda: prob.model.forward(x))
        snap["get_components-model#%d" % i] = val(lambda: prob.get_components()[0].forward(x))
        snap["likelihood.logd#%d" % i] = val(lambda: prob.likelihood.logd(x))
        snap["prior.logd#%d" % i] = val(lambda: prob.prior.logd(x))
        snap["posterior.logd#%d" % i] = val(lambda: prob.posterior.logd(x))
    ids = {"model": id(prob.model), "likelihood": id(prob.likelihood), "prior": id(prob.prior), "posterior": id(prob.posterior)}
    return snap, ids


def eval_use(res, cell):
    """History cell: build a shipped problem, (optionally) assign a prior, decide (d) on it, run ONE operation of the
    public interface on the live object, and demand that everything the problem hands out afterwards (data everywhere,
    model, likelihood, prior, posterior evaluated on probe points) has the values it had before - hence the posterior
    is still Gaussian log-likelihood of the stated noise + log-prior."""
    import cuqi
    k, pk, op, prk = cell["cat"], cell["prob"], cell["op"], cell["prior"]
    comp = _USE_COMP[pk]
    sig = "C17|%s|components-after-use|op=%s" % (comp, op)
    try:
        if pk == "wang":
            prob = cuqi.testproblem.WangCubic(noise_std=0.5, data=2.5)
            var, positive = np.array([0.25]), False
            res.transitions += 1
        else:
            build, readings, positive = _use_setup(cell)
            prob, var = check_noise(res, comp, "use", build, readings, "noise=use", light=True)
        if prk != "default":
            prob.prior = _use_prior(prk, prob, k)
            res.transitions += 1
    except HarnessError:
        raise
    except Exception as e:
        _refused(res, e)
        return
    res.state("built,prior=%s" % prk)
    n = int(prob.model.domain_dim)
    pts = [1.0 + np.abs(refs.dyadic_vec(n, k, scale=0.125)), 0.5 + np.abs(refs.dyadic_vec(n, k + 2, scale=0.25))]
    if not positive:
        pts = [refs.dyadic_vec(n, k, scale=0.125), pts[1]]
    check_components(res, comp, prob, var, pts)          # the state before the operation is a correct one
    before, ids0 = _snapshot(prob, pts)
    res.transitions += 5 * len(pts)
    res.state("snapshot")
    try:
        with contextlib.redirect_stdout(io.StringIO()):
            if op == "MAP":
                prob.MAP(disp=False)
            elif op == "ML":
                prob.ML(disp=False)
            elif op == "sample_posterior":
                prob.sample_posterior(20)
            elif op == "sample_prior":
                prob.sample_prior(20)
            elif op == "UQ":
                try:
                    prob.UQ(Ns=20)
                finally:
                    import matplotlib.pyplot as plt
                    plt.close("all")
            else:
                raise ValueError(op)
        res.outcomes.add("op:%s:done" % op)
    except HarnessError:
        raise
    except Exception as e:
        # an operation may be unavailable for a prior / model (refusal) - it must still leave the problem alone
        res.refused += 1
        res.outcomes.add("op:%s:refused:%s" % (op, type(e).__name__))
    res.transitions += 1
    res.state("after:%s" % op)
    after, ids1 = _snapshot(prob, pts)
    res.transitions += 5 * len(pts)
    changed = []
    for key, a in before.items():
        b = after[key]
        res.evaluations += 1
        same = (a == b) if isinstance(a, str) or isinstance(b, str) else close(a, b, 1e-10)
        if not same:
            changed.append(key)
    if changed:
        res.fail(sig, "after %s() on the live problem object the components it hands out changed: %s (e.g. %s: %r -> %r)"
                 % (op, ", ".join(changed[:8]), changed[0], _short(before[changed[0]]), _short(after[changed[0]])))
    else:
        res.outcomes.add("after-use:unchanged")
    res.outcomes.add("objects-kept:" + ",".join(sorted(kk for kk in ids0 if ids0[kk] == ids1[kk])))
    # (values before == values after, and (d) was decided on the state before: (d) holds after the operation)
    res.state("components-after")


def _short(v):
    return v if isinstance(v, str) else np.asarray(v).ravel()[:4].tolist()


# ----------------------------------------------------------------------------------------
# (g) user-supplied prior: problem x prior family x how the prior's name is given x noise type
# ----------------------------------------------------------------------------------------
UP_NAMES = ["default", "x", "other", "inferred"]
UP_D1_OPTS = [("gauss", 3, "periodic"), ("custom", 4, "zero")]
UP_D2_OPTS = [("custom", 3, "neumann")]
_UP_OTHER = "z"                 # an explicit name that is not the one of the problem's default prior
_UP_LOCAL = "qprior"            # the caller's variable the library infers the name of an unnamed prior from


def _up_distribution(kind, params, geometry, name):
    """The cuqi distribution of family ``kind`` with the catalogue parameters (name=None: left unnamed)."""
    import cuqi
    D = cuqi.distribution
    cls = {"gaussian": D.Gaussian, "gmrf": D.GMRF, "lmrf": D.LMRF, "cmrf": D.CMRF, "laplace": D.Laplace,
           "uniform": D.Uniform}[kind]
    kw = {kk: (np.array(v, dtype=float) if isinstance(v, np.ndarray) else v) for kk, v in params.items()}
    if kind in ("gmrf", "lmrf", "cmrf"):
        kw["bc_type"] = "zero"
    kw["geometry"] = geometry
    if name is not None:
        kw["name"] = name
    return cls(**kw)


def _up_setup(cell):
    """-> (component, ctor(prior) -> problem, reference forward x -> mean, n, shape of the prior's field,
           geometry argument of the prior, admissible noise-variance readings or None (WangCubic: fixed variance),
           facet string)."""
    import cuqi
    k, pk = cell["cat"], cell["prob"]
    Tp = cuqi.testproblem
    if pk == "d1":
        dim, bc = cell["dim"], cell["BC"]
        par = [1.25, 2.0, 1.5][k]
        P = tp.custom_psf_1d(cell["size"], k) if cell["PSF"] == "custom" else cell["PSF"]
        Pref = P if cell["PSF"] == "custom" else tp.psf_1d(cell["PSF"], cell["size"], par)
        R = tp.conv1d_matrix(Pref, dim, bc)
        ph = 1.0 + np.abs(refs.dyadic_vec(dim, k + 1))          # positive: scaled noise has no zero variance
        okw = {} if cell["PSF"] == "custom" else {"PSF_param": par, "PSF_size": cell["size"]}

        def ctor(prior):
            return Tp.Deconvolution1D(dim=dim, PSF=P, BC=bc, phantom=ph.copy(), noise_type=cell["noise"],
                                      noise_std=cell["std"], prior=prior, **okw)
        return "Deconvolution1D", ctor, (lambda x: R @ x), dim, (dim,), dim, _up_readings(cell), "noise=" + cell["noise"]
    if pk == "d1leg":
        dim = cell["dim"]
        if cell["PSF"] == "custom":
            Pc = tp.custom_psf_1d(dim, k)
            P, par = Pc, None
            h = np.array([Pc[(i + dim // 2) % dim] for i in range(dim)])
        else:
            P, par = cell["PSF"], [8.0, 12.0, 6.0][k]
            h = tp.legacy_kernel(cell["PSF"], dim, par)
        R = tp.circulant(h)

        def ctor(prior):
            return Tp.Deconvolution1D(dim=dim, PSF=P, PSF_param=par, use_legacy=True, noise_type=cell["noise"],
                                      noise_std=cell["std"], prior=prior)
        return ("Deconvolution1D", ctor, (lambda x: R @ x), dim, (dim,), dim, _up_readings(cell),
                "legacy,noise=" + cell["noise"])
    if pk == "d2":
        dim, bc = cell["dim"], cell["BC"]
        n = dim * dim
        par = [1.25, 2.0, 1.5][k]
        P = tp.custom_psf_2d(cell["size"], k) if cell["PSF"] == "custom" else cell["PSF"]
        Pref = P if cell["PSF"] == "custom" else tp.psf_2d(cell["PSF"], cell["size"], par)
        R = tp.conv2d_matrix(Pref, dim, bc)
        ph = (1.0 + np.abs(refs.dyadic_vec(n, k + 1))).reshape(dim, dim)
        okw = {} if cell["PSF"] == "custom" else {"PSF_param": par, "PSF_size": cell["size"]}

        def ctor(prior):
            return Tp.Deconvolution2D(dim=dim, PSF=P, BC=bc, phantom=ph.copy(), noise_type=cell["noise"],
                                      noise_std=cell["std"], prior=prior, **okw)
        if cell["pgeom"] == "image2d":          # the geometry of the problem's own default prior
            shape, geom = (dim, dim), cuqi.geometry.Image2D((dim, dim))
        else:                                   # a prior left on its default (1-D) geometry of the right dimension
            shape, geom = (n,), n
        # (the geometry of the prior is not part of the signature facet: noise type and name kind are)
        return "Deconvolution2D", ctor, (lambda x: R @ x), n, shape, geom, _up_readings(cell), "noise=" + cell["noise"]
    if pk == "wang":
        kw = {} if cell["data"] is None else {"data": cell["data"]}

        def ctor(prior):
            return Tp.WangCubic(noise_std=cell["std"], prior=prior, **kw)
        return "WangCubic", ctor, (lambda x: np.array([tp.wang_cubic(x)])), 2, (2,), 2, None, "noise=gaussian"
    raise ValueError(pk)


def _up_readings(cell):
    std = cell["std"]
    if cell["noise"] == "gaussian":
        return lambda y: [np.full(y.size, std ** 2)]
    return lambda y: [(std * y) ** 2]


def eval_uprior(res, cell):
    """User-supplied prior.  The constructors document ``prior : cuqi.distribution.Distribution`` without restriction
    on family or name, so for every cell of the product construction must succeed (a raise is a verdict), the
    parameter of likelihood and posterior must be the prior's variable, the prior handed out must be the density that
    was passed, the data must still be exactData + stated noise, and
        posterior.logd(x) == Gaussian log-likelihood(stated noise; reference operator) + reference log-prior,
    evaluated positionally and by keyword (the prior's name)."""
    k, pfam, nk = cell["cat"], cell["pfam"], cell["name"]
    comp, ctor, fwd_ref, n, shape, geom, readings, facet = _up_setup(cell)
    nfacet = facet                                   # (noise verdicts are named by the noise type only)
    facet = "%s,name=%s" % (facet, nk)
    params = tp.user_prior_params(pfam, n, k)
    res.count("uprior:" + cell["prob"])
    # the name the posterior's parameter must carry
    if nk == "default":
        # "the name of the problem's own default prior", read off a default-constructed sibling
        try:
            sib, _ = _scripted(lambda: ctor(None), None)
            expected = sib.prior.name
            res.transitions += 1
        except HarnessError:
            raise
        except Exception as e:
            _refused(res, e)
            return
        if not isinstance(expected, str):
            res.fail("C17|%s|user-prior|default-prior-unnamed" % comp, "the default prior has name %r" % (expected,))
            return
    else:
        expected = {"x": "x", "other": _UP_OTHER, "inferred": _UP_LOCAL}[nk]

    def build():
        if nk == "inferred":
            # unnamed prior held in the caller's local variable ``qprior``: the library infers the name from it
            qprior = _up_distribution(pfam, params, geom, None)
            return ctor(qprior)
        return ctor(_up_distribution(pfam, params, geom, expected))
    try:
        prob, _ = _scripted(build, None)
        res.transitions += 1
    except HarnessError:
        raise
    except Exception as e:
        res.state("construct-raises")
        res.transitions += 1
        res.outcomes.add("construct-raises:" + type(e).__name__)
        res.fail("C17|%s|user-prior|construct-raises,%s" % (comp, facet), "the constructor raised %s: %s for a %s prior "
                 "whose name (%r) is given as '%s' - a documented-legal option combination" %
                 (type(e).__name__, str(e)[:200], pfam, expected, nk), family=pfam, prior_geometry=cell.get("pgeom"))
        return
    res.state("built")
    # the variable of prior / likelihood / posterior
    res.evaluations += 1
    try:
        names = {"prior.name": prob.prior.name, "likelihood": list(prob.likelihood.get_parameter_names()),
                 "posterior": list(prob.posterior.get_parameter_names())}
    except HarnessError:
        raise
    except Exception as e:
        res.fail("C17|%s|user-prior|parameter-name-raises,%s" % (comp, facet), "asking for the parameter names raised %r" % (e,))
        return
    if names != {"prior.name": expected, "likelihood": [expected], "posterior": [expected]}:
        res.fail("C17|%s|user-prior|parameter-name,%s" % (comp, facet), "the prior was given the name %r (%s); the problem "
                 "hands out %r" % (expected, nk, names), family=pfam)
        return
    res.outcomes.add("parameter:%s" % expected)
    res.state("named")
    # data: exactData == reference operator(exactSolution), data == exactData + stated noise whatever the prior
    if readings is None:
        pz = prob
        var = np.array([float(cell["std"]) ** 2])
        data_ref = 1 if cell["data"] is None else cell["data"]
        res.evaluations += 1
        if not close(_arr(prob.data), data_ref, 1e-15):
            res.fail("C17|%s|user-prior|data,%s" % (comp, facet), "data is not the given (default 1) observation")
            return
    else:
        res.evaluations += 1
        if not close(_arr(prob.exactData).ravel(), fwd_ref(_arr(prob.exactSolution).ravel()), 1e-9):
            res.fail("C17|%s|user-prior|exactData,%s" % (comp, facet), "exactData is not the documented operator applied to "
                     "exactSolution when a prior is supplied", family=pfam)
            return
        pz, var = check_noise(res, comp, facet, build, readings, "user-prior," + nfacet, light=True)
        if var is None:
            return
    res.state("noise")
    pts = [np.zeros(n), refs.dyadic_vec(n, k, scale=0.125), refs.dyadic_vec(n, k + 2, scale=0.5), np.eye(n)[0],
           np.eye(n)[n - 1], params.get("mean", np.zeros(n)) + 0.25 * np.eye(n)[n // 2]]
    check_components(res, comp, pz, var, pts)            # (d) with the library's own model / prior evaluations
    if res.failures:
        return
    res.state("components")
    if np.any(np.asarray(var) <= 0):
        return
    d = _arr(pz.data).ravel()
    worst = 0.0
    for x in pts:
        lp_ref = tp.user_prior_logd(pfam, params, x, shape)
        ll_ref = refs.gauss_logpdf(d, fwd_ref(x), np.asarray(var, float))
        res.transitions += 4
        try:
            got = {"prior.logd": float(_arr(pz.prior.logd(x)).ravel()[0]),
                   "posterior.logd": float(_arr(pz.posterior.logd(x)).ravel()[0]),
                   "posterior.logd(keyword)": float(_arr(pz.posterior.logd(**{expected: x})).ravel()[0]),
                   "likelihood.logd(keyword)": float(_arr(pz.likelihood.logd(**{expected: x})).ravel()[0])}
        except HarnessError:
            raise
        except Exception as e:
            res.fail("C17|%s|user-prior|logd-raises,%s" % (comp, facet), "evaluating prior / posterior / likelihood (positionally "
                     "and by the keyword %r) raised %r" % (expected, e), x=x, family=pfam)
            return
        want = {"prior.logd": lp_ref, "posterior.logd": ll_ref + lp_ref, "posterior.logd(keyword)": ll_ref + lp_ref,
                "likelihood.logd(keyword)": ll_ref}
        for key, w in want.items():
            res.evaluations += 1
            g = got[key]
            ok = (g == w) if not np.isfinite(w) else (np.isfinite(g) and close(g, w, 1e-9))
            if not ok:
                res.fail("C17|%s|user-prior|%s,%s" % (comp, key, facet), "%s = %r; reference (Gaussian log-likelihood of the "
                         "stated noise %r, log-density of the %s prior that was passed %r) gives %r" %
                         (key, g, ll_ref, pfam, lp_ref, w), x=x, family=pfam)
                return
            if np.isfinite(w):
                worst = max(worst, abs(g - w))
        res.outcomes.add("log-prior:" + ("finite" if np.isfinite(lp_ref) else "-inf"))
    res.outcomes.add("user-prior:ok")
    res.state("posterior==loglik+logprior")
    res.sample = {"family": pfam, "name": expected, "posterior_logd_minus_reference_max_abs": worst, "points": len(pts)}


# ----------------------------------------------------------------------------------------
# (i) magnitude of a user-supplied PSF: scale-homogeneous oracle
# ----------------------------------------------------------------------------------------
PSF_SCALES = [("2^-40", 2.0 ** -40), ("2^-30", 2.0 ** -30), ("1", 1.0), ("2^30", 2.0 ** 30)]


def eval_psfmag(res, cell):
    """Custom signed non-symmetric ndarray PSF x exact power of two s (noise_std = 0.05 s): forward, adjoint, exactData,
    data and posterior.gradient of the scaled problem against (a) s x dense references built from the UNSCALED PSF and
    (b) the unscaled sibling problem (homogeneity of degree one in the PSF)."""
    import cuqi
    k, dim, size, bc, two_d = cell["cat"], cell["dim"], cell["size"], cell["BC"], cell["prob"] == "d2"
    comp = "Deconvolution2D" if two_d else "Deconvolution1D"
    s = dict(PSF_SCALES)[cell["scale"]]
    n = dim * dim if two_d else dim
    Pc = tp.custom_psf_2d(size, k) if two_d else tp.custom_psf_1d(size, k)
    sfx = "PSF-scale=%s,PSF_size=%s" % (cell["scale"], _parity(size))
    xs = refs.dyadic_vec(n, k + 1)
    z = refs.dyadic_vec(n, k + 3, scale=0.5)
    mean, var = refs.dyadic_vec(n, k, scale=0.125), 0.5 + 0.125 * np.arange(n)

    def build(sc):
        if two_d:
            geom = cuqi.geometry.Image2D((dim, dim))
            return cuqi.testproblem.Deconvolution2D(dim=dim, PSF=Pc * sc, BC=bc, noise_type="gaussian", noise_std=0.05 * sc,
                                                    phantom=xs.reshape(dim, dim),
                                                    prior=_make_prior("gaussian-u", n, k, geometry=geom))
        return cuqi.testproblem.Deconvolution1D(dim=dim, PSF=Pc * sc, BC=bc, noise_type="gaussian", noise_std=0.05 * sc,
                                                phantom=xs, prior=_make_prior("gaussian-u", n, k))

    def observe(sc):
        prob, st = _scripted(lambda: build(sc), z)
        o = {"F": _columns(prob.model.forward, n), "G": _columns(prob.model.adjoint, n),
             "ex": _arr(prob.exactData).ravel(), "y": _arr(prob.data).ravel()}
        res.transitions += 2 * n
        try:
            o["g"] = [_arr(prob.posterior.gradient(x)).ravel() for x in pts]
            res.transitions += len(pts)
        except HarnessError:
            raise
        except Exception as e:
            o["g"] = None
            res.outcomes.add("gradient:refused:" + type(e).__name__)
        return o
    pts = [np.zeros(n), refs.dyadic_vec(n, k + 2), np.eye(n)[n // 2]]
    if not is_asym(Pc):
        raise HarnessError("catalogue PSF is point-symmetric")
    try:
        o = observe(s)
        o1 = observe(1.0) if s != 1.0 else None
    except HarnessError:
        raise
    except Exception as e:
        res.fail("C17|%s|construct-or-apply|raises,%s" % (comp, sfx), "custom PSF scaled by %s: %r" % (cell["scale"], e))
        return
    res.state("built")
    R = (tp.conv2d_matrix if two_d else tp.conv1d_matrix)(Pc, dim, bc)
    # documented adjoint: 1-D = transpose of the assembled matrix; 2-D = the same padded convolution with the PSF
    # rotated by 180 degrees (see ASSUMPTIONS: the exact transpose only for odd PSF sizes under zero / periodic BC)
    Radj = tp.conv2d_matrix(np.ascontiguousarray(Pc[::-1, ::-1]), dim, bc) if two_d else R.T
    res.outcomes.add("adjoint-reference:" + ("transpose" if close(Radj, R.T, 1e-13) else "rotated-PSF(not the transpose)"))
    y0 = R @ xs + 0.05 * z
    gref = [Radj @ (y0 - R @ x) / 0.05 ** 2 - (x - mean) / var for x in pts]
    facet = "BC=%s,%s" % (bc, sfx)

    def judge(what, got, ref, tol, why):
        res.evaluations += 1
        if got.shape != ref.shape or not np.all(np.isfinite(got)) or not close(got, ref, tol):
            err = float(np.max(np.abs(got - ref))) if got.shape == ref.shape else float("nan")
            res.fail("C17|%s|%s|%s" % (comp, what, sfx), "%s (max abs deviation after dividing by the scale %.3g; %s)"
                     % (why, err, facet), facet=facet)
            return False
        return True
    ok = judge("forward", o["F"] / s, R, 1e-9, "forward matrix of the problem with PSF s*P is not s x the documented convolution with P")
    ok &= judge("adjoint", o["G"] / s, Radj, 1e-9, "adjoint matrix of the problem with PSF s*P is not s x the documented adjoint "
                "(transpose / rotated-PSF convolution) of the convolution with P")
    judge("exactData", o["ex"] / s, R @ xs, 1e-9, "exactData is not s x (A exactSolution)")
    judge("data", o["y"] / s, y0, 1e-9, "data is not exactData + noise_std * z")
    if o["g"] is not None:
        for i, (g, gr) in enumerate(zip(o["g"], gref)):
            # noise_std scales with the PSF: the posterior gradient is scale free
            if not judge("gradient", g, gr, 1e-9 * max(1.0, float(np.max(np.abs(gr)))),
                         "posterior.gradient at lattice point %d differs from adjoint(data - A x)/noise_std^2 + grad log-prior "
                         "built from the reference matrices" % i):
                break
    res.state("references")
    if o1 is not None:
        # differential: homogeneity of degree one in the PSF (power-of-two scale: no rounding involved)
        for key, what in (("F", "forward"), ("G", "adjoint"), ("ex", "exactData"), ("y", "data")):
            judge(what + "-homogeneity", o[key] / s, o1[key], 1e-13, "%s of the problem with PSF s*P (noise_std 0.05 s) is not s x that "
                  "of the problem with PSF P (noise_std 0.05)" % what)
        if o["g"] is not None and o1["g"] is not None:
            for g, g1 in zip(o["g"], o1["g"]):
                if not judge("gradient-homogeneity", g, g1, 1e-11 * max(1.0, float(np.max(np.abs(g1)))),
                             "posterior.gradient changes when PSF and noise_std are scaled together"):
                    break
        res.state("homogeneous")
    res.outcomes.add("psf-scale:ok" if not res.failures else "psf-scale:violated")


def is_asym(P):
    Q = P[::-1] if P.ndim == 1 else P[::-1, ::-1]
    return float(np.max(np.abs(P - Q))) > 0.01 * float(np.max(np.abs(P)))


def eval_cell(cell):
    res = CellResult(cell)
    fam = cell["fam"]
    res.count(fam)
    if fam in ("d1", "d1leg"):
        eval_d1(res, cell)
    elif fam == "d2":
        eval_d2(res, cell)
    elif fam == "heat":
        eval_heat(res, cell)
    elif fam == "poisson":
        eval_poisson(res, cell)
    elif fam == "abel":
        eval_abel(res, cell)
    elif fam == "wang":
        eval_wang(res, cell)
    elif fam == "use":
        eval_use(res, cell)
    elif fam == "uprior":
        eval_uprior(res, cell)
    elif fam == "psfmag":
        eval_psfmag(res, cell)
    else:
        raise ValueError(fam)
    return res
