"""C15 - MAP/ML estimates are true maximisers; direct Gaussian sampling has exact moments.

E3 configuration explorer + E2 scripted stream.

Families of cells
  lg     linear-Gaussian BayesianProblems with a LinearModel (closed-form MAP route, direct/Cholesky
         sampling route): full product sizes x likelihood-Gaussian spec (4 parameterisations x
         scalar/vector/diagonal/dense) x prior-Gaussian spec (same 16) x model (matrix / function backed)
         [sub-facet of a sqrtcov / sqrtprec specification: sign / orientation of the square root - positive,
         all-negative, mixed-sign scalar / vector / diagonal-matrix roots; dense R, -R, R with one generator
         (column of a sqrtcov, row of a sqrtprec) negated, symmetric root, lower- and upper-triangular factor,
         triangular factor with a negative diagonal entry: all denote the SAME reference covariance, on the noise
         and on the prior side, for MAP (closed form and optimiser), ML and direct sampling]
         x domain geometry (default / Continuous1D / StepExpansion / KLExpansion all modes /
         KLExpansion truncated / MappedGeometry) x forward-model definition (which operator: dense catalogue
         matrix / node selection x[::2], x[1:], x; how it is handed over: dense ndarray, scipy.sparse csr / csc,
         forward+adjoint functions; what the functions return: freshly computed ndarray, a view of the input /
         the input object itself, a CUQIarray; how the LinearModel object was obtained from the defining one: the
         defined object itself / the transpose B.T of a model B defined with the TRANSPOSED operator and swapped
         geometries / B.T after B.get_matrix() ran on the parent / the double transpose (B.T).T - all the same
         forward model, for square non-symmetric, square symmetric and non-square operators); inside a cell: prior mean (scalar 0 / scalar / zero
         vector / vector) x {as specified, after the public compute_cov()} -> MAP() and
         sample_posterior() (standard-normal request answered with the complete basis).
  ml     ML() over sizes x likelihood spec x model x geometry.
  lgopt  the same linear-Gaussian posteriors behind a generic cuqi.model.Model (with / without
         Jacobian) -> MAP() goes through scipy.
  nl     non-linear / non-Gaussian unimodal problems (WangCubic, exp-link Model, LMRF / CMRF / Laplace
         priors, Laplace noise, small Heat1D / Poisson1D): neighbour + gradient oracle only.
  hist   process histories: a SEQUENCE of independent problems solved in one process whose complete history is the
         cell (a process forked from a pristine interpreter that imported the library and never constructed an
         object of it): problem 1 -> problem 2 -> problem 1 requested again from the same objects -> problem 1 built
         again; (a) optimiser route: a tiny problem (1-2 unknowns: ML of a matrix / function LinearModel, MAP behind
         a generic Model with / without Jacobian) and a large badly conditioned one (100 unknowns, ~650 BFGS
         iterations: ML of a LinearModel, MAP behind a generic Model with Jacobian) in both orders; (b) closed-form /
         direct route: two DIFFERENT problems that have user-side objects in common (the same forward+adjoint
         function objects or the same matrix object under two geometries; the same data array object under two
         noise specifications; the same prior object under two operators and noises; the same model object under
         two priors; functions + data + prior objects under two geometries and noises) in both orders.  Every step
         meets the unchanged oracle of its own problem as if solved alone; problem 1 after problem 2 = before it.

  gmode  gradient-mode histories on ONE problem object: the public switch enable_FD(epsilon) / disable_FD() addressed
         to the posterior or to one of its sub-objects (likelihood, the data distribution behind it, prior) x magnitude
         of epsilon (default 1e-8, 2^-10, 2^-1) x history (none / on / on-off / on-estimates-off), then ML() and MAP()
         of that object (LinearModel by matrix / functions, generic Model with / without Jacobian): after disable_FD()
         the unchanged oracle of a fresh object (exact-gradient tolerance where the model provides the gradient).

Oracle (reference model = dense numpy, the forward map enters only as a black box through
forward(0), forward(e_i)): an estimate call raises, or the optimiser reports failure, or the returned
point x* (i) has the parameter shape, (ii) for linear-Gaussian problems equals the closed-form
posterior mean / weighted least-squares solution, (iii) no lattice neighbour x* +- h e_i,
h in {0.05, 0.5} sigma_i improves the reference log-density by more than 1e-6 (1+|logd|), (iv) the
reference gradient is below the termination tolerance of scipy's default stopping rules.
A violating configuration is reduced facet by facet towards the baseline configuration
(scalar covariances, zero vector mean, matrix model, default geometry); the finding signature
carries only the facets that are necessary for the failure.
"""
import contextlib
import io
import math

import numpy as np

from vfw.core import CellResult, close, HarnessError
from vfw import refs
from vfw.stream import Stream, affine_probe

PROPERTY = "C15"
RULE = ("cells = family x full configuration product (see BOUND) of sizes, Gaussian specifications (parameterisation x "
        "shape x, for sqrtcov / sqrtprec, sign / orientation of the square root: std / all-negative / mixed-sign "
        "scalar, vector and diagonal-matrix roots, dense R / -R / one generator negated / symmetric / lower / upper "
        "triangular / triangular with a negative diagonal entry - every one a root of the same reference covariance), geometry and "
        "forward-model definition (operator: dense catalogue matrix / node selections x[::2], x[1:], x; handed over as "
        "dense ndarray / scipy.sparse matrix / forward+adjoint functions (LinearModel) / forward function with or "
        "without Jacobian (generic Model); functions returning a freshly computed ndarray / a view of their input or "
        "the input object itself / a CUQIarray; LinearModel object obtained as: the defined object / B.T of a model B that "
        "was defined with the transposed operator and swapped geometries / B.T after B.get_matrix() / (B.T).T, for the "
        "catalogue matrix in square non-symmetric, square symmetric ((A+A^T)/2) and non-square shapes); every lg cell evaluates MAP() and the direct "
        "sampler for 4 prior-mean kinds x {as specified, after compute_cov()} and answers the standard-normal "
        "request with the complete basis {0,e_1..e_n}+1 linearity probe+1 three-draw run; every returned point is "
        "compared with the dense closed form and with all 4n lattice neighbours of the reference log-density; "
        "a cell is non-trivial when at least one estimate/draw was returned (not refused) and judged; "
        "process-history facet (family hist): each cell is one complete process history, evaluated in a process forked "
        "from a pristine interpreter (library imported, no object ever constructed; one such interpreter per worker, "
        "one fork per cell - what other cells did can not reach it): problem 1 on new objects -> problem 2 on new "
        "objects -> every estimate / draw of problem 1 requested again from the SAME problem-1 objects -> problem 1 "
        "built once more; sequences = ordered pairs of (a) one tiny (1-2 unknowns) and one large badly conditioned "
        "(100 unknowns, singular values 1..1e-5, ~650 BFGS iterations from the default start) optimiser-route problem, "
        "(b) two different closed-form / direct-route problems with common user-side objects (kind of common object x "
        "what differs: function objects or matrix object x ordered pair of geometries; data array object x ordered "
        "pair of noise specifications; prior object x ordered pair of (operator values, noise specification); model "
        "object x ordered pair of (prior specification, prior mean, noise); function+data+prior objects x ordered pair "
        "of (geometry with the same number of parameters, noise)); at every step MAP(), direct sampling on the "
        "complete basis and ML() (b) resp. the one estimate (a) meet the unchanged oracle, and the direct-route "
        "results of problem 1 after problem 2 equal those before it to 1e-9; "
        "gradient-mode facet (family gmode): each cell is one history on ONE new problem object: the public switch calls "
        "enable_FD(epsilon) / disable_FD() addressed to {the posterior, its likelihood, the data distribution behind the "
        "likelihood, the prior} x epsilon in {default 1e-8, 2^-10, 2^-1} x history in {no call; enable_FD(); "
        "enable_FD(eps), disable_FD(); enable_FD(eps), ML() and MAP() requested [not judged], disable_FD()}, then ML() "
        "and MAP() of that object are held against the dense closed form / lattice neighbours / reference gradient: "
        "after disable_FD() with the tolerance of a fresh object (exact-gradient termination where the model provides "
        "the gradient), while finite differences with the default step are on with the finite-difference allowance; a "
        "failure that a fresh object without any switch call shows alike is reported by the history 'none' cell only")
BOUND = {
    "quick": "lg: (m,n)=(3,2) full 16x16 spec product for (matrix model, default geometry) and (function model, "
             "StepExpansion); every other model x geometry (2 x 6) and the sizes (3,3),(2,3): 34 spec pairs (each of "
             "the 16 likelihood / 16 prior specs against the scalar-cov partner + 2 mixed); each cell x 4 prior means "
             "x {as given, compute_cov()} x {MAP, direct sampling on the basis}; ml: 3 sizes x 16 specs x 2 models x "
             "6 geometries; lgopt: (3,2) x 34 spec pairs x 2 generic models x 3 geometries x 2 means; nl: 16 problems "
             "x 1 variant; lattice: 4n neighbours at 0.05/0.5 sigma; value catalogue = seed % 3; "
             "square-root orientation: the 20 non-standard oriented specs (sqrtcov, sqrtprec) x (scalar: neg; vector, "
             "diag: neg, mixed; dense: neg, flip, lower, lowerflip + upper (sqrtcov) / sym (sqrtprec)): lg: each on the "
             "likelihood side and each on the prior side against a scalar-cov partner + 6 pairs oriented on both sides "
             "(46 pairs) x {(3,2) matrix model default geometry, (2,3) function model StepExpansion} (x 4 means x "
             "{as given, compute_cov()} x {MAP, direct sampling}); ml: 20 oriented noise specs x 3 sizes x 2 models x "
             "{default, StepExpansion} + vector neg / mixed for sqrtcov, sqrtprec at dimension 76; lgopt: (3,2) x 46 "
             "pairs x 2 generic models x default geometry x 2 means; "
             "forward-model definitions: lg: {catalogue matrix as csr; catalogue matrix as functions returning "
             "CUQIarray; x[::2], x[1:], x as functions returning views / the input object} x sizes (3,2),(2,3) "
             "(selections: n in {2,3}, m = number of selected nodes) x 6 geometries x 5 spec pairs (every "
             "parameterisation and shape at least once on each side; 34 pairs for default geometry, n=2); ml: the same 5 "
             "definitions x n=3 (catalogue matrix: (3,3)) x 4 specs x 6 geometries; lgopt: {x[::2], x[1:], x returning views; catalogue matrix "
             "returning CUQIarray} x 2 generic models x 2 sizes x 5 spec pairs x 3 geometries x 2 means; "
             "derived models: lg: {B.T, B.T after B.get_matrix(), (B.T).T} x {matrix-defined, function-defined parent} x 10 operator shapes (default geometry: 3x3 "
             "catalogue matrix [square, verified non-symmetric], its symmetric part, 3x2, 2x3; Continuous1D: 3x3; "
             "StepExpansion: 3x4 and 4x4 on 4 function values; KLExpansion all modes: 3x3; truncated: 4x4 on 4 function "
             "values; MappedGeometry: 3x3) x 5 spec pairs (x 4 means x {as given, compute_cov()} x {MAP, MAP(x0), direct "
             "sampling} + ML after MAP); ml: the same derivations x parents x shapes x 4 noise specs; nl: LMRF / CMRF "
             "prior problems additionally with the 4x3 operator given as B.T (MAP through the optimiser, ML); "
             "process histories (4 steps each): (a) 4 tiny problems {ML n=1 matrix LinearModel, ML n=2 function "
             "LinearModel, MAP n=1 generic Model without Jacobian, MAP n=2 generic Model with Jacobian} x 2 large {ML "
             "105x100 LinearModel, MAP 105x100 generic Model with Jacobian} x 2 orders; (b) on N=4 function values, m=5 "
             "data: {function objects, matrix object} in common x all 30 ordered pairs of the 6 geometries (scalar "
             "covariances); data array object in common x 12 ordered pairs of 4 noise specs x {matrix model default "
             "geometry, function model KLExpansion}; prior object in common x 12 ordered noise pairs (and two operators) x "
             "2 prior specs x the same 2 models; model object in common x 12 ordered pairs of 4 prior specs (zero / "
             "vector mean, two noises) x {matrix default, function KLExpansion, matrix StepExpansion}; function+data+prior "
             "objects in common x 12 ordered pairs of the 4 geometries with n = N x 2 noise pairs; "
             "gradient-mode histories: (3,2) x {matrix, function LinearModel, generic Model with / without Jacobian} x "
             "{default, StepExpansion} x 2 spec pairs x zero-vector mean x 29 switch histories (none; on[default eps] x 4 "
             "addressees; {on-off, on-estimates-off} x 4 addressees x 3 eps) x {ML, MAP}",
    "thorough": "lg: (m,n) in {(3,2),(3,3),(2,3)} x 16 likelihood specs x 16 prior specs x 2 models x 6 geometries, "
                "plus (1,2),(2,1),(4,3) x 34 spec pairs x 2 x 6 (each cell x 4 means x 2 x {MAP, direct sampling}); "
                "ml: 3 sizes x 16 x 2 x 6 x 2 start points; lgopt: 3 sizes x 16 x 16 x 2 x 3 x 2; nl: 16 problems x 3 "
                "variants; value catalogue = seed % 3; square-root orientation: lg: (3,2) matrix model default geometry: full "
                "product of the 21 (20 oriented + scalar cov) likelihood x 21 prior specs (440 pairs), every other of 3 "
                "sizes x 2 models x 6 geometries: 46 pairs; ml: 20 oriented specs x 3 sizes x 2 models x 6 geometries x 2 "
                "starts + vector neg / mixed, scalar neg at dimension 76; lgopt: (3,2): 440 pairs, (3,3),(2,3): 46 pairs, "
                "x 2 generic models x 3 geometries x 2 means; forward-model definitions: lg: the 5 quick definitions + "
                "catalogue matrix as csc: sizes (3,2),(3,3),(2,3) / n in {2,3} x 6 geometries x 34 spec pairs; each "
                "selection x[::2], x[1:], x additionally as dense matrix / csr matrix / functions computing S@x / "
                "functions returning CUQIarray(S@x): n in {2,3} x 6 geometries x (34 pairs for default and Continuous1D "
                "geometry, 5 otherwise); ml: all 18 definitions x sizes x 16 specs x 6 geometries x 2 starts; lgopt: "
                "selections x {view, fresh, CUQIarray} + catalogue matrix returning CUQIarray, 2 generic models x 2 "
                "sizes x 34 pairs x 3 geometries x 2 means; derived models: lg: {B.T, B.T after B.get_matrix(), (B.T).T} x parents {dense matrix, csr matrix, functions returning ndarray, "
                "functions returning CUQIarray} x 6 geometries x operators {catalogue matrix (3,2),(3,3),(2,3) and "
                "square on the function values of n = 2, 3 parameters; symmetric part of the square ones; x[::2], x[1:], "
                "x for n = 2, 3} x (34 spec pairs for default geometry, 5 otherwise); ml: the same x 16 noise specs x 2 "
                "starts; nl: as quick x 3 variants; process histories: (a) as quick + all ordered pairs of two tiny and "
                "of the two large problems; (b) N in {4, 6}: {function objects returning ndarray / CUQIarray, dense / csr "
                "matrix object} x 30 ordered geometry pairs x 5 spec pairs; data / model object: all 240 ordered pairs of "
                "the 16 specs x models as quick; prior object: 4 prior specs x 12 ordered noise pairs x 2 models; "
                "function+data+prior: 12 geometry pairs x 12 ordered noise pairs; gradient-mode histories: sizes (3,2),"
                "(3,3) x 4 models x {default, StepExpansion, MappedGeometry} x 5 spec pairs x {zero-vector, vector mean} x "
                "the 29 switch histories x {ML, MAP}",
}
ASSUMPTIONS = [
    "the forward map is taken as a black box: the effective parameter-to-data matrix is [forward(e_i)-forward(0)] "
    "of the model under test (its correctness is the subject of C07/C12/C13), densities are re-computed in dense numpy",
    "square roots follow the documented (and implemented) conventions cov = sqrtcov @ sqrtcov.T and prec = "
    "sqrtprec.T @ sqrtprec; the standard dense sqrtcov is the symmetric root, the standard dense sqrtprec the "
    "upper-triangular Cholesky factor; every non-standard orientation is verified (dense numpy) to reproduce the "
    "reference covariance before it is handed over",
    "a square root with negative entries (negative scalar / vector / diagonal entries, -R, one generator negated) is "
    "taken as a legal specification of the Gaussian whose covariance is R R^T resp. (R^T R)^-1 - the documentation "
    "words the scalar / vector case as 'standard deviation' without excluding signs and the implementation accepts "
    "them; as everywhere, a raise at construction or at the estimate is accepted as refusal",
    "orientation representatives are sign matrices and the three factor forms; general orthogonal mixing R Q (dense, "
    "non-triangular, non-symmetric roots) and rectangular roots are not enumerated; the negated generator is the "
    "middle one (index dim // 2)",
    "an optimiser result with info['success'] false is counted as a refusal, not as a returned estimate",
    "gradient tolerance = 20 x what scipy's default stopping rules (gtol/pgtol 1e-5, factr 1e7, 2-point differences "
    "with step 1.5e-8) guarantee on the reference Hessian; neighbour tolerance 1e-6 (1+|logd|)",
    "unimodality of the nl problems: log-concave by construction (LMRF/Laplace/exp-link cases) or verified by "
    "multi-start optimisation of the reference density when the check was written (WangCubic, CMRF, Poisson1D)",
    "sample_posterior is observed with Ns=1 and Ns=3; the law of numpy's randn is the trusted base",
    "forward-model definition facet: the view-returning definitions are basic-indexing views (x[::2], x[1:]) and "
    "the input object itself; the functions never write to their argument; advanced-indexing / reshaping / "
    "in-place-mutating operators and sparse formats other than csr/csc are not enumerated; the reference probes the "
    "forward map with a newly allocated vector per call, so it cannot be affected by aliasing itself",
    "derived models: only LinearModel.T (single, double, and after get_matrix() on the parent) is enumerated as a way "
    "of deriving one LinearModel object from another; the parent B of a derived model is never applied by the check itself (for a "
    "non-identity geometry it carries that geometry on its range side; get_matrix() on such a parent is attempted and "
    "a raise there is ignored); a derived model "
    "that refuses (raises) at construction or at the estimate is accepted like every refusal; the square catalogue "
    "matrices are verified to be non-symmetric (max |A - A^T| >= 0.25) when the cells are enumerated",
    "process histories: histories have two distinct problems (four steps); the pristine interpreter has executed "
    "'import cuqi' (and its sub-packages) and nothing else of the library - state created by importing is part of every "
    "history; common user-side objects are never mutated by the check; a Gaussian not specified by cov gets the public "
    "compute_cov() (without it the direct route refuses); the large problems are verified by the same dense closed "
    "form (condition number of the Hessian 1e10: the value tolerance there is wide, the gradient decides); in hist "
    "cells whose model provides the gradient (LinearModel, generic Model with Jacobian) the gradient tolerance is 20 x "
    "(gtol 1e-5 + rounding) - the finite-difference allowance applies only to the generic Model without Jacobian; the "
    "L-BFGS-B (CMRF) route has no large problem (unimodality can not be verified there) and is not part of a history; "
    "optimiser results of problem 1 before / after problem 2 are each held against the closed form, not bitwise "
    "against each other",    "gradient-mode histories: the switch is the public enable_FD / disable_FD pair of the object it is addressed to; a "
    "raise of a switch call is a refusal; estimates requested while a coarse caller-chosen step is on are not judged "
    "(the approximation is the caller's choice), those with the default step 1e-8 are judged with the allowance for "
    "2-point differences; after disable_FD() the statement's oracle applies unchanged: the optimiser is taken to be "
    "handed the exact gradient for a LinearModel and for a generic Model with Jacobian under the default geometry "
    "(termination tolerance 20 x (gtol 1e-5 + rounding)), approximate gradients otherwise; histories have at most one "
    "enable / disable pair addressed to one object; switches addressed to the model or to several objects in one "
    "history are not enumerated",
]

PARAMS = ["cov", "prec", "sqrtcov", "sqrtprec"]
SHAPES = ["scalar", "vector", "diag", "dense"]
GEOMS = ["default", "cont", "step", "klall", "kltrunc", "mapped"]
MEANS = ["zero", "scalar", "zerovec", "vector"]
BASE = {"lp": "cov", "ls": "scalar", "pp": "cov", "ps": "scalar", "mean": "zerovec", "model": "matrix",
        "geom": "default", "precov": False, "op": "full", "ret": "fresh", "lo": "std", "po": "std", "derive": "none"}
FACET_ORDER = ["precov", "mean", "geom", "ret", "op", "model", "derive", "lo", "po", "lp", "ls", "pp", "ps"]
FACET_NAMES = ["model", "derive", "op", "ret", "geom", "lp", "ls", "lo", "pp", "ps", "po", "mean", "precov"]
# reduction targets tried in this order (default: the baseline value only); a selection operator that cannot be
# reduced to the full catalogue matrix (a view-returning definition only exists for selections) is reduced to the identity
REDUCE_TO = {"op": ["full", "ident"]}
# reductions that only apply to particular current values: a generic model without Jacobian is reduced to the one with
# Jacobian where the matrix model (closed-form route) does not fail; a sign pattern of a square root is reduced to the
# positive triangular factor / to "all entries negated" where the standard root does not fail
REDUCE_FROM = {("model", "generic-nograd"): ["matrix", "generic-jac"],
               ("derive", "T-cached"): ["none", "T"], ("derive", "TT"): ["none", "T"],
               ("lo", "mixed"): ["std", "neg"], ("lo", "flip"): ["std", "neg"], ("lo", "lowerflip"): ["std", "lower", "neg"],
               ("po", "mixed"): ["std", "neg"], ("po", "flip"): ["std", "neg"], ("po", "lowerflip"): ["std", "lower", "neg"]}

# ---- forward-model definition facet -------------------------------------------------------------------------
# op    which linear operator (function-value space -> data): "full" = dense catalogue matrix; "sym" = symmetric part
#       (A + A^T)/2 of the square catalogue matrix (derived-model cells only); selections of nodes:
#       "stride" = every second node (x[::2]), "slice" = all nodes but the first (x[1:]), "ident" = all nodes (x)
# model how it is handed to the library: dense ndarray / scipy.sparse csr / csc matrix, forward+adjoint functions
#       (LinearModel), forward function with / without Jacobian (generic Model)
# ret   what the functions return: "fresh" = a newly computed ndarray (A @ x), "view" = a basic-indexing view of the
#       input or the input object itself (selections only), "cuqiarray" = a newly computed CUQIarray
VIEW_OPS = ("stride", "slice", "ident")
DEFS_QUICK = [("full", "sparse-csr", "fresh"), ("full", "function", "cuqiarray"),
              ("stride", "function", "view"), ("slice", "function", "view"), ("ident", "function", "view")]
DEFS_THOROUGH = DEFS_QUICK + [("full", "sparse-csc", "fresh")] + [
    (op, mdl, ret) for op in VIEW_OPS
    for (mdl, ret) in [("matrix", "fresh"), ("sparse-csr", "fresh"), ("function", "fresh"), ("function", "cuqiarray")]]
GENERIC_DEFS = [("stride", "view"), ("slice", "view"), ("ident", "view"), ("full", "cuqiarray")]
GENERIC_DEFS_THOROUGH = GENERIC_DEFS + [(op, ret) for op in VIEW_OPS for ret in ("fresh", "cuqiarray")]
SMALL_PAIRS = [(("cov", "scalar"), ("cov", "scalar")), (("prec", "vector"), ("sqrtcov", "diag")),
               (("sqrtcov", "diag"), ("prec", "vector")), (("sqrtprec", "dense"), ("cov", "dense")),
               (("cov", "dense"), ("sqrtprec", "scalar"))]
SMALL_SPECS = [("cov", "scalar"), ("prec", "vector"), ("sqrtcov", "diag"), ("sqrtprec", "dense")]

# ---- derived models (sub-facet of the forward-model definition: how the LinearModel OBJECT of the problem was obtained)
# derive  "none"     the object that was defined (matrix / functions) is the forward model itself
#         "T"        a parent B is defined with the TRANSPOSED operator (matrix A^T, or functions y -> A^T y / f -> A f)
#                    and swapped geometries; the forward model is B.T (acts as A, the cell's operator)
#         "T-cached" as "T", but B.get_matrix() ran on the parent before it was transposed (for a function-defined
#                    parent, and for every parent with a non-identity geometry, a matrix is assembled from the parent's
#                    own forward map by then - whatever the parent caches must not leak into the transposed model)
#         "TT"       the parent is defined with A itself; the forward model is (B.T).T
# All four are the same forward model, hence the same closed-form posterior.  Operator shapes: square non-symmetric
# (catalogue matrix with m = number of function values), square symmetric (op "sym") and non-square.
DERIVES = ("T", "T-cached", "TT")
DERIVED_SHAPES_QUICK = [("full", (3, 3), "default"), ("sym", (3, 3), "default"), ("full", (3, 2), "default"),
                        ("full", (2, 3), "default"), ("full", (3, 3), "cont"), ("full", (3, 2), "step"),
                        ("full", (4, 2), "step"), ("full", (3, 3), "klall"), ("full", (4, 2), "kltrunc"),
                        ("full", (3, 3), "mapped")]
DERIVED_PARENTS_QUICK = [("matrix", "fresh"), ("function", "fresh")]
DERIVED_PARENTS_THOROUGH = DERIVED_PARENTS_QUICK + [("sparse-csr", "fresh"), ("function", "cuqiarray")]


def _derived_shapes(thorough):
    """(operator, (m, n), geometry) of the derived-model cells; m = None: follows from the operator."""
    if not thorough:
        return list(DERIVED_SHAPES_QUICK)
    out = []
    for geom in GEOMS:
        squares = [(_fun_dim(geom, n), n) for n in (2, 3)]
        for mn in [(3, 2), (3, 3), (2, 3)] + [q for q in squares if q not in [(3, 3)]]:
            out.append(("full", mn, geom))
        out += [("sym", q, geom) for q in squares]
        out += [(op, (None, n), geom) for op in VIEW_OPS for n in (2, 3)]
    return out


def _derived_defs(thorough):
    """(derive, model, ret, op, (m, n), geom) of all derived-model cells."""
    for (op, mn, geom) in _derived_shapes(thorough):
        for (model, ret) in (DERIVED_PARENTS_THOROUGH if thorough else DERIVED_PARENTS_QUICK):
            for derive in DERIVES:
                yield derive, model, ret, op, mn, geom


def _verify_catalogue_not_symmetric(k):
    """The square catalogue matrices of the derived-model cells must tell A from A^T."""
    for N in (2, 3, 4, 5, 6):
        A = refs.full_matrix(N, N, k)
        if float(np.max(np.abs(A - A.T))) < 0.25:
            raise HarnessError("catalogue matrix %dx%d (catalogue %d) is (nearly) symmetric" % (N, N, k))

# ---- sign / orientation of a square root (sub-facet of the Gaussian specification, sqrtcov / sqrtprec only) ------
# A square root is not unique: with cov = R R^T (sqrtcov) / prec = R^T R (sqrtprec) every R Q, Q orthogonal (resp. Q R),
# denotes the same Gaussian.  Enumerated representatives, all of the SAME reference covariance as "std":
#   scalar        std = +s                 neg = -s
#   vector, diag  std = all entries > 0    neg = all entries < 0      mixed = alternating signs (+,-,+,..)
#   dense         std = symmetric positive definite root (sqrtcov) / upper-triangular Cholesky factor (sqrtprec)
#                 neg = -std               flip = std with ONE generator negated (a column of a sqrtcov, a row of a
#                 sqrtprec: the negation that leaves R R^T resp. R^T R unchanged)
#                 sym / lower / upper = symmetric root, lower- and upper-triangular factor with positive diagonal
#                 lowerflip = lower-triangular factor with one negative diagonal entry
SQRT_PARAMS = ("sqrtcov", "sqrtprec")
ORIENT_VALUES = {"scalar": ["neg"], "vector": ["neg", "mixed"], "diag": ["neg", "mixed"],
                 "dense": ["neg", "flip", "sym", "lower", "upper", "lowerflip"]}
DENSE_STD = {"sqrtcov": "sym", "sqrtprec": "upper"}


def _orients(param, shape):
    """Non-standard orientations of the specification (param, shape); none for cov / prec."""
    if param not in SQRT_PARAMS:
        return []
    return [o for o in ORIENT_VALUES[shape] if not (shape == "dense" and o == DENSE_STD[param])]


def _spec_exists(param, shape, orient):
    return orient == "std" or orient in _orients(param, shape)


ORIENTED_SPECS = [(p, sh, o) for p in SQRT_PARAMS for sh in SHAPES for o in _orients(p, sh)]
PLAIN = ("cov", "scalar", "std")
# both sides oriented at once (every shape and every dense form at least once on each side)
ORIENT_MIXED = [(("sqrtprec", "vector", "mixed"), ("sqrtcov", "dense", "lower")),
                (("sqrtcov", "diag", "neg"), ("sqrtprec", "vector", "mixed")),
                (("sqrtprec", "dense", "lowerflip"), ("sqrtprec", "dense", "flip")),
                (("sqrtcov", "scalar", "neg"), ("sqrtprec", "scalar", "neg")),
                (("sqrtcov", "dense", "upper"), ("sqrtcov", "vector", "mixed")),
                (("sqrtprec", "dense", "sym"), ("sqrtprec", "diag", "mixed"))]


def _orient_pairs(full):
    """(likelihood spec, prior spec) triples (param, shape, orient) with at least one non-standard orientation."""
    if full:
        both = ORIENTED_SPECS + [PLAIN]
        return [(l, p) for l in both for p in both if (l, p) != (PLAIN, PLAIN)]
    return [(l, PLAIN) for l in ORIENTED_SPECS] + [(PLAIN, p) for p in ORIENTED_SPECS] + ORIENT_MIXED


def _fun_dim(geom, n):
    """Number of function values (= columns of the operator) of the domain geometry called `geom` with n parameters."""
    return {"step": 2 * n, "kltrunc": n + 2}.get(geom, n)


def _rows(op, N):
    """Nodes observed by a selection operator on N function values."""
    if op == "stride":
        return list(range(0, N, 2))
    if op == "slice":
        return list(range(1, N))
    if op == "ident":
        return list(range(N))
    raise ValueError(op)


def _range_dim(op, geom, n, m):
    if op == "full":
        return m
    if op == "sym":
        return _fun_dim(geom, n)
    return len(_rows(op, _fun_dim(geom, n)))


# ----------------------------------------------------------------------------------------
# enumeration
# ----------------------------------------------------------------------------------------
def _spec_pairs(full):
    specs = [(p, s) for p in PARAMS for s in SHAPES]
    if full:
        return [(l, p) for l in specs for p in specs]
    out = [(l, ("cov", "scalar")) for l in specs] + [(("cov", "scalar"), p) for p in specs[1:]]
    out += [(("cov", "vector"), ("cov", "vector")), (("prec", "dense"), ("sqrtprec", "dense"))]
    return out


def cells(tier, seed):
    k = refs.cat(seed)
    thorough = tier != "quick"
    # ---- hist: process histories (sequences of independent problems, each cell in its own fresh interpreter state);
    #      enumerated first because the cells with 100 unknowns are the longest of the run
    for c in _hist_cells(k, thorough):
        yield c
    # ---- lg
    sizes = [(3, 2), (3, 3), (2, 3)] + ([(1, 2), (2, 1), (4, 3)] if thorough else [])
    for (m, n) in sizes:
        for model in ("matrix", "function"):
            for geom in GEOMS:
                if thorough:
                    full = (m, n) in [(3, 2), (3, 3), (2, 3)]
                else:
                    full = (m, n) == (3, 2) and (model, geom) in [("matrix", "default"), ("function", "step")]
                for (lp, ls), (pp, ps) in _spec_pairs(full):
                    yield {"fam": "lg", "m": m, "n": n, "cat": k, "lp": lp, "ls": ls, "pp": pp, "ps": ps,
                           "model": model, "geom": geom}
    # ---- lg, forward-model definition facet (operator x definition x what the functions return)
    for (op, model, ret) in (DEFS_THOROUGH if thorough else DEFS_QUICK):
        if op == "full":
            szs = [(3, 2), (3, 3), (2, 3)] if thorough else [(3, 2), (2, 3)]
        else:
            szs = [(None, 2), (None, 3)]
        primary = (op, model, ret) in DEFS_QUICK or op == "full"
        for (m, n) in szs:
            for geom in GEOMS:
                if thorough:
                    many = primary or geom in ("default", "cont")
                else:
                    many = geom == "default" and n == 2
                pairs = _spec_pairs(False) if many else SMALL_PAIRS
                for (lp, ls), (pp, ps) in pairs:
                    yield {"fam": "lg", "m": _range_dim(op, geom, n, m), "n": n, "cat": k, "lp": lp, "ls": ls,
                           "pp": pp, "ps": ps, "model": model, "geom": geom, "op": op, "ret": ret}
    # ---- lg, derived models (B.T, B.T after B.get_matrix(), (B.T).T) x operator shape
    _verify_catalogue_not_symmetric(k)
    for (derive, model, ret, op, (m, n), geom) in _derived_defs(thorough):
        for (lp, ls), (pp, ps) in (_spec_pairs(False) if thorough and geom == "default" else SMALL_PAIRS):
            yield {"fam": "lg", "m": _range_dim(op, geom, n, m), "n": n, "cat": k, "lp": lp, "ls": ls, "pp": pp,
                   "ps": ps, "model": model, "geom": geom, "op": op, "ret": ret, "derive": derive}
    # ---- lg, sign / orientation of the square roots (likelihood and prior side)
    if thorough:
        combos = [((m, n), model, geom) for (m, n) in [(3, 2), (3, 3), (2, 3)] for model in ("matrix", "function")
                  for geom in GEOMS]
    else:
        combos = [((3, 2), "matrix", "default"), ((2, 3), "function", "step")]
    for ((m, n), model, geom) in combos:
        full = thorough and ((m, n), model, geom) == ((3, 2), "matrix", "default")
        for (lp, ls, lo), (pp, ps, po) in _orient_pairs(full):
            yield {"fam": "lg", "m": m, "n": n, "cat": k, "lp": lp, "ls": ls, "lo": lo, "pp": pp, "ps": ps, "po": po,
                   "model": model, "geom": geom}
    # ---- ml
    for (m, n) in [(3, 2), (3, 3), (2, 3)]:
        for lp in PARAMS:
            for ls in SHAPES:
                for model in ("matrix", "function"):
                    for geom in GEOMS:
                        yield {"fam": "ml", "m": m, "n": n, "cat": k, "lp": lp, "ls": ls, "model": model,
                               "geom": geom, "starts": 2 if thorough else 1}
    # ---- ml above the sparse-storage switch of the noise Gaussian (dimension 76 > 75)
    for lp in PARAMS:
        for ls in (("vector",) if not thorough else ("vector", "scalar", "diagonal")):
            yield {"fam": "ml", "m": 76, "n": 2, "cat": k, "lp": lp, "ls": ls, "model": "matrix", "geom": "default",
                   "starts": 2 if thorough else 1}
    # ---- ml, sign / orientation of the square root that specifies the noise
    for (m, n) in [(3, 2), (3, 3), (2, 3)]:
        for (lp, ls, lo) in ORIENTED_SPECS:
            for model in ("matrix", "function"):
                for geom in (GEOMS if thorough else ("default", "step")):
                    yield {"fam": "ml", "m": m, "n": n, "cat": k, "lp": lp, "ls": ls, "lo": lo, "model": model,
                           "geom": geom, "starts": 2 if thorough else 1}
    for lp in SQRT_PARAMS:          # above the sparse-storage switch (dimension 76 > 75)
        for (ls, lo) in [("vector", "neg"), ("vector", "mixed")] + ([("scalar", "neg")] if thorough else []):
            yield {"fam": "ml", "m": 76, "n": 2, "cat": k, "lp": lp, "ls": ls, "lo": lo, "model": "matrix",
                   "geom": "default", "starts": 2 if thorough else 1}
    # ---- ml, forward-model definition facet
    for (op, model, ret) in (DEFS_THOROUGH if thorough else DEFS_QUICK):
        if op == "full":
            szs = [(3, 2), (3, 3), (2, 3)] if thorough else [(3, 3)]
        else:
            szs = [(None, n) for n in ((2, 3) if thorough else (3,))]
        for (m, n) in szs:
            for (lp, ls) in ([(p, sh) for p in PARAMS for sh in SHAPES] if thorough else SMALL_SPECS):
                for geom in GEOMS:
                    yield {"fam": "ml", "m": _range_dim(op, geom, n, m), "n": n, "cat": k, "lp": lp, "ls": ls,
                           "model": model, "geom": geom, "op": op, "ret": ret, "starts": 2 if thorough else 1}
    # ---- ml, derived models
    for (derive, model, ret, op, (m, n), geom) in _derived_defs(thorough):
        for (lp, ls) in ([(p, sh) for p in PARAMS for sh in SHAPES] if thorough else SMALL_SPECS):
            yield {"fam": "ml", "m": _range_dim(op, geom, n, m), "n": n, "cat": k, "lp": lp, "ls": ls, "model": model,
                   "geom": geom, "op": op, "ret": ret, "derive": derive, "starts": 2 if thorough else 1}
    # ---- lgopt
    for (m, n) in ([(3, 2), (3, 3), (2, 3)] if thorough else [(3, 2)]):
        for (lp, ls), (pp, ps) in _spec_pairs(thorough):
            for model in ("generic-jac", "generic-nograd"):
                for geom in ("default", "step", "mapped"):
                    for mean in ("zerovec", "vector"):
                        yield {"fam": "lgopt", "m": m, "n": n, "cat": k, "lp": lp, "ls": ls, "pp": pp, "ps": ps,
                               "model": model, "geom": geom, "mean": mean}
    # ---- lgopt, sign / orientation of the square roots (likelihood and prior side)
    for (m, n) in ([(3, 2), (3, 3), (2, 3)] if thorough else [(3, 2)]):
        for (lp, ls, lo), (pp, ps, po) in _orient_pairs(thorough and (m, n) == (3, 2)):
            for model in ("generic-jac", "generic-nograd"):
                for geom in (("default", "step", "mapped") if thorough else ("default",)):
                    for mean in ("zerovec", "vector"):
                        yield {"fam": "lgopt", "m": m, "n": n, "cat": k, "lp": lp, "ls": ls, "lo": lo, "pp": pp,
                               "ps": ps, "po": po, "model": model, "geom": geom, "mean": mean}
    # ---- lgopt, forward-model definition facet
    for (op, ret) in (GENERIC_DEFS_THOROUGH if thorough else GENERIC_DEFS):
        for (m, n) in ([(3, 2), (2, 3)] if op == "full" else [(None, 2), (None, 3)]):
            for (lp, ls), (pp, ps) in (_spec_pairs(False) if thorough else SMALL_PAIRS):
                for model in ("generic-jac", "generic-nograd"):
                    for geom in ("default", "step", "mapped"):
                        for mean in ("zerovec", "vector"):
                            yield {"fam": "lgopt", "m": _range_dim(op, geom, n, m), "n": n, "cat": k, "lp": lp,
                                   "ls": ls, "pp": pp, "ps": ps, "model": model, "geom": geom, "mean": mean,
                                   "op": op, "ret": ret}
    # ---- gmode: gradient-mode histories on one problem object (switch addressed to the object / its sub-objects)
    for c in _gm_cells(k, thorough):
        yield c
    # ---- nl
    for name in NL_PROBLEMS:
        for var in (range(3) if thorough else range(1)):
            yield {"fam": "nl", "problem": name, "variant": var, "cat": k}


# ----------------------------------------------------------------------------------------
# building problems (specification -> library objects + dense reference quantities)
# ----------------------------------------------------------------------------------------
def _sym_sqrt(C):
    w, V = np.linalg.eigh(C)
    return (V * np.sqrt(w)) @ V.T


def _factor(M, form):
    """F with F F^T = M: symmetric positive definite root / lower / upper triangular factor (positive diagonal)."""
    if form == "sym":
        return _sym_sqrt(M)
    if form == "lower":
        return np.linalg.cholesky(M)
    if form == "upper":
        J = np.eye(M.shape[0])[::-1]
        return J @ np.linalg.cholesky(J @ M @ J) @ J
    raise ValueError(form)


def _dense_root(C, param, orient):
    """Dense square root of the covariance C in the convention of `param`: sqrtcov R R^T = C, sqrtprec R^T R = C^-1.

    Everything is built from F with F F^T = M (M = C resp. C^-1): sqrtcov R = F, sqrtprec R = F^T (so a lower-triangular
    sqrtprec is the transpose of the upper-triangular F); negating a column of F (a generator) leaves M unchanged."""
    dim = C.shape[0]
    M = C if param == "sqrtcov" else np.linalg.inv(C)
    std = DENSE_STD[param]
    form = {"std": std, "neg": std, "flip": std, "lowerflip": "lower"}.get(orient, orient)
    if param == "sqrtprec":
        form = {"lower": "upper", "upper": "lower", "sym": "sym"}[form]
    F = _factor(M, form)
    if orient == "neg":
        F = -F
    elif orient in ("flip", "lowerflip"):
        F = F.copy()
        F[:, dim // 2] *= -1.0
    return F if param == "sqrtcov" else F.T.copy()


def _spec(dim, param, shape, k, which, orient="std"):
    """(argument handed to cuqi.distribution.Gaussian, dense reference covariance).

    The reference covariance depends on (dim, shape, k, which) only - never on the parameterisation or on the
    sign / orientation of a square root."""
    if not _spec_exists(param, shape, orient):
        raise HarnessError("no specification %s/%s/%s" % (param, shape, orient))
    off = 0 if which == "lik" else 1
    if shape == "scalar":
        c = [0.25, 0.5, 2.0][(k + off) % 3]
        arg = {"cov": c, "prec": 1 / c, "sqrtcov": math.sqrt(c), "sqrtprec": 1 / math.sqrt(c)}[param]
        return (-arg if orient == "neg" else arg), c * np.eye(dim)
    if shape in ("vector", "diag"):
        v = np.array([0.25, 1.0, 0.5, 2.0, 4.0])[(np.arange(dim) + k + off) % 5]
        a = {"cov": v, "prec": 1 / v, "sqrtcov": np.sqrt(v), "sqrtprec": 1 / np.sqrt(v)}[param]
        if orient == "neg":
            a = -a
        elif orient == "mixed":
            a = a * np.where(np.arange(dim) % 2 == 0, 1.0, -1.0)
        return (a.copy() if shape == "vector" else np.diag(a)), np.diag(v)
    C = refs.spd_matrix(dim, k + off)
    if param == "cov":
        return C.copy(), C
    if param == "prec":
        return np.linalg.inv(C), C
    if param == "sqrtcov" and orient == "std":
        return _sym_sqrt(C), C
    if param == "sqrtprec" and orient == "std":
        return np.linalg.cholesky(np.linalg.inv(C)).T, C    # R^T R = precision (documented and implemented alike)
    R = _dense_root(C, param, orient)
    back = R @ R.T if param == "sqrtcov" else np.linalg.inv(R.T @ R)
    if not close(back, C, 1e-10):
        raise HarnessError("%s/%s is not a square root of the reference covariance" % (param, orient))
    return R, C


def _geom(name, n):
    import cuqi
    G = cuqi.geometry
    if name == "default":
        return None, n
    if name == "cont":
        return G.Continuous1D(n), n
    if name == "step":
        return G.StepExpansion(np.arange(2 * n, dtype=float), n_steps=n), 2 * n
    if name == "klall":
        return G.KLExpansion(np.linspace(0, 1, n), num_modes=n, normalizer=1.0, decay_rate=1.0), n
    if name == "kltrunc":
        return G.KLExpansion(np.linspace(0, 1, n + 2), num_modes=n, normalizer=1.0, decay_rate=1.0), n + 2
    if name == "mapped":
        return G.MappedGeometry(G.Continuous1D(n), map=lambda x: 2.0 * x, imap=lambda f: f / 2.0), n
    raise ValueError(name)


def _mean(kind, n, k):
    if kind == "zero":
        return 0, np.zeros(n)
    if kind == "scalar":
        return 0.75, 0.75 * np.ones(n)
    if kind == "zerovec":
        return np.zeros(n), np.zeros(n)
    mu = refs.dyadic_vec(n, k + 2, scale=0.25)
    return mu.copy(), mu


class _Problem:
    pass


def _shared(shared, key, make):
    """A user-side object of the process-history cells: made once and handed to every problem of the sequence that
    asks for it (shared["want"]); without `shared` (all other families) a new object per problem."""
    if shared is None or key not in shared.get("want", ()):
        return make()
    if key not in shared:
        shared[key] = make()
    return shared[key]


def _build(size, k, cfg, shared=None):
    """Build the BayesianProblem of a configuration.  Raises whatever the library raises.

    shared: user-side objects that several problems of one process-history cell have in common ("A" the matrix object
    handed to LinearModel, "fns" the forward / adjoint function objects, "b" the data array object, "x" the prior
    object, "M" the model object); cfg["acat"] shifts the catalogue of the operator's values only."""
    from cuqi.distribution import Gaussian
    from cuqi.model import LinearModel, Model
    from cuqi.problem import BayesianProblem
    m, n = size
    geom, N = _geom(cfg["geom"], n)
    op, ret = cfg.get("op", "full"), cfg.get("ret", "fresh")
    derive = cfg.get("derive", "none")
    if op == "full":
        A = refs.full_matrix(m, N, k + cfg.get("acat", 0))
    elif op == "sym":                       # symmetric part of the square catalogue matrix
        A = refs.full_matrix(N, N, k)
        A = 0.5 * (A + A.T)
        m = N
    else:                                   # selection of nodes: the number of data follows from the operator
        rows = _rows(op, N)
        m = len(rows)
        A = np.eye(N)[rows]
    dg = geom if geom is not None else n
    kind = cfg["model"]
    if derive not in ("none", "T", "T-cached", "TT"):
        raise ValueError(derive)
    if derive != "none" and kind not in ("matrix", "sparse-csr", "sparse-csc", "function"):
        raise ValueError("no derived model of a %s model" % kind)
    if derive in ("T", "T-cached"):
        # the parent B is defined with the transposed operator A^T (function values <- data) and carries the cell's
        # domain geometry on its RANGE side; B.T then is the cell's forward model (parameters -> data through A)
        AT = A.T.copy()
        if kind == "function":
            fwdT, adjT = _function_pair(AT, "full", ret, m)
            # argument names: the parent's adjoint becomes the forward of B.T and takes the parameter, called x
            B = LinearModel(lambda y: fwdT(y), lambda x: adjT(x), range_geometry=dg, domain_geometry=m)
        else:
            if kind != "matrix":
                import scipy.sparse
                AT = scipy.sparse.csr_matrix(AT) if kind == "sparse-csr" else scipy.sparse.csc_matrix(AT)
            B = LinearModel(AT, range_geometry=geom) if geom is not None else LinearModel(AT)
        if derive == "T-cached":
            try:
                B.get_matrix()
            except Exception:       # a parent that cannot assemble its own matrix is transposed all the same
                pass
        M = B.T
    elif "M" in (shared or {}):
        M = shared["M"]
    elif kind in ("matrix", "sparse-csr", "sparse-csc"):
        def matrix_object():
            if kind == "matrix":
                return A.copy()
            import scipy.sparse
            return scipy.sparse.csr_matrix(A) if kind == "sparse-csr" else scipy.sparse.csc_matrix(A)
        Amat = _shared(shared, "A", matrix_object)
        M = LinearModel(Amat, domain_geometry=geom) if geom is not None else LinearModel(Amat)
    else:
        fwd, adj = _shared(shared, "fns", lambda: _function_pair(A, op, ret, N))
        if kind == "function":
            M = LinearModel(fwd, adj, range_geometry=m, domain_geometry=dg)
        elif kind == "generic-jac":
            M = Model(fwd, range_geometry=m, domain_geometry=dg, jacobian=lambda x: A)
        elif kind == "generic-nograd":
            M = Model(fwd, range_geometry=m, domain_geometry=dg)
        else:
            raise ValueError(kind)
    if derive == "TT":
        M = M.T.T
    if shared is not None and "M" in shared.get("want", ()):
        shared.setdefault("M", M)
    la, Ce = _spec(m, cfg["lp"], cfg["ls"], k, "lik", cfg.get("lo", "std"))
    pa, Cx = _spec(n, cfg["pp"], cfg["ps"], k, "pri", cfg.get("po", "std"))
    marg, mu = _mean(cfg["mean"], n, k)
    x = _shared(shared, "x", lambda: Gaussian(marg, geometry=n, **{cfg["pp"]: pa}))
    # link="model": the model object itself is the mean (its argument is already called x), not a renamed copy M(x)
    y = Gaussian(M if cfg.get("link") == "model" else M(x), **{cfg["lp"]: la})
    b = refs.dyadic_vec(m, k + 1)
    P = _Problem()
    # the reference keeps its own copy b of the data values; the library is handed a copy, or the shared array object
    P.BP = BayesianProblem(y, x).set_data(y=_shared(shared, "b", lambda: b.copy()))
    if cfg.get("precov"):
        P.BP.likelihood.distribution.compute_cov()
        P.BP.prior.compute_cov()
    P.M, P.b, P.Ce, P.Cx, P.mu, P.n, P.m = M, b, Ce, Cx, mu, n, m
    return P


def _function_pair(A, op, ret, N):
    """(forward, adjoint) of the operator A (N columns) as plain functions of the function values."""
    if ret == "fresh":
        return (lambda x: A @ x), (lambda y: A.T @ y)
    if ret == "cuqiarray":
        from cuqi.array import CUQIarray
        return (lambda x: CUQIarray(A @ x, is_par=True)), (lambda y: CUQIarray(A.T @ y, is_par=True))
    if ret != "view" or op not in VIEW_OPS:
        raise ValueError("no view-returning definition of operator %r" % op)
    if op == "ident":                       # the very same object goes through
        return (lambda x: x), (lambda y: y)
    sl = slice(0, None, 2) if op == "stride" else slice(1, None)

    def adjoint(y):
        z = np.zeros(N)
        z[sl] = y
        return z
    return (lambda x: x[sl]), adjoint


def _effective_matrix(M, n):
    """[forward(e_i) - forward(0)], forward(0) and whether forward is affine on one more probe."""
    z = np.asarray(M.forward(np.zeros(n)), float).ravel()
    G = np.array([np.asarray(M.forward(np.eye(n)[:, i]), float).ravel() - z for i in range(n)]).T
    v = np.array([(-1) ** i * (0.5 + 0.25 * i) for i in range(n)])
    fv = np.asarray(M.forward(v), float).ravel()
    return G, z, close(fv, z + G @ v, 1e-10)


# ----------------------------------------------------------------------------------------
# judging a returned point
# ----------------------------------------------------------------------------------------
EPS = 2.220446049250313e-16
FD = 1.4901161193847656e-08


def _gtol(route, fabs, Hn, xn, cancel=1.0):
    """What scipy's default termination leaves of the gradient (inf-norm), times 20.

    BFGS (scipy.optimize.minimize default): |g|_inf <= gtol = 1e-5 for the gradient it is given; a 2-point
    difference gradient (step 1.5e-8) adds rounding 2 eps |f| / step and truncation step * |H| |x|.
    L-BFGS-B (fmin_l_bfgs_b): pgtol = 1e-5 or relative decrease <= factr * eps = 2.2e-9, which bounds the
    gradient only through |g|^2 <= 2 |H| * decrease."""
    if route == "direct":
        return None
    if route == "bfgs-exact":
        # the optimiser was handed the exact gradient (linear model, Gaussian densities): BFGS stops at |g|_inf <= gtol
        # for that gradient, which differs from the reference gradient by rounding only
        return 20.0 * (1e-5 + 1e3 * EPS * max(1.0, cancel))
    bfgs = 1e-5 + 2 * EPS * max(1.0, fabs) / FD + FD * Hn * max(1.0, xn)
    if route == "bfgs":
        return 20.0 * bfgs
    if route == "lbfgsb":
        return 20.0 * max(bfgs, math.sqrt(2.0 * Hn * 1e7 * EPS * max(1.0, fabs)))
    raise HarnessError("unknown route %r" % route)


def _judge(x, n, logf, gradf, sig, Hn, route, exact=None, Hinv_n=None, cancel=1.0):
    """-> (dict kind -> message, metrics).  Pure reference-model computation."""
    out, met = {}, {}
    xa = np.asarray(x, dtype=float)
    if xa.shape != (n,):
        out["shape"] = "returned estimate has shape %s, parameter space has shape (%d,)" % (xa.shape, n)
        if xa.size != n:
            return out, met
        xa = xa.ravel()
    if not np.all(np.isfinite(xa)):
        out["nonfinite"] = "returned estimate is not finite: %s" % xa
        return out, met
    f0 = float(logf(xa))
    xn = float(np.max(np.abs(xa))) if n else 0.0
    # (iv) gradient
    g = None
    if gradf is not None:
        g = np.asarray(gradf(xa), float)
        gn = float(np.max(np.abs(g)))
        tol = 1e-8 * max(1.0, cancel) if route == "direct" else _gtol(route, abs(f0), Hn, xn, cancel)
        met["g_ratio"] = gn / tol
        if gn > tol:
            out["gradient"] = "reference gradient at the returned point has inf-norm %.3g > %.3g" % (gn, tol)
    # (ii) closed form
    if exact is not None:
        err = float(np.max(np.abs(xa - exact)))
        if route == "direct":
            tol = 1e-9 * max(1.0, float(np.max(np.abs(exact))), xn)
        else:
            tol = Hinv_n * _gtol(route, abs(f0), Hn, xn, cancel) * 1.001 + 1e-12
        met["x_ratio"] = err / tol
        if err > tol:
            out["value"] = "returned %s, closed form %s (max abs difference %.3g > %.3g)" % (
                np.array2string(xa, precision=8), np.array2string(np.asarray(exact), precision=8), err, tol)
    # (iii) lattice neighbours
    worst = 0.0
    for i in range(n):
        for h in (0.05 * sig[i], 0.5 * sig[i]):
            for s in (1.0, -1.0):
                e = np.zeros(n)
                e[i] = s * h
                d = float(logf(xa + e)) - f0
                if d > worst:
                    worst, where = d, (i, s * h)
    ntol = 1e-6 * (1.0 + abs(f0))
    met["n_ratio"] = worst / ntol
    if worst > ntol:
        out["neighbour"] = ("log-density %.9g at the returned point, %.9g larger at the lattice neighbour "
                            "x*%+.4g e_%d" % (f0, worst, where[1], where[0]))
    return out, met


class _LinGauss:
    """Dense reference of a linear-Gaussian posterior / likelihood given the effective affine forward."""

    def __init__(self, G, z, b, Ce, mu=None, Cx=None):
        self.G, self.z, self.b = G, z, b
        self.Pe = np.linalg.inv(Ce)
        self.Ce = Ce
        self.post = Cx is not None
        n = G.shape[1]
        self.H = G.T @ self.Pe @ G
        if self.post:
            self.Px = np.linalg.inv(Cx)
            self.mu, self.Cx = mu, Cx
            self.H = self.H + self.Px
            self.cov = np.linalg.inv(self.H)
            self.mean = self.cov @ (G.T @ self.Pe @ (b - z) + self.Px @ mu)
            self.sig = np.sqrt(np.diag(self.cov))
            self.Hinv_n = float(np.max(np.sum(np.abs(self.cov), axis=1)))
            self.cancel = float(np.max(np.abs(G.T @ self.Pe @ (b - z))) + np.max(np.abs(self.Px @ mu))
                                + np.max(np.sum(np.abs(self.H), axis=1)) * max(1.0, np.max(np.abs(self.mean))))
        else:
            d = np.diag(self.H)
            self.sig = 1.0 / np.sqrt(np.where(d > 1e-12, d, 1.0))
            self.unique = np.linalg.matrix_rank(G) == n
            if self.unique:
                self.cov = np.linalg.inv(self.H)
                self.mean = self.cov @ (G.T @ self.Pe @ (b - z))
                self.Hinv_n = float(np.max(np.sum(np.abs(self.cov), axis=1)))
            else:
                self.mean, self.Hinv_n = None, None
            self.cancel = float(np.max(np.abs(G.T @ self.Pe @ (b - z)))
                                + np.max(np.sum(np.abs(self.H), axis=1)))
        self.Hn = float(np.max(np.sum(np.abs(self.H), axis=1)))

    def logd(self, x):
        v = refs.gauss_logpdf(self.b, self.z + self.G @ x, self.Ce)
        if self.post:
            v += refs.gauss_logpdf(x, self.mu, self.Cx)
        return v

    def grad(self, x):
        g = self.G.T @ self.Pe @ (self.b - self.z - self.G @ x)
        if self.post:
            g = g - self.Px @ (x - self.mu)
        return g


def _route(info):
    if isinstance(info, dict) and info.get("solver") == "direct":
        return "direct"
    return "bfgs"      # Gaussian prior: BayesianProblem._solve_max_point uses scipy.optimize.minimize


def _oplabel(st):
    if st.endswith("direct"):
        return "closed-form"
    return "optimiser-reported-failure-but-returned" if st.endswith("flagged-failure") else "optimiser"


def _refused_by_solver(info):
    return isinstance(info, dict) and "success" in info and not bool(info["success"])


# ----------------------------------------------------------------------------------------
# one operation on one configuration  ->  (status, kinds{kind: msg}, observation)
# ----------------------------------------------------------------------------------------
def _quiet():
    return contextlib.redirect_stdout(io.StringIO())


def _prepare(size, k, cfg, shared=None, builder=None):
    """(status-if-unusable, problem, effective matrix, offset): built once per configuration."""
    try:
        with _quiet():
            P = builder() if builder is not None else _build(size, k, cfg, shared)
    except HarnessError:
        raise
    except Exception as e:
        return "build-refused:" + type(e).__name__, None, None, None
    try:
        with _quiet():
            G, z, affine = _effective_matrix(P.M, P.n)
    except HarnessError:
        raise
    except Exception as e:          # the forward map itself refuses its basis vectors: nothing to judge here
        return "forward-refused:" + type(e).__name__, None, None, None
    if not affine or G.shape != (P.m, P.n):
        return "not-affine", None, None, None
    return None, P, G, z


def _op_estimate(size, k, cfg, which, x0=None, prep=None, judge_failed=False, exact_grad=False):
    """which in {'MAP','ML'}: returns (status, kinds, obs); status in built-refused / refused / judged.

    judge_failed=True (used only while reducing an already established violation to its necessary facets)
    also judges points that come with info['success'] false, so that the reduction does not stop at
    configurations where the optimiser happens to notice its own trouble."""
    bad, P, G, z = prep if prep is not None else _prepare(size, k, cfg)
    if bad:
        return bad, {}, None
    ref = _LinGauss(G, z, P.b, P.Ce, P.mu, P.Cx) if which == "MAP" else _LinGauss(G, z, P.b, P.Ce)
    try:
        with _quiet():
            kw = {} if x0 is None else {"x0": np.array(x0, dtype=float)}
            xs = P.BP.MAP(disp=False, **kw) if which == "MAP" else P.BP.ML(disp=False, **kw)
    except HarnessError:
        raise
    except Exception as e:
        return "refused:" + type(e).__name__, {}, None
    info = getattr(xs, "info", None)
    flagged = _refused_by_solver(info) and not judge_failed
    route = _route(info)
    if exact_grad and route == "bfgs":
        route = "bfgs-exact"
    kinds, met = _judge(np.asarray(xs), P.n, ref.logd, ref.grad, ref.sig, ref.Hn, route,
                        exact=ref.mean, Hinv_n=ref.Hinv_n, cancel=ref.cancel)
    obs = {"returned": np.asarray(xs, float), "reference": ref.mean, "route": route, "metrics": met,
           "logd_returned": (float(ref.logd(np.asarray(xs, float).ravel())) if np.size(xs) == P.n and
                             np.all(np.isfinite(np.asarray(xs, float))) else None),
           "logd_reference": float(ref.logd(ref.mean)) if ref.mean is not None else None}
    if flagged:
        # the optimiser reported failure but the call returned a point anyway: the statement allows "the call fails",
        # not "another point is returned" - a flagged point that still is the maximiser is counted as a refusal
        if not kinds:
            return "refused:solver-reports-failure", {}, None
        return "judged:" + route + "-flagged-failure", kinds, obs
    return "judged:" + route, kinds, obs


def _op_sample(size, k, cfg, prep=None):
    """Direct route of sample_posterior under a scripted stream."""
    bad, P, G, z = prep if prep is not None else _prepare(size, k, cfg)
    if bad:
        return bad, {}, None
    ref = _LinGauss(G, z, P.b, P.Ce, P.mu, P.Cx)
    n = P.n
    def run(answers, Ns):
        s = Stream(normal=[np.asarray(a, float) for a in answers])
        with s.installed():
            with _quiet():
                S = P.BP.sample_posterior(Ns)
        # the direct (MAP + Cholesky) route asks for exactly one randn(n) per draw and nothing else
        if [(r["kind"], r["shape"]) for r in s.log] != [("normal", [n])] * Ns:
            raise _OtherRoute("requests %r" % [(r["kind"], r["shape"]) for r in s.log])
        return np.asarray(S.samples, float)

    # first execution decides: refused / other route / direct
    try:
        first = run([np.zeros(n)], 1)
    except (_OtherRoute, HarnessError) as e:   # other request pattern / script exhausted: another sampler was selected
        return "other-route:" + type(e).__name__, {}, None
    except Exception as e:
        return "refused:" + type(e).__name__, {}, None
    kinds = {}
    if first.shape != (n, 1):
        kinds["shape"] = "Samples array has shape %s for Ns=1, n=%d" % (first.shape, n)
        return "judged:direct", kinds, {"returned": first}
    off, T, ok = affine_probe(lambda xi: run([xi], 1)[:, 0], n)
    if not ok:
        kinds["affine"] = "draw is not an affine function of the standard-normal answer"
    if not close(off, ref.mean, 1e-9):
        kinds["mean"] = "draw(0) = %s, closed-form posterior mean %s" % (np.array2string(off, precision=8),
                                                                       np.array2string(ref.mean, precision=8))
    if not close(T @ T.T, ref.cov, 1e-9):
        kinds["cov"] = "L L^T = %s, closed-form posterior covariance %s" % (
            np.array2string((T @ T.T).ravel(), precision=6), np.array2string(ref.cov.ravel(), precision=6))
    # three draws in one call: every column is the same affine map of its own answer
    V = [refs.dyadic_vec(n, k + 3 + j, scale=0.5) for j in range(3)]
    S3 = run(V, 3)
    if S3.shape != (n, 3):
        kinds["shape"] = "Samples array has shape %s for Ns=3" % (S3.shape,)
    elif ok and not all(close(S3[:, j], off + T @ V[j], 1e-9) for j in range(3)):
        kinds["columns"] = "draws of one call are not the same affine map of their own standard-normal answers"
    return "judged:direct", kinds, {"returned": off, "reference": ref.mean, "T": T, "cov_reference": ref.cov,
                                    "transitions": n + 2 + 1 + 3}


class _OtherRoute(Exception):
    pass


# ----------------------------------------------------------------------------------------
# attribution: reduce a failing configuration towards the baseline, facet by facet
# ----------------------------------------------------------------------------------------
def _attribute(size, k, cfg, fails):
    """fails(cfg) -> bool.  Greedy one-pass reduction; returns the facet string of the signature."""
    cur = dict(cfg)
    changed = True
    while changed:                      # repeat until every remaining non-baseline facet is necessary
        changed = False
        for f in FACET_ORDER:
            if f not in cur:
                continue
            for target in REDUCE_FROM.get((f, cur[f]), REDUCE_TO.get(f, [BASE[f]])):
                if cur[f] == target:
                    break
                trial = dict(cur)
                trial[f] = target
                if not (_spec_exists(trial["lp"], trial["ls"], trial.get("lo", "std"))
                        and _spec_exists(trial["pp"], trial["ps"], trial.get("po", "std"))):
                    continue        # e.g. a sign pattern of a square root has no counterpart for cov / prec
                try:
                    still = fails(trial)
                except HarnessError:
                    raise
                except Exception:
                    still = False
                if still:
                    cur = trial
                    changed = True
                    break
    fac = ["%s=%s" % (f, cur[f]) for f in FACET_NAMES if f in cur and cur[f] != BASE[f]]
    return ",".join(fac) if fac else "baseline"


_MEMO = {}     # (component, size, catalogue, start, configuration) -> failure names; pure function of the key


def _report(res, size, k, cfg, op, component, kinds, obs, runner, start=0):
    """One failure per operation: the primary kind, with a reduced-facet signature."""
    kind = _primary(kinds)

    def fails(c):
        key = (component, tuple(size), k, start, tuple(sorted(c.items())))
        if key not in _MEMO:
            if len(_MEMO) > 20000:
                _MEMO.clear()
            _MEMO[key] = _names(runner(c)[1])
        return kind in _MEMO[key]
    facet = _attribute(size, k, cfg, fails)
    res.fail("C15|%s|%s-%s|%s" % (component, op, kind, facet),
             "%s on %s (m,n)=%s: %s" % (component, _cfgstr(cfg), tuple(size),
                                        "; ".join(kinds[q] for q in KIND_ORDER if q in kinds)),
             focus={"size": list(size), "config": cfg, "reduced_facets": facet}, **(obs or {}))


KIND_ORDER = ["shape", "nonfinite", "affine", "value", "mean", "cov", "columns", "neighbour", "gradient"]


def _primary(kinds):
    """One name per failed operation; value / neighbour / gradient are the same fact (not the maximiser)."""
    for q in KIND_ORDER:
        if q in kinds:
            return "not-maximiser" if q in ("value", "neighbour", "gradient") else q
    raise HarnessError("unknown failure kind %r" % sorted(kinds))


def _names(kinds):
    return {("not-maximiser" if q in ("value", "neighbour", "gradient") else q) for q in kinds}


def _cfgstr(cfg):
    return ",".join("%s=%s" % (f, cfg[f]) for f in FACET_NAMES if f in cfg)


# ----------------------------------------------------------------------------------------
# families
# ----------------------------------------------------------------------------------------
def _eval_lg(cell):
    res = CellResult(cell)
    size, k = (cell["m"], cell["n"]), cell["cat"]
    judged = 0
    for mean in MEANS:
        for precov in (False, True):
            cfg = {"lp": cell["lp"], "ls": cell["ls"], "pp": cell["pp"], "ps": cell["ps"], "mean": mean,
                   "model": cell["model"], "geom": cell["geom"], "precov": precov,
                   "op": cell.get("op", "full"), "ret": cell.get("ret", "fresh"),
                   "lo": cell.get("lo", "std"), "po": cell.get("po", "std"), "derive": cell.get("derive", "none")}
            tag = "%s/%s" % (mean, "precov" if precov else "asgiven")
            prep = _prepare(size, k, cfg)
            # ---- MAP
            st, kinds, obs = _op_estimate(size, k, cfg, "MAP", prep=prep)
            res.transitions += 1
            res.state("MAP:%s:%s" % (tag, st))
            res.outcomes.add("MAP:" + st + (":" + "+".join(sorted(kinds)) if kinds else ""))
            res.count("MAP:" + st.split(":")[0])
            map_bad = None
            if st.startswith("judged"):
                judged += 1
                res.evaluations += 1
                res.transitions += 4 * cell["n"]
                if kinds:
                    map_bad = obs["returned"]
                    _report(res, size, k, cfg, _oplabel(st),
                            "BayesianProblem.MAP", kinds, obs, lambda c: _op_estimate(size, k, c, "MAP", judge_failed=True))
                elif res.sample is None:
                    res.sample = {"config": cfg, "MAP": obs["returned"], "closed_form": obs["reference"],
                                  "logd": obs["logd_returned"], "metrics": obs["metrics"]}
            elif not st.startswith("judged"):
                res.refused += 1
            # ---- MAP with a caller-supplied start point: the estimate is the same maximiser
            if st.startswith("judged") and not kinds:
                for x0v in (np.full(cell["n"], 0.3), refs.dyadic_vec(cell["n"], k + 6, scale=0.5)):
                    st2, kinds2, obs2 = _op_estimate(size, k, cfg, "MAP", x0=x0v, prep=prep)
                    res.transitions += 1
                    res.outcomes.add("MAP(x0):" + st2 + (":" + "+".join(sorted(kinds2)) if kinds2 else ""))
                    if st2.startswith("judged"):
                        res.evaluations += 1
                        if kinds2:
                            res.fail("C15|BayesianProblem.MAP|%s-%s|x0=given" % ("closed-form" if st2.endswith("direct") else "optimiser",
                                                                                  _primary(kinds2)),
                                     "MAP(x0=%s) on %s: %s (MAP() without x0 is the maximiser)" % (
                                         x0v.tolist(), _cfgstr(cfg), "; ".join(kinds2[q] for q in KIND_ORDER if q in kinds2)),
                                     focus={"size": list(size), "config": cfg, "x0": x0v}, **(obs2 or {}))
                            break
            # ---- ML() on the SAME problem object after MAP() ran on it (history: estimates must not disturb each other)
            if mean == "zerovec" and not precov:
                cfg3 = dict(cfg, link="model")
                prep3 = _prepare(size, k, cfg3)
                _op_estimate(size, k, cfg3, "MAP", prep=prep3)          # history step 1 on this object
                st3, kinds3, obs3 = _op_estimate(size, k, cfg3, "ML", prep=prep3)
                res.transitions += 1
                res.outcomes.add("ML-after-MAP:" + st3 + (":" + "+".join(sorted(kinds3)) if kinds3 else ""))
                if st3.startswith("judged"):
                    res.evaluations += 1
                    # the same call on a fresh object (no MAP() before it): when that fails alike, the history is not
                    # what matters and the failure is reported as a plain ML() failure of this configuration
                    stf, kindsf, obsf = _op_estimate(size, k, cfg3, "ML") if kinds3 else ("", {}, None)
                    if kinds3 and stf.startswith("judged") and _primary(kinds3) in _names(kindsf):
                        res.count("ML-after-MAP-fails-like-ML-on-a-fresh-object")
                        _report(res, size, k, cfg3, _oplabel(stf), "BayesianProblem.ML", kindsf, obsf,
                                lambda c: _op_estimate(size, k, c, "ML", judge_failed=True))
                    elif kinds3:
                        res.fail("C15|BayesianProblem.ML|%s-%s|after-MAP-on-same-object" % (_oplabel(st3), _primary(kinds3)),
                                 "ML() called after MAP() on the same problem object, %s: %s" % (
                                     _cfgstr(cfg), "; ".join(kinds3[q] for q in KIND_ORDER if q in kinds3)),
                                 focus={"size": list(size), "config": cfg}, **(obs3 or {}))
            # ---- history: compute_cov(), then the prior's matrix is re-assigned on the same object, then MAP():
            #      the estimate is the closed form for the NEW prior (or the call fails) - never the old answer
            if precov and mean == "zerovec" and cfg["pp"] != "cov":
                cfg4 = dict(cfg)
                prep4 = _prepare(size, k, cfg4)
                bad4, P4, G4, z4 = prep4
                if not bad4:
                    pa2, Cx2 = _spec(cell["n"], cfg["pp"], cfg["ps"], (k + 1) % 3, "pri", cfg["po"])
                    try:
                        setattr(P4.BP.prior, cfg["pp"], pa2)
                        assigned = True
                    except Exception:
                        assigned = False
                    if assigned:
                        P4.Cx = Cx2
                        st4, kinds4, obs4 = _op_estimate(size, k, cfg4, "MAP", prep=(None, P4, G4, z4))
                        res.transitions += 1
                        res.outcomes.add("MAP-after-reassign:" + st4 + (":" + "+".join(sorted(kinds4)) if kinds4 else ""))
                        if st4.startswith("judged"):
                            res.evaluations += 1
                            if kinds4:
                                res.fail("C15|BayesianProblem.MAP|%s-%s|after-reassigning-%s" % (_oplabel(st4), _primary(kinds4), cfg["pp"]),
                                         "MAP() after compute_cov() and re-assigning the prior's %s on the same object, %s: %s" % (
                                             cfg["pp"], _cfgstr(cfg), "; ".join(kinds4[q] for q in KIND_ORDER if q in kinds4)),
                                         focus={"size": list(size), "config": cfg}, **(obs4 or {}))
            # ---- direct sampling
            st, kinds, obs = _op_sample(size, k, cfg, prep=prep)
            res.transitions += 1
            res.state("sample:%s:%s" % (tag, st))
            res.outcomes.add("sample:" + st + (":" + "+".join(sorted(kinds)) if kinds else ""))
            res.count("sample:" + st.split(":")[0])
            if st.startswith("judged"):
                judged += 1
                res.evaluations += 1
                res.traces += 1
                res.transitions += (obs or {}).get("transitions", 0)
                if "mean" in kinds and map_bad is not None and np.shape(map_bad) == np.shape(obs["returned"]) \
                        and close(map_bad, obs["returned"], 1e-9):
                    # the draw is centred at the (already reported) wrong MAP(): same defect, not a second one
                    res.count("sample-mean-inherits-MAP-failure")
                    kinds = {q: v for q, v in kinds.items() if q != "mean"}
                if kinds:
                    obs = {q: v for q, v in obs.items() if q != "transitions"}
                    _report(res, size, k, cfg, "direct", "BayesianProblem.sample_posterior", kinds, obs,
                            lambda c: _op_sample(size, k, c))
            elif not st.startswith("other-route"):
                res.refused += 1
    res.nontrivial = judged > 0
    return res


def _eval_ml(cell):
    res = CellResult(cell)
    size, k = (cell["m"], cell["n"]), cell["cat"]
    cfg = {"lp": cell["lp"], "ls": cell["ls"], "pp": "cov", "ps": "scalar", "mean": "zerovec",
           "model": cell["model"], "geom": cell["geom"], "precov": False,
           "op": cell.get("op", "full"), "ret": cell.get("ret", "fresh"), "lo": cell.get("lo", "std"), "po": "std",
           "derive": cell.get("derive", "none")}
    judged = 0
    for si in range(cell["starts"]):
        x0 = None if si == 0 else refs.dyadic_vec(cell["n"], k + 4, scale=0.5)
        st, kinds, obs = _op_estimate(size, k, cfg, "ML", x0=x0)
        res.transitions += 1
        res.state("ML:start%d:%s" % (si, st))
        res.outcomes.add("ML:" + st + (":" + "+".join(sorted(kinds)) if kinds else ""))
        res.count("ML:" + st.split(":")[0])
        if st.startswith("judged"):
            judged += 1
            res.evaluations += 1
            res.transitions += 4 * cell["n"]
            if kinds:
                _report(res, size, k, cfg, _oplabel(st), "BayesianProblem.ML", kinds, obs,
                        lambda c, x0=x0: _op_estimate(size, k, c, "ML", x0=x0, judge_failed=True), start=si)
            elif res.sample is None:
                res.sample = {"config": cfg, "ML": obs["returned"], "closed_form": obs["reference"],
                              "metrics": obs["metrics"]}
        else:
            res.refused += 1
    res.nontrivial = judged > 0
    return res


def _eval_lgopt(cell):
    res = CellResult(cell)
    size, k = (cell["m"], cell["n"]), cell["cat"]
    cfg = {"lp": cell["lp"], "ls": cell["ls"], "pp": cell["pp"], "ps": cell["ps"], "mean": cell["mean"],
           "model": cell["model"], "geom": cell["geom"], "precov": False,
           "op": cell.get("op", "full"), "ret": cell.get("ret", "fresh"),
           "lo": cell.get("lo", "std"), "po": cell.get("po", "std")}
    st, kinds, obs = _op_estimate(size, k, cfg, "MAP")
    res.transitions += 1
    res.state("MAP:%s" % st)
    res.outcomes.add("MAPopt:" + st + (":" + "+".join(sorted(kinds)) if kinds else ""))
    res.count("MAPopt:" + st.split(":")[0])
    if st.startswith("judged"):
        res.evaluations += 1
        res.transitions += 4 * cell["n"]
        if kinds:
            _report(res, size, k, cfg, _oplabel(st), "BayesianProblem.MAP", kinds, obs,
                    lambda c: _op_estimate(size, k, c, "MAP", judge_failed=True))
        else:
            res.sample = {"config": cfg, "MAP": obs["returned"], "closed_form": obs["reference"],
                          "metrics": obs["metrics"]}
    else:
        res.refused += 1
        res.nontrivial = False
    return res


# ----------------------------------------------------------------------------------------
# gradient-mode histories: the public switch enable_FD(epsilon) / disable_FD() addressed to the posterior of ONE
# problem object or to one of its sub-objects, then the estimates of that same object
# ----------------------------------------------------------------------------------------
# to       which object the switch calls are addressed to: the posterior (BP.posterior), its likelihood (BP.likelihood),
#          the data distribution behind the likelihood (BP.likelihood.distribution), the prior (BP.prior)
# eps      magnitude of the step handed to enable_FD: the default (no argument, 1e-8), 2^-10, 2^-1
# history  "none"        no switch call (the estimates of a fresh object; ML() behind a generic Model is judged here only)
#          "on"          enable_FD() with the default step: the estimates are judged with the finite-difference allowance
#          "on-off"      enable_FD(eps), disable_FD(): the object is back to the gradients it had - unchanged oracle
#          "on-use-off"  enable_FD(eps), ML() and MAP() requested (results not judged: the step is the caller's choice),
#                        disable_FD(): unchanged oracle
GM_TO = ("posterior", "likelihood", "likelihood.distribution", "prior")
GM_EPS = {"default": None, "2^-10": 2.0 ** -10, "2^-1": 0.5}
GM_HISTORIES = {"none": (), "on": ("on",), "on-off": ("on", "off"), "on-use-off": ("on", "use", "off")}
GM_MODELS = ("matrix", "function", "generic-jac", "generic-nograd")


def _gm_cells(k, thorough):
    combos = [("none", "posterior", "default")] + [("on", to, "default") for to in GM_TO] + [
        (h, to, e) for h in ("on-off", "on-use-off") for to in GM_TO for e in GM_EPS]
    for (m, n) in ([(3, 2), (3, 3)] if thorough else [(3, 2)]):
        for model in GM_MODELS:
            for geom in (("default", "step", "mapped") if thorough else ("default", "step")):
                for (lp, ls), (pp, ps) in (SMALL_PAIRS if thorough else SMALL_PAIRS[:2]):
                    for mean in (("zerovec", "vector") if thorough else ("zerovec",)):
                        for (h, to, e) in combos:
                            yield {"fam": "gmode", "m": m, "n": n, "cat": k, "lp": lp, "ls": ls, "pp": pp, "ps": ps,
                                   "model": model, "geom": geom, "mean": mean, "history": h, "to": to, "eps": e}


def _gm_target(BP, to):
    obj = BP
    for part in to.split("."):
        obj = getattr(obj, part)
    return obj


def _gm_apply(BP, history, to, eps):
    """Run the switch history on the live problem object; -> None, or the name of the exception of a refused switch."""
    for step in GM_HISTORIES[history]:
        try:
            with _quiet():
                if step == "on":
                    if GM_EPS[eps] is None:
                        _gm_target(BP, to).enable_FD()
                    else:
                        _gm_target(BP, to).enable_FD(epsilon=GM_EPS[eps])
                elif step == "off":
                    _gm_target(BP, to).disable_FD()
        except HarnessError:
            raise
        except Exception as e:
            return type(e).__name__
        if step == "use":
            for call in (BP.ML, BP.MAP):
                try:
                    with _quiet():
                        call(disp=False)
                except HarnessError:
                    raise
                except Exception:
                    pass
    return None


def _gm_estimates(size, k, cfg, history, to, eps):
    """-> {which: (status, kinds, obs)} of ML() and MAP() of one new problem object after the switch history."""
    prep = _prepare(size, k, cfg)
    if prep[0]:
        return {w: (prep[0], {}, None) for w in ("ML", "MAP")}
    refused = _gm_apply(prep[1].BP, history, to, eps)
    if refused:
        return {w: ("switch-refused:" + refused, {}, None) for w in ("ML", "MAP")}
    # the optimiser is handed the exact gradient when the model provides it and no finite-difference mode is on
    exact = history != "on" and (cfg["model"] in ("matrix", "function") or
                                 (cfg["model"] == "generic-jac" and cfg["geom"] == "default"))
    return {w: _op_estimate(size, k, cfg, w, prep=prep, exact_grad=exact) for w in ("ML", "MAP")}


def _eval_gmode(cell):
    res = CellResult(cell)
    size, k = (cell["m"], cell["n"]), cell["cat"]
    cfg = dict(BASE, lp=cell["lp"], ls=cell["ls"], pp=cell["pp"], ps=cell["ps"], mean=cell["mean"],
               model=cell["model"], geom=cell["geom"])
    h, to, eps = cell["history"], cell["to"], cell["eps"]
    out = _gm_estimates(size, k, cfg, h, to, eps)
    fresh, judged = None, 0
    for which in ("ML", "MAP"):
        st, kinds, obs = out[which]
        res.transitions += 1 + len(GM_HISTORIES[h])
        res.state("%s:%s:%s" % (h, which, st))
        res.outcomes.add("gmode:%s:%s:%s" % (h, which, st) + (":" + "+".join(sorted(kinds)) if kinds else ""))
        res.count("gmode:%s:%s" % (which, st.split(":")[0]))
        if not st.startswith("judged"):
            res.refused += 1
            continue
        judged += 1
        res.evaluations += 1
        res.transitions += 4 * cell["n"]
        if not kinds:
            if res.sample is None:
                res.sample = {"config": cfg, "history": h, "to": to, "eps": eps, which: obs["returned"],
                              "closed_form": obs["reference"], "metrics": obs["metrics"]}
            continue
        name = _primary(kinds)
        if h != "none":
            # the same estimate of a new object without any switch call: when that fails alike the history is not what
            # matters - it is reported once, by the cell with history "none"
            if fresh is None:
                fresh = _gm_estimates(size, k, cfg, "none", "posterior", "default")
            stf, kindsf, _ = fresh[which]
            if stf.startswith("judged") and name in _names(kindsf):
                res.count("gmode-fails-like-a-fresh-object")
                continue
        facet = "gradient-mode=none" if h == "none" else "gradient-mode=%s,to=%s" % (h, to)
        res.fail("C15|BayesianProblem.%s|%s-%s|%s" % (which, _oplabel(st), name, facet),
                 "%s() of one problem object after the switch history %s addressed to BP.%s (epsilon %s), %s (m,n)=%s: %s" % (
                     which, list(GM_HISTORIES[h]), to, eps, _cfgstr(cfg), tuple(size),
                     "; ".join(kinds[q] for q in KIND_ORDER if q in kinds)),
                 focus={"size": list(size), "config": cfg, "history": h, "to": to, "eps": eps}, **(obs or {}))
    res.nontrivial = judged > 0
    return res


# ----------------------------------------------------------------------------------------
# non-linear / non-Gaussian problems (neighbour + gradient oracle only)
# ----------------------------------------------------------------------------------------
class _NL:
    """BP, n, reference log-posterior, smoothness, kink distance, optimiser route, reference likelihood."""

    def __init__(self, BP, n, logpost, smooth=True, kink=None, route="bfgs", loglik=None, lik_smooth=True,
                 lik_kink=None):
        self.BP, self.n, self.logpost, self.smooth, self.kink, self.route = BP, n, logpost, smooth, kink, route
        self.loglik, self.lik_smooth, self.lik_kink = loglik, lik_smooth, lik_kink


def _nl_linear_parts(k, var, m=4, n=3):
    A = refs.full_matrix(m, n, k + var)
    b = A @ refs.dyadic_vec(n, k + var, scale=0.25) + 0.125 * refs.dyadic_vec(m, k + var + 1, scale=0.25)
    return A, b


def _nl_wang(k, var):
    import cuqi
    noise = [1.0, 0.5, 2.0][var]
    data = [1.0, 2.0, 0.5][(k + var) % 3]
    BP = cuqi.testproblem.WangCubic(noise_std=noise, data=data)

    def logpost(x):
        F = 10 * x[1] - 10 * x[0] ** 3 + 5 * x[0] ** 2 + 6 * x[0]
        return (refs.gauss_logpdf(np.array([data]), np.array([F]), noise ** 2)
                + refs.gauss_logpdf(x, np.array([1.0, 0.0]), 1.0))
    return _NL(BP, 2, logpost)


def _nl_explink(jac):
    def make(k, var):
        import cuqi
        from cuqi.distribution import Gaussian
        A, _ = _nl_linear_parts(k, var)
        xt = refs.dyadic_vec(3, k + var, scale=0.125)
        b = A @ np.exp(xt) + 0.0625 * refs.dyadic_vec(4, k + var + 1, scale=0.25)
        s2 = [0.25, 0.5, 1.0][var]
        if jac:
            M = cuqi.model.Model(lambda x: A @ np.exp(x), 4, 3, jacobian=lambda x: A * np.exp(x)[None, :])
        else:
            M = cuqi.model.Model(lambda x: A @ np.exp(x), 4, 3)
        x = Gaussian(np.zeros(3), 1.0)
        y = Gaussian(M(x), s2)
        BP = cuqi.problem.BayesianProblem(y, x).set_data(y=b)

        def loglik(x):
            return refs.gauss_logpdf(b, A @ np.exp(x), s2)
        return _NL(BP, 3, lambda x: loglik(x) + refs.gauss_logpdf(x, np.zeros(3), 1.0), loglik=loglik)
    return make


def _nl_mrf(family, with_loc, transposed=False):
    def make(k, var):
        import cuqi
        from cuqi.distribution import Gaussian
        A, b = _nl_linear_parts(k, var)
        n = 3
        D = refs.fd1_1d(n, "zero")          # documented LMRF/CMRF difference operator, zero boundary
        sc = [0.5, 1.0, 0.25][var]
        s2 = [0.25, 0.125, 0.5][var]
        loc = [0.25, -0.5, 0.75][var] if with_loc else 0
        # transposed: the same operator handed over as the transpose B.T of a model defined with A^T
        M = cuqi.model.LinearModel(A.T.copy()).T if transposed else cuqi.model.LinearModel(A)
        if family == "LMRF":
            x = cuqi.distribution.LMRF(loc, sc, geometry=n)
        elif family == "CMRF":
            x = cuqi.distribution.CMRF(loc, sc, geometry=n)
        else:
            x = cuqi.distribution.Laplace(loc * np.ones(n), sc)
        y = Gaussian(M(x), s2)
        BP = cuqi.problem.BayesianProblem(y, x).set_data(y=b)

        def loglik(x):
            return refs.gauss_logpdf(b, A @ x, s2)

        def logpost(x):
            v = loglik(x)
            if family == "LMRF":
                return v + float(np.sum(-np.log(2 * sc) - np.abs(D @ (x - loc)) / sc))
            if family == "CMRF":
                return v + float(np.sum(np.log(sc / np.pi) - np.log((D @ (x - loc)) ** 2 + sc ** 2)))
            return v + float(np.sum(-np.log(2 * sc) - np.abs(x - loc) / sc))

        def kink(x):
            r = D @ (x - loc) if family != "Laplace" else (x - loc)
            return float(np.min(np.abs(r)))
        if family == "CMRF":
            return _NL(BP, n, logpost, smooth=True, route="lbfgsb")
        return _NL(BP, n, logpost, smooth=False, kink=kink, loglik=(loglik if family == "LMRF" and not with_loc
                                                                    else None))
    return make


def _nl_laplace_noise(k, var):
    import cuqi
    from cuqi.distribution import Gaussian, Laplace
    A, b = _nl_linear_parts(k, var)
    sc = [0.5, 1.0, 0.25][var]
    M = cuqi.model.LinearModel(A)
    x = Gaussian(np.zeros(3), 1.0)
    y = Laplace(M(x), sc)
    BP = cuqi.problem.BayesianProblem(y, x).set_data(y=b)

    def loglik(x):
        return float(np.sum(-np.log(2 * sc) - np.abs(b - A @ x) / sc))

    def kink(x):
        return float(np.min(np.abs(b - A @ x)))
    return _NL(BP, 3, lambda x: loglik(x) + refs.gauss_logpdf(x, np.zeros(3), 1.0), smooth=False, kink=kink,
               loglik=loglik, lik_smooth=False, lik_kink=kink)


def _nl_pde(name, field, expmap):
    def make(k, var):
        import cuqi
        dim = [6, 5, 7][var]
        kw = {}
        if field == "Step":
            kw = {"field_type": "Step", "field_params": {"n_steps": 3}}
            dim = [6, 9, 12][var]
        elif field == "KL":
            kw = {"field_type": "KL", "field_params": {"num_modes": 3}}
        if expmap:
            kw.update({"map": lambda x: np.exp(x), "imap": lambda x: np.log(x)})
        # the test problems draw their noise from numpy.random.normal: owned, answered with dyadic values
        noise = Stream(normal=lambda n, i: refs.dyadic_vec(n, k + var, scale=0.125))
        with noise.installed():
            BP = getattr(cuqi.testproblem, name)(dim=dim, SNR=[50, 100, 20][var], **kw)
        b = np.asarray(BP.data, float).ravel()
        n = BP.model.domain_dim
        s2 = float(np.asarray(BP.likelihood.distribution.cov).ravel()[0])
        fwd = BP.model.forward

        def logpost(x):
            return (refs.gauss_logpdf(b, np.asarray(fwd(x), float).ravel(), s2)
                    + refs.gauss_logpdf(x, np.zeros(n), 1.0))
        return _NL(BP, n, logpost)
    return make


NL_PROBLEMS = {
    "WangCubic": _nl_wang,
    "explink-jac": _nl_explink(True),
    "explink-nograd": _nl_explink(False),
    "linear+LMRF": _nl_mrf("LMRF", False),
    "linear+LMRF,location": _nl_mrf("LMRF", True),
    "linear+CMRF": _nl_mrf("CMRF", False),
    "linear+CMRF,location": _nl_mrf("CMRF", True),
    "linear+Laplace,location": _nl_mrf("Laplace", True),
    "linear.T+LMRF": _nl_mrf("LMRF", False, transposed=True),
    "linear.T+CMRF,location": _nl_mrf("CMRF", True, transposed=True),
    "laplace-noise": _nl_laplace_noise,
    "Heat1D": _nl_pde("Heat1D", None, False),
    "Heat1D-Step": _nl_pde("Heat1D", "Step", False),
    "Heat1D-KL": _nl_pde("Heat1D", "KL", False),
    "Poisson1D-expmap": _nl_pde("Poisson1D", None, True),
    "Poisson1D-Step-expmap": _nl_pde("Poisson1D", "Step", True),
}


def _local_scale(logd, x, n):
    """sigma_i ~ 1/sqrt(-d2 logd/dx_i^2) from a central second difference (fallback 1)."""
    sig = np.ones(n)
    f0 = logd(x)
    for i in range(n):
        for h in (1e-2, 1e-1):
            e = np.zeros(n)
            e[i] = h
            d2 = (logd(x + e) - 2 * f0 + logd(x - e)) / h ** 2
            if d2 < -1e-8:
                sig[i] = 1.0 / math.sqrt(-d2)
                break
    return sig


def _eval_nl(cell):
    res = CellResult(cell)
    name, var, k = cell["problem"], cell["variant"], cell["cat"]
    with _quiet():
        P = NL_PROBLEMS[name](k, var)
    n = P.n
    for which in ("MAP", "ML"):
        comp = "BayesianProblem." + which
        if which == "ML":
            if P.loglik is None:       # likelihood without a bounded maximiser / not a separate case
                continue
            logf, smooth, kink, route = P.loglik, P.lik_smooth, P.lik_kink, "bfgs"
        else:
            logf, smooth, kink, route = P.logpost, P.smooth, P.kink, P.route
        res.transitions += 1
        try:
            with _quiet():
                xs = P.BP.MAP(disp=False) if which == "MAP" else P.BP.ML(disp=False)
        except HarnessError:
            raise
        except Exception as e:
            res.refused += 1
            res.state("%s:refused:%s" % (which, type(e).__name__))
            res.outcomes.add("%s:%s:refused:%s" % (which, name, type(e).__name__))
            continue
        flagged = _refused_by_solver(getattr(xs, "info", None))
        xa = np.asarray(xs, float)
        res.state("%s:judged" % which)
        res.evaluations += 1
        res.transitions += 4 * n
        with _quiet():
            if xa.shape == (n,) and np.all(np.isfinite(xa)):
                sig = _local_scale(logf, xa, n)
                gradf = None
                if smooth:
                    gradf = lambda x: refs.richardson_grad(logf, x, h=1e-3 * float(np.min(sig)))[0]
            else:
                sig, gradf = np.ones(n), None
            Hn = float(np.max(1.0 / sig ** 2)) * n
            kinds, met = _judge(xa, n, logf, gradf, sig, Hn, route)
        near_kink = kink is not None and "shape" not in kinds and "nonfinite" not in kinds and kink(xa) < 1e-3
        res.outcomes.add("%s:%s:%s%s" % (which, name, "+".join(sorted(kinds)) or "ok", ":kink" if near_kink else ""))
        res.count("%s:judged" % which)
        if flagged and not kinds:
            res.refused += 1      # failure reported and the point still is the maximiser: counted as a refusal
            res.outcomes.add("%s:%s:solver-reports-failure" % (which, name))
        elif kinds:
            kind = _primary(kinds)
            res.fail("C15|%s|%s-%s|problem=%s" % (comp, "optimiser-reported-failure-but-returned" if flagged else "optimiser", kind, name),
                     "%s of %s (variant %d): %s" % (which, name, var,
                                                    "; ".join(kinds[q] for q in KIND_ORDER if q in kinds)),
                     returned=xa, metrics=met, solver_info=getattr(xs, "info", None))
        elif res.sample is None:
            res.sample = {"problem": name, which: xa, "logd": float(logf(xa)), "metrics": met}
    res.nontrivial = res.evaluations > 0
    return res


# ----------------------------------------------------------------------------------------
# process-history facet: a SEQUENCE of independent problems solved in one (fresh) interpreter
# ----------------------------------------------------------------------------------------
# Every other family builds one problem per configuration on new objects; what the process did before is whatever the
# worker happened to evaluate.  A hist cell fixes the complete history of its process: it is evaluated in a process forked
# from a pristine interpreter that has imported the library and has never constructed a library object, and there solves
#   first (problem 1, new objects) -> second (problem 2, new objects) -> first-again (the estimates / draws of problem 1
#   are requested again from the SAME problem-1 objects) -> first-rebuilt (problem 1 built once more)
# Oracle: every step meets the unchanged oracle of its own problem as if it were solved alone (dense closed form, lattice
# neighbours, gradient; direct draws: closed-form mean and covariance), and the results of problem 1 after problem 2 are
# those obtained before it.
#   kind "opt"    two optimiser-route problems: a tiny one (1-2 unknowns) and a large badly conditioned one (100 unknowns,
#                 singular values 1 .. 1e-5, about 650 BFGS iterations from the default start), in both orders
#   kind "share"  two closed-form / direct-route problems that have user-side OBJECTS in common but are different
#                 problems: the same forward+adjoint function objects or the same matrix object under two different
#                 geometries; the same data array object under two noise specifications; the same prior object under
#                 two noise specifications and operators; the same model object under two priors; functions + data +
#                 prior objects in common under two geometries and noise specifications - in both orders
HIST_SMALL = {      # name -> (estimate, (m, n), model)
    "ml-n1": ("ML", (3, 1), "matrix"),
    "ml-n2-function": ("ML", (3, 2), "function"),
    "map-n1-nograd": ("MAP", (2, 1), "generic-nograd"),
    "map-n2-jac": ("MAP", (3, 2), "generic-jac"),
}
HIST_LARGE = {"ml-N100": "ML", "map-N100-jac": "MAP"}
LARGE_N, LARGE_M, LARGE_S2, LARGE_PRIOR_COV = 100, 105, 1e-4, 1e6
SHARE_WANT = {"functions": ("fns",), "matrix": ("A",), "data": ("b",), "prior": ("x",), "model": ("M",),
              "everything": ("fns", "b", "x")}
SAME_N_GEOMS = ("default", "cont", "klall", "mapped")     # number of parameters = number of function values


def _hist_n(geom, N):
    """Number of parameters of the geometry called `geom` on N function values."""
    return {"step": N // 2, "kltrunc": N - 2}.get(geom, N)


def _ordered_pairs(items):
    return [(a, b) for a in items for b in items if a != b]


def _hist_cells(k, thorough):
    # ---- (a) optimiser route: tiny <-> large
    for small in HIST_SMALL:
        for large in HIST_LARGE:
            for seq in ([small, large], [large, small]):
                yield {"fam": "hist", "kind": "opt", "seq": seq, "cat": k}
    if thorough:        # two tiny problems of different size, two large problems on different estimates
        for a, b in _ordered_pairs(list(HIST_SMALL)) + _ordered_pairs(list(HIST_LARGE)):
            yield {"fam": "hist", "kind": "opt", "seq": [a, b], "cat": k}
    # ---- (b) user-side objects in common
    spec_pairs = _ordered_pairs(SMALL_SPECS if not thorough else [(p_, s_) for p_ in PARAMS for s_ in SHAPES])
    for N in ((4, 6) if thorough else (4,)):
        m = N + 1
        def cell(share, base, first, second):
            return {"fam": "hist", "kind": "share", "share": share, "N": N, "m": m, "cat": k, "base": base,
                    "first": first, "second": second}
        # the same function objects / the same matrix object, two geometries
        defs = [("functions", "function", "fresh"), ("matrix", "matrix", "fresh")]
        if thorough:
            defs += [("functions", "function", "cuqiarray"), ("matrix", "sparse-csr", "fresh")]
        for (share, model, ret) in defs:
            for g1, g2 in _ordered_pairs(GEOMS):
                for (lik, pri) in (SMALL_PAIRS if thorough else SMALL_PAIRS[:1]):
                    yield cell(share, {"model": model, "ret": ret, "lp": lik[0], "ls": lik[1], "pp": pri[0], "ps": pri[1]},
                               {"geom": g1}, {"geom": g2})
        # the same data array object, two noise specifications
        for (model, geom) in [("matrix", "default"), ("function", "klall")]:
            for l1, l2 in spec_pairs:
                yield cell("data", {"model": model, "geom": geom}, {"lp": l1[0], "ls": l1[1]}, {"lp": l2[0], "ls": l2[1]})
        # the same prior object, two operators and noise specifications
        for (model, geom) in [("matrix", "default"), ("function", "klall")]:
            for (pp, ps) in (SMALL_SPECS if thorough else SMALL_SPECS[:1] + SMALL_SPECS[3:]):
                for l1, l2 in _ordered_pairs(SMALL_SPECS):
                    yield cell("prior", {"model": model, "geom": geom, "pp": pp, "ps": ps, "mean": "vector"},
                               {"lp": l1[0], "ls": l1[1], "acat": 0}, {"lp": l2[0], "ls": l2[1], "acat": 1})
        # the same model object, two priors (and noise specifications)
        for (model, geom) in [("matrix", "default"), ("function", "klall"), ("matrix", "step")]:
            for p1, p2 in spec_pairs:
                yield cell("model", {"model": model, "geom": geom},
                           {"pp": p1[0], "ps": p1[1], "mean": "zerovec", "lp": "cov", "ls": "scalar"},
                           {"pp": p2[0], "ps": p2[1], "mean": "vector", "lp": "prec", "ls": "vector"})
        # function, data and prior objects in common, two geometries of the same number of parameters and two noises
        for g1, g2 in _ordered_pairs(SAME_N_GEOMS):
            for l1, l2 in (_ordered_pairs(SMALL_SPECS) if thorough else [(SMALL_SPECS[0], SMALL_SPECS[1]),
                                                                          (SMALL_SPECS[3], SMALL_SPECS[2])]):
                yield cell("everything", {"model": "function", "pp": "prec", "ps": "vector", "mean": "vector"},
                           {"geom": g1, "lp": l1[0], "ls": l1[1]}, {"geom": g2, "lp": l2[0], "ls": l2[1]})


def _large_operator(N, m):
    """m x N, singular values 10^(-5 i/(N-1)), singular vectors = orthonormal DCT bases (dense, no symmetry to exploit)."""
    import scipy.fft
    U = scipy.fft.dct(np.eye(m), type=2, norm="ortho", axis=0)[:, :N]
    V = scipy.fft.dct(np.eye(N), type=4, norm="ortho", axis=0)
    if not (close(U.T @ U, np.eye(N), 1e-12) and close(V.T @ V, np.eye(N), 1e-12)):
        raise HarnessError("DCT bases are not orthonormal")
    sv = 10.0 ** (-5.0 * np.arange(N) / (N - 1))
    return (U * sv) @ V.T


def _build_large(name, k):
    """The large optimiser-route problems: ML of a LinearModel, MAP behind a generic Model with Jacobian."""
    from cuqi.distribution import Gaussian
    from cuqi.model import LinearModel, Model
    from cuqi.problem import BayesianProblem
    N, m, s2 = LARGE_N, LARGE_M, LARGE_S2
    A = _large_operator(N, m)
    b = A @ refs.dyadic_vec(N, k, scale=0.25) + math.sqrt(s2) * refs.dyadic_vec(m, k + 1, scale=0.25)
    if HIST_LARGE[name] == "ML":
        M, pc = LinearModel(A.copy()), 1.0
    else:
        M, pc = Model(lambda x: A @ x, range_geometry=m, domain_geometry=N, jacobian=lambda x: A), LARGE_PRIOR_COV
    x = Gaussian(np.zeros(N), pc)
    y = Gaussian(M(x), s2)
    P = _Problem()
    P.BP = BayesianProblem(y, x).set_data(y=b.copy())
    P.M, P.b, P.Ce, P.Cx, P.mu, P.n, P.m = M, b, s2 * np.eye(m), pc * np.eye(N), np.zeros(N), N, m
    return P


class _HistProblem:
    """One problem of a history: how to build it, which operations are requested, how its signature calls it."""

    def __init__(self, cell, idx):
        k = cell["cat"]
        self.k = k
        if cell["kind"] == "opt":
            name = cell["seq"][idx]
            self.label = name
            if name in HIST_LARGE:
                self.ops = [HIST_LARGE[name]]
                self.size, self.cfg, self.exact = (LARGE_M, LARGE_N), {"problem": name}, True
                self.prepare = lambda shared: _prepare(None, k, None, builder=lambda: _build_large(name, k))
            else:
                which, size, model = HIST_SMALL[name]
                cfg = dict(BASE, model=model)
                self.ops, self.size, self.cfg, self.exact = [which], size, cfg, model != "generic-nograd"
                self.prepare = lambda shared: _prepare(size, k, cfg)
        else:
            cfg = dict(BASE)
            cfg.update(cell["base"])
            cfg.update(cell["first" if idx == 0 else "second"])
            # the closed-form / direct route needs the covariances: a Gaussian given by prec / sqrtcov / sqrtprec has
            # none until the public compute_cov() ran (without it MAP() and the direct sampler refuse)
            cfg["precov"] = cfg["lp"] != "cov" or cfg["pp"] != "cov"
            size = (cell["m"], _hist_n(cfg["geom"], cell["N"]))
            self.label = ",".join("%s=%s" % kv for kv in sorted(cell["first" if idx == 0 else "second"].items()))
            self.ops, self.size, self.cfg, self.exact = ["MAP", "sample", "ML"], size, cfg, True
            self.prepare = lambda shared: _prepare(size, k, cfg, shared=shared)

    def run(self, op, prep):
        if op == "sample":
            return _op_sample(self.size, self.k, self.cfg, prep=prep)
        return _op_estimate(self.size, self.k, self.cfg, op, prep=prep, exact_grad=self.exact)


HIST_COMPONENT = {"MAP": "BayesianProblem.MAP", "ML": "BayesianProblem.ML", "sample": "BayesianProblem.sample_posterior"}


def _hist_facet(cell):
    if cell["kind"] == "share":
        return "share=" + cell["share"]
    a, b = cell["seq"]
    size = lambda nm: "large" if nm in HIST_LARGE else "small"
    return "seq=%s-then-%s" % (size(a), size(b))


def _hist_changed(op, st, before, after, n):
    """Message if the result of problem 1 after problem 2 differs from the one before it, else None."""
    a, b = np.asarray(before["returned"], float), np.asarray(after["returned"], float)
    if a.shape != b.shape:
        return "shape %s before, %s after" % (a.shape, b.shape)
    if st.endswith("direct"):
        if not close(a, b, 1e-9):
            return "%s before, %s after" % (np.array2string(a, precision=8), np.array2string(b, precision=8))
        if op == "sample" and "T" in before and "T" in after and not close(
                before["T"] @ before["T"].T, after["T"] @ after["T"].T, 1e-9):
            return "covariance of the draws %s before, %s after" % (
                np.array2string((before["T"] @ before["T"].T).ravel(), precision=6),
                np.array2string((after["T"] @ after["T"].T).ravel(), precision=6))
    return None     # optimiser route: both points were held against the closed form within the solver tolerance


def _hist_run(cell):
    """The complete history of one process (runs in a process forked from the pristine interpreter)."""
    np.set_printoptions(threshold=12, edgeitems=3)     # messages about 100 unknowns stay readable (own process)
    res = CellResult(cell)
    probs = [_HistProblem(cell, 0), _HistProblem(cell, 1)]
    shared = {"want": SHARE_WANT[cell["share"]]} if cell["kind"] == "share" else None
    facet = _hist_facet(cell)
    first_prep, before, failed_first, judged = None, {}, set(), 0
    for (pos, idx, rebuild) in [("first", 0, True), ("second", 1, True), ("first-again", 0, False),
                                ("first-rebuilt", 0, True)]:
        pr = probs[idx]
        prep = pr.prepare(shared) if rebuild else first_prep
        if pos == "first":
            first_prep = prep
        map_bad = None
        for op in pr.ops:
            st, kinds, obs = pr.run(op, prep)
            res.transitions += 1
            res.state("%s:%s:%s" % (pos, op, st))
            res.outcomes.add("hist:%s:%s:%s" % (pos, op, st) + (":" + "+".join(sorted(kinds)) if kinds else ""))
            res.count("hist:%s:%s" % (op, st.split(":")[0]))
            if not st.startswith("judged"):
                if not st.startswith("other-route"):
                    res.refused += 1
                continue
            judged += 1
            res.evaluations += 1
            res.transitions += (obs or {}).get("transitions", 4 * pr.size[1])
            if op == "sample":
                res.traces += 1
                if "mean" in kinds and map_bad is not None and np.shape(map_bad) == np.shape(obs["returned"]) \
                        and close(map_bad, obs["returned"], 1e-9):
                    res.count("sample-mean-inherits-MAP-failure")
                    kinds = {q: v for q, v in kinds.items() if q != "mean"}
            if kinds:
                if op == "MAP":
                    map_bad = obs["returned"]
                name = _primary(kinds)
                if idx == 0:
                    if pos == "first":
                        failed_first.add((op, name))
                    elif (op, name) in failed_first:
                        continue        # problem 1 fails the same way before any history: reported once, as "first"
                obs = {q: v for q, v in (obs or {}).items() if q != "transitions"}
                res.fail("C15|%s|%s-%s|history=%s,%s" % (HIST_COMPONENT[op], "direct" if op == "sample" else _oplabel(st),
                                                       name, pos, facet),
                         "%s, step '%s' (problem %s of the sequence [%s] -> [%s]): %s" % (
                             HIST_COMPONENT[op], pos, "2" if idx else "1", probs[0].label, probs[1].label,
                             "; ".join(kinds[q] for q in KIND_ORDER if q in kinds)),
                         focus={"step": pos, "config": pr.cfg, "size": list(pr.size)}, **obs)
                continue
            if idx == 0 and pos == "first":
                before[op] = (st, obs)
                if res.sample is None:
                    res.sample = {"step": pos, "operation": op, "returned": obs["returned"],
                                  "closed_form": obs.get("reference")}
            elif idx == 0 and op in before and before[op][0] == st:
                res.evaluations += 1
                msg = _hist_changed(op, st, before[op][1], obs, pr.size[1])
                if msg:
                    res.fail("C15|%s|%s-changed|history=%s,%s" % (HIST_COMPONENT[op],
                                                                 "direct" if op == "sample" else _oplabel(st), pos, facet),
                             "%s of problem 1 [%s] requested again after problem 2 [%s] was solved (%s): %s" % (
                                 HIST_COMPONENT[op], probs[0].label, probs[1].label, pos, msg),
                             focus={"step": pos, "config": pr.cfg, "size": list(pr.size)})
    res.nontrivial = judged > 0
    return res


_HIST_SERVER = {}      # pid of the owning process -> Popen of its pristine interpreter


def _hist_server():
    """The pristine interpreter of this (worker) process: has imported cuqi from the tree under test and this module,
    has never constructed a library object; forks one child per hist cell.  Ends when its owner ends (EOF on stdin)."""
    import os
    import subprocess
    import sys
    pid = os.getpid()
    z = _HIST_SERVER.get(pid)
    if z is not None and z.poll() is None:
        return z
    import cuqi
    from vfw.core import ROOT
    repo = os.path.dirname(os.path.dirname(os.path.abspath(cuqi.__file__)))
    code = "import sys; sys.path[:0] = [%r, %r]; import checks.c15 as m; m._hist_server_main()" % (repo, ROOT)
    z = subprocess.Popen([sys.executable, "-W", "ignore", "-c", code], stdin=subprocess.PIPE, stdout=subprocess.PIPE,
                         stderr=subprocess.DEVNULL, text=True, bufsize=1, cwd=ROOT)
    _HIST_SERVER.clear()
    _HIST_SERVER[pid] = z
    return z


def _hist_server_main():
    import json
    import os
    import traceback
    import warnings
    warnings.filterwarnings("ignore")
    import scipy.fft, scipy.optimize, scipy.sparse                              # noqa: E401,F401
    import cuqi, cuqi.distribution, cuqi.geometry, cuqi.model, cuqi.problem    # noqa: E401,F401  (import only)
    pin, pout = os.fdopen(os.dup(0), "r"), os.fdopen(os.dup(1), "w")
    null = os.open(os.devnull, os.O_RDWR)
    for fd in (0, 1, 2):
        os.dup2(null, fd)
    while True:
        line = pin.readline()
        if not line:
            return
        r, w = os.pipe()
        pid = os.fork()
        if pid == 0:
            try:
                os.close(r)
                try:
                    np.random.seed(20261003)
                    with _quiet():
                        out = json.dumps(_hist_run(json.loads(line)).pack(), default=str)
                except BaseException:
                    out = json.dumps({"error": traceback.format_exc()})
                data = out.encode()
                while data:
                    data = data[os.write(w, data):]
            finally:
                os._exit(0)
        os.close(w)
        chunks = []
        while True:
            c = os.read(r, 1 << 16)
            if not c:
                break
            chunks.append(c)
        os.close(r)
        os.waitpid(pid, 0)
        pout.write(b"".join(chunks).decode().replace("\n", " ") + "\n")
        pout.flush()


def _eval_hist(cell):
    import json
    z = _hist_server()
    try:
        z.stdin.write(json.dumps(cell) + "\n")
        z.stdin.flush()
        line = z.stdout.readline()
    except (BrokenPipeError, OSError) as e:
        raise HarnessError("history interpreter is gone: %r" % (e,))
    if not line.strip():
        raise HarnessError("history interpreter returned nothing for %r" % (cell,))
    p = json.loads(line)
    if p.get("error"):
        raise HarnessError("history cell failed inside its process:\n%s" % p["error"])
    res = CellResult(cell)
    res.states, res.outcomes = set(p["states"]), set(p["outcomes"])
    res.transitions, res.traces, res.evaluations = p["transitions"], p["traces"], p["evaluations"]
    res.failures, res.nontrivial, res.sample = p["failures"], p["nontrivial"], p["sample"]
    res.branches, res.refused = p["branches"], p["refused"]
    return res


def eval_cell(cell):
    fam = cell["fam"]
    if fam == "lg":
        return _eval_lg(cell)
    if fam == "ml":
        return _eval_ml(cell)
    if fam == "lgopt":
        return _eval_lgopt(cell)
    if fam == "nl":
        return _eval_nl(cell)
    if fam == "hist":
        return _eval_hist(cell)
    if fam == "gmode":
        return _eval_gmode(cell)
    raise HarnessError("unknown family %r" % fam)
