"""C10 - conjugate and direct samplers draw from the exact conditional  (E2 + E3).

The Gamma request the conjugate sampler finally issues (numpy.random.gamma(shape, scale, size)) is
intercepted with a scripted stream, so the distribution that is *actually drawn from* is known exactly.
Oracle (supported pairs): log Gamma(t; captured shape, captured scale) - target.logd(t) is constant over
a grid of hyper-parameter values t.  Unsupported structures: "raises, or is exact".  Direct: step()
under a scripted stream == target.sample() under the same stream (values and request log).
Name facet: the same documented model with the hyper-parameter called every way it can relate to the likelihood's own
parameter names; there target.logd itself is also compared with the documented posterior density written densely by
the check (operation `target-density`), so a target whose density silently stopped being the model the user wrote
cannot make the sampler comparison pass vacuously.
"""
import math
import numpy as np
from vfw.core import CellResult, HarnessError, close
from vfw import refs
from vfw.stream import Stream
from checks import _c10_producers as PR

PROPERTY = "C10"
RULE = ("cells = (pair family x parametrisation x dimension/geometry x interface) for supported pairs, "
        "(member of the refusal alphabet x interface), (one re-targeted sampler object x interface), (target family) for "
        "Direct.  A supported cell runs inside the full product Gamma(shape, rate) in {0.5,1,3}x{1e-4,1,2} x mean/data "
        "catalogue {generic dyadic.., zero residual, all-zero data, data with some exact zeros, integer-dtype counts, "
        "all-zero mean, mean and data all-zero; magnitude of the operands: mean and data with the common offset 2^27 resp. -2^40 "
        "and an O(1) dyadic difference, mean and data multiplied by 2^30 (t-grid x 2^-60, where that conditional has its "
        "mass) resp. by 2^-30 - all entries exactly representable}; the Gamma request is captured and its textbook log-density is compared "
        "with target.logd on the whole t-grid (the densely written textbook update rank/2+a, r'P1r/2+b is computed "
        "alongside as a second, informational oracle).  A refusal cell offers the posterior (n in {2,3} x 3 priors) through "
        "every acceptance route - stateless interface: constructor+step; stateful interface: constructor, target setter on "
        "a fresh sampler, target setter on a sampler that already drew for a supported posterior, HybridGibbs sampling "
        "strategy, find_valid_samplers listing - oracle: several occurrences / non-scalar Gamma must be refused by the "
        "route itself (stateful interface), any other unsupported dependence is refused by the route or by the first step, "
        "or the captured Gamma is exact on the grid.  A near-miss cell (stateful interface) = (documented pair x the "
        "likelihood parameter carrying the hyper-parameter x perturbation form of the supported dependence): the reciprocal "
        "1/s (cov, LMRF scale) perturbed to 1/(s+d), (1+d)/s, 1/s+d, 1/s**(1+d), the identity s (prec) to s+d, s*(1+d), "
        "s/(1+d*s), s**(1+d); inside the cell the full product sign of d x |d| catalogue x data scale {normalised, raw "
        "= x 2^10} x 2 priors x the same 5 acceptance routes.  Oracle: refused by the route or by the first step; or, for "
        "the pairs that are sampled exactly by design, the captured Gamma is exact for the target's own density on a "
        "t-grid placed where the conditional has its mass (standard grid; grid x 2^round(log2(1/(|r|^2/2+b))) for raw data); "
        "for the pairs that are approximate by design (Regularized*, LMRF) the draws cannot be judged, so acceptance of a "
        "dependence that is decidedly another function (differs from the supported form by more than 1e-8 relative on "
        "the standard grid - computed by the check from the two callables, not from the library) is itself the violation.  "
        "A name cell = (interface x pair family x likelihood parameter the hyper-parameter enters through {Gaussian cov=1/X, "
        "prec=X, sqrtprec=sqrt(X) I, sqrtcov=I/sqrt(X); GMRF prec=X; LMRF scale=1/X (ConjugateApprox)} x NAME X of the "
        "hyper-parameter (= name of the Gamma prior = argument name of the callable)), the names enumerated by their relation "
        "to the likelihood: generic (s, d), the entering parameter's OWN name (cov=lambda cov: 1/cov), a name containing it "
        "(cov2), the name of every OTHER documented parameter of the same likelihood (mean, cov, prec, sqrtcov, sqrtprec / "
        "location, scale), names sorting before and after all other variables of the joint (a, z); inside the cell the full "
        "product dimension x GMRF order x way the posterior is assembled {JointDistribution(h,y), JointDistribution(y,h), "
        "Posterior(likelihood, h), three-variable joint (w,h,y) with mean=lambda w: w conditioned on w} x prior x {generic, "
        "zero} residual.  Two oracles: `target-density` - target.logd on the t-grid equals, up to a constant, the documented "
        "posterior density N(data; mean, I/t) resp. N(data; mean, (t D'D)^-1) resp. prod Laplace((D data)_i; 0, 1/t) times "
        "Gamma(t; a, b) written densely by the check (D from the index formulas of vfw.refs); `hyper-name` - the sampler "
        "refuses, or the captured Gamma request is exact for the target's own density (pairs outside the documented ones - "
        "sqrtprec, sqrtcov - 'raises, or is exact'; LMRF: draws not judged).  A hyper-parameter named like the location "
        "parameter whose location was given a value is ambiguous model text: both readings (location keeps its value / "
        "location takes the hyper-parameter's value) are accepted for target-density; when the target follows the second "
        "one its own density has the hyper-parameter in location and dispersion, so acceptance by the approximate pair is "
        "the violation (exact pairs: judged by the captured request as always).  "
        "A producer cell = (interface x documented pair and parameter {Gaussian cov, Gaussian prec, GMRF prec; stateful "
        "interface also RegularizedGaussian cov, LMRF scale} x HOW the callable carrying the dependence was produced {lambda "
        "written out, def function written out, functools.partial of one general function, lambda returned by one closure "
        "factory (siblings share the code object, differ in closure values), bound method of an instance of one small class, "
        "instance of one small class with __call__}); members = the three-parameter family c/s**p+e (cov, scale) resp. "
        "c*s**p+e (prec): the supported member (1,1,0) and three unsupported siblings of the refusal alphabet; inside the cell "
        "dimension x prior x acceptance route (5 routes, stateless interface: constructor+step) x process history {fresh: a "
        "family whose function, code and class objects have never been shown to the library in this process; the unsupported "
        "member offered AFTER its supported sibling (same general function / factory / class) was accepted and drawn for by "
        "another sampler; the supported member offered AFTER each unsupported sibling was offered (refused)} - every history "
        "inside the one cell, every family at its own source location, so the verdict does not depend on which cells share a "
        "worker process.  Oracles: the statement's, in every history (supported member accepted by an exact pair: captured "
        "Gamma exact for the target's own density; unsupported member: refused, or exact, or - approximate pairs - merely "
        "accepting it is the violation), and the differential one: refused / listed / accepted-with-these-Gamma-parameters of "
        "a member through a route is the same in every history.  In the cells of the other five producers the four members are "
        "offered as written-out lambdas (fresh) too: what fails there as well is reported under the route / the refusal "
        "cells' signature of that dependence, not under the producer.  "
        "GMRF supported cells whose node count exists on both grid layouts (2-D N x N <-> 1-D with N*N nodes): a GMRF of the "
        "same dimension, order and bc on the OTHER layout is built before the members of the cell, and the other layout is "
        "itself a judged member (3 priors) after them - both orders inside the one cell.  "
        "Every supported cell also runs the hyper-prior magnitude facet: prior Gamma(3, 2 x 2^e) and Gamma(3 x 2^e, 2 x 2^e), e "
        "in {-70,-30,0,30} (7 priors, exact powers of two) x generic mean and data multiplied by 2^ds, ds in {-30,0,30}; two "
        "oracles per member: the captured request against target.logd on the standard grid in units of 2^round(log2(E t)) "
        "(signature ..|<mismatch>,prior-magnitude), and the VALUE returned when the scripted stream answers like numpy's "
        "generator (standard-gamma variate 0.8125 x the requested scale): it equals variate / rate, rate = the densely written "
        "textbook rate r'P1r/2+b (Gaussian, GMRF zero bc) resp. the rate fitted to target.logd on the grid (GMRF neumann / "
        "periodic bc) (signature ..|value-drawn,prior-magnitude).  "
        "A supported cell is non-trivial when the sampler accepted the target "
        "and issued a Gamma request; a refusal / near-miss cell when the same route accepts the supported control posterior "
        "(for a near-miss cell: the d = 0 twin of the same pair and parameter); a name cell when target.logd or a captured "
        "request was judged; a producer cell when the supported member was accepted in the fresh history")
BOUND = {
    "quick": "Gaussian dims 1..4 x {cov=1/s, cov=1.0/s, prec=s, prec=s*ones, scalar mean with cov / prec}; GMRF 1-D "
             "N=2..5 + 2-D 2x2,3x3 x bc {zero,neumann,periodic} x order 0..2; 9 Gamma(shape,rate) x 11 mean/data kinds "
             "(1 generic vector, zero residual, 5 zero/integer kinds, 4 magnitude kinds: offset 2^27, offset -2^40, scale "
             "2^30, scale 2^-30) + 21 hyper-prior magnitude members (7 priors with rate / shape and rate x 2^{-70,-30,0,30} x "
             "data scale 2^{-30,0,30}); t-grid {0.1,0.5,1,2,7,30}; refusal alphabet: 19 "
             "unsupported dependences / priors + 9 several-occurrence likelihoods (mean with cov, prec, sqrtcov, sqrtprec; "
             "GMRF mean with prec, zero and periodic bc; mean forms s*v, sqrt(s)*v, v/s) on both interfaces + (LMRF "
             "location with scale) on ConjugateApprox, x 5 routes on the stateful interface; near-miss family (stateful "
             "interface): 7 pair/parameter combinations {Gaussian cov, Gaussian prec, GMRF(zero bc, order 1) prec, "
             "RegularizedGaussian cov, RegularizedGaussian prec, RegularizedGMRF prec (nonnegativity), LMRF scale} x 4 "
             "perturbation forms x sign +- x |d| in 2^-{10,20,26,40} x data scale {1, 2^10} x 2 priors x 5 routes, n = 3; "
             "re-targeting: all 24 ordered triples of 4 posteriors on one object; 12 Direct target families; name facet: "
             "6 (family, entering parameter) x 7..10 names (101 cells over both interfaces) x dims {1,2,3} (GMRF/LMRF {2,3}, "
             "GMRF zero bc, order 1,2) x 4 assemblies (LMRF 3) x 2 priors x 2 residual kinds; producer facet: (3 pairs x 2 "
             "interfaces + 2 approximate pairs on the stateful interface) x 6 producers = 48 cells, each n = 3 x prior "
             "Gamma(3,2) x routes x {4 members fresh, 3 unsupported members after the accepted supported sibling, the "
             "supported member after each of 3 unsupported siblings}; other-layout GMRF: all 2-D cells (1-D N*N) and 1-D N = 4",
    "thorough": "Gaussian dims 1..10; GMRF 1-D N=2..10 + 2-D 2x2..5x5; 9 Gamma(shape,rate) x 13 mean/data kinds "
                "(3 generic vectors, zero residual, 5 zero/integer kinds, 4 magnitude kinds); near-miss |d| in "
                "2^-{6,10,14,17,20,23,26,40}; name facet: dims 1..5, all 9 Gamma(shape,rate); producer facet: n in {2,3} x 2 "
                "priors; other-layout GMRF: 2-D 2x2..5x5 (1-D 4..25) and 1-D N = 4, 9; otherwise as quick",
}
ASSUMPTIONS = [
    "trusted base: numpy.random.gamma(shape, scale) draws from the Gamma law with exactly these parameters; "
    "scipy.stats.gamma.logpdf is the textbook Gamma log-density",
    "the target's own log-density (target.logd) is the comparator demanded by the statement; whether that density "
    "is itself the documented one is judged in the name cells only (operation target-density: Gaussian, GMRF with zero "
    "bc, LMRF with zero bc, up to an additive constant, 1e-9) and is otherwise C04/C20 (in the supported cells, where the "
    "densely written textbook update differs from the captured request although the request is proportional to "
    "target.logd, this is only counted)",
    "name facet: names are valid Python identifiers from a fixed catalogue (relation classes generic / own / containing-"
    "own / other documented parameter / alphabetical extremes); names equal to the likelihood's own variable name are "
    "refused by JointDistribution and not enumerated; names of non-parameter attributes (geometry, name, dim), unicode or "
    "keyword-like names are not covered; constructor+step route only (the other acceptance routes are enumerated with "
    "the generic name in the refusal / near-miss cells); Regularized* pairs are not in the name facet (their logd is "
    "undefined and their draws approximate by design, so neither oracle applies); GMRF with neumann / periodic bc is "
    "not in the name facet (its documented density is improper; the supported cells cover those geometries with the "
    "generic name)",
    "name facet: a sub-case whose target.logd raises or is non-finite (e.g. a vector mean replaced by a length-1 value "
    "when the hyper-parameter is named 'mean' and no geometry was given) cannot be judged and is counted",
    "GMRF with neumann/periodic bc uses a sqrt(eps)-regularised Cholesky factor: constancy demanded at 1e-5 "
    "(1e-9 elsewhere)",
    "cells whose own target.logd is non-finite on the grid (GMRF neumann order 2, some N) cannot be judged and are "
    "counted as trivial",
    "GMRF neumann/periodic log-determinants come from ARPACK (eigsh) whose start vector depends on process-global "
    "state: which of the order-2 neumann sub-cases are non-finite may differ between runs (counts vary by a few, "
    "verdict signatures do not)",
    "magnitude facet: two common offsets (2^27, -2^40: ratio |mean| / |mean - data| of 1e8 resp. 1e12) and two common "
    "scales (2^30, 2^-30) with the generic name, the constructor+step route and the supported pairs of the supported "
    "cells only; offsets that differ between entries by orders of magnitude, magnitudes near the overflow / underflow "
    "threshold of float64, extreme prior shape / rate values and extreme magnitudes in the refusal, near-miss (data "
    "scale 2^10 there), name and producer cells are not covered; for GMRF with neumann / periodic bc a constant offset "
    "is in the null space of the difference operator, there the facet shows through the dyadic part of the mean only",
    "hyper-prior magnitude facet: one base prior Gamma(3, 2), generic residual, constructor+step route, supported pairs "
    "only; exponents beyond 2^-70 / 2^30, shape scaled alone, shape < 1 at extreme rates and a zero residual at extreme "
    "priors are not covered; the value oracle assumes numpy's gamma(shape, scale) = standard_gamma(shape) * scale and uses "
    "one scripted variate (0.8125); tolerance 1e-9 relative (1e-5 for GMRF neumann / periodic bc, whose comparator is the "
    "rate of target.logd itself, fitted by least squares on the 6-point grid)",
    "data catalogue: float64 and int64 arrays; lists, float32, masked arrays and non-finite data are not covered",
    "stateless interface (cuqi.sampler.Conjugate): its only acceptance route is constructor followed by step (target is "
    "a plain attribute, there is no validation stage or listing); 'rejected' = an exception before a draw is returned. "
    "Its alphabet of unsupported functional forms is the recorded one (each accepted inexact form is a separate "
    "recorded finding of one root cause) plus forms it samples exactly",
    "stateful interface: 'accepted by a route' = the constructor / target assignment / HybridGibbs constructor returns "
    "without an exception, or find_valid_samplers lists the sampler (the library's own definition of acceptance)",
    "ConjugateApprox and the Regularized* pairs are approximate by design: their draws are not judged; ConjugateApprox "
    "is only offered the several-occurrence member of its own pair (shared structural validation)",
    "several-occurrence members whose second occurrence does not change the posterior (e.g. mean = v + 0*s) are not in "
    "the alphabet",
    "values of t outside the grid (and, for the clipped dependences, outside the extended grid) are not covered",
    "near-miss family, resolution: the library documents no tolerance for its structural test (the docstrings say 'is "
    "the identity' / 'is the reciprocal'), so the floor is the harness's own closed-form tolerance: a perturbed "
    "dependence is decided when it differs from the supported form by more than 1e-8 relative (ten times the 1e-9 "
    "tolerance of the density comparison) somewhere on the standard grid t in [0.1, 30] - true for every form at "
    "|d| >= 2^-26 (1.5e-8) and for none at |d| = 2^-40 (9.1e-13).  Undecided members are offered all the same; their "
    "acceptance is counted, not judged.  Where an undecided member is accepted and raw data then expose an inexact draw "
    "(additive guard 1/(s+d), s+d: relative effect d/t grows without bound as |r|^2 grows), this is reported under the "
    "recorded probe-only signature 'agrees-at-probe-points' and under no other",
    "near-miss family: perturbations that the sampler's own construction absorbs (a constant gain: prec = (1+d)s is "
    "sampled exactly because the unit-hyper-parameter factor carries the gain) are legitimately 'accepted and exact'",
    "producer facet: 'never shown to the library in this process' holds for the first evaluation of a cell in a process; "
    "a repeated evaluation of the same cell (replay) repeats the same sequence of offers with equal code objects.  Every "
    "callable has the single non-default argument s; callables with extra defaulted arguments, functools.partial of a "
    "lambda, staticmethods / classmethods, C-implemented callables (operator.truediv partials), callables re-created "
    "between validation and draw, and histories longer than one sibling are not covered; the supported sibling is accepted "
    "through constructor+step (the other routes are enumerated for the member offered afterwards only)",
    "producer facet, stateless interface: it validates nothing, so every unsupported sibling is accepted (recorded per "
    "dependence, same signatures as in the refusal cells) and 'after a refused sibling' is 'after an offered sibling'",
    "other-layout GMRF: only node counts that exist on both layouts inside the dimension bound (1-D N = 4, 9 ...; every "
    "2-D N x N); rectangular images and a third object (other order / bc, same dimension) are not covered",
    "near-miss family on the stateless interface is not enumerated: that interface has no structural validation at "
    "all (recorded per functional form); one GMRF geometry (zero bc, order 1, N = 3) and one dimension (n = 3) only; "
    "perturbation catalogue = 4 one-parameter forms, not all functions within d of the supported one",
]

IFACES = ["legacy", "exp"]
IFACE_NAME = {"legacy": "cuqi.sampler.Conjugate", "exp": "cuqi.experimental.mcmc.Conjugate"}
GRID = [0.1, 0.5, 1.0, 2.0, 7.0, 30.0]
GRID_EXT = GRID + [500.0, 2000.0, 8000.0]
GAMMA_PARAMS = [(a, b) for a in (0.5, 1.0, 3.0) for b in (1e-4, 1.0, 2.0)]
GAUSS_PARAM = ["cov=1/s", "cov=1.0/s", "prec=s", "prec=s*ones", "cov=1/s,mean=scalar", "prec=s,mean=scalar"]
BCS = ["zero", "neumann", "periodic"]
DRAW = 1.25     # the scripted answer of every Gamma request

# several occurrences of the hyper-parameter in the likelihood (the statement names them: rejected)
SEVERAL = ["mean-and-cov", "mean-and-prec", "mean(sqrt)-and-cov", "mean(1/s)-and-prec", "mean-and-sqrtprec",
           "mean-and-sqrtcov", "gmrf-mean-and-prec", "gmrf-mean(sqrt)-and-prec", "gmrf-periodic-mean-and-prec"]
UNSUPPORTED = ["cov=s", "cov=1/s**2", "prec=s**2", "prec=2*s", "sqrtprec=sqrt(s)", "sqrtcov=1/sqrt(s)", "cov=C/s",
               "cov=1/s+1", "mean-only", "gamma-2dim", "gamma-2dim-by-geometry", "prior-uniform", "prior-lognormal",
               "prec=min(s,1000)", "cov=1/min(s,1000)", "gmrf-prec=d**2", "gmrf-prec=1/d", "gmrf-prec=2*d",
               "prec=s+1"] + SEVERAL
APPROX_ONLY = ["lmrf-location-and-scale"]     # (LMRF, Gamma): pair of ConjugateApprox (stateful interface only)
# acceptance routes of the stateful interface
ROUTES = ["ctor", "setter", "setter-used", "hybridgibbs", "find_valid_samplers"]

# near-miss dependences (stateful interface): documented pair x parameter, perturbation form, size, data scale
NEAR_FAMS = [("gauss", "cov"), ("gauss", "prec"), ("gmrf", "prec"), ("reg-gauss", "cov"), ("reg-gauss", "prec"),
             ("reg-gmrf", "prec"), ("lmrf", "scale")]
NEAR_FORMS = ["shift", "gain", "floor", "power"]
NEAR_TEXT = {(True, "shift"): "1/(s+delta)", (True, "gain"): "(1+delta)/s", (True, "floor"): "1/s+delta",
             (True, "power"): "1/s**(1+delta)", (False, "shift"): "s+delta", (False, "gain"): "s*(1+delta)",
             (False, "floor"): "s/(1+delta*s)", (False, "power"): "s**(1+delta)"}
NEAR_DEXP = {"quick": [10, 20, 26, 40], "thorough": [6, 10, 14, 17, 20, 23, 26, 40]}      # |delta| = 2^-e
NEAR_SCALES = [0, 10]                        # data multiplied by 2^e (e > 0: raw, un-normalised data, |r|^2 ~ 1e5..1e6)
NEAR_PRIORS = [(1.0, 1e-4), (3.0, 2.0)]
NEAR_DECIDED = 1e-8     # a dependence is decidedly another function when it differs by more than this (relative) on GRID

# name of the hyper-parameter (= name of the Gamma prior = argument name of the callable in the likelihood)
#   (family, likelihood parameter the hyper-parameter enters through, documented dependence written in the name X)
NAME_FAMS = [("gauss", "cov"), ("gauss", "prec"), ("gmrf", "prec"), ("gauss", "sqrtprec"), ("gauss", "sqrtcov"),
             ("lmrf", "scale")]
NAME_BODY = {"cov": "1/X", "prec": "X", "sqrtprec": "np.sqrt(X)*np.eye(n)", "sqrtcov": "np.eye(n)/np.sqrt(X)", "scale": "1/X"}
NAME_PARAMS = {"gauss": ["mean", "cov", "prec", "sqrtcov", "sqrtprec"], "gmrf": ["mean", "prec"],
               "lmrf": ["location", "scale"]}       # the documented parameters of each likelihood family
NAME_LOCATION = ("mean", "location")
NAME_LIKNAME = {"gauss": "y", "gmrf": "x", "lmrf": "x"}
NAME_CLASS = {"gauss": "Gaussian", "gmrf": "GMRF", "lmrf": "LMRF"}
NAME_BUILDS = ["joint(h,y)", "joint(y,h)", "posterior(lik,h)", "joint(w,h,y)"]
NAME_PRIORS = [(0.5, 1e-4), (3.0, 2.0)]

# how the callable was produced x process history (see _c10_producers): (pair, parameter) -> unsupported siblings
#   (c, p, e) of  c / s**p + e  (cov, scale)  resp.  c * s**p + e  (prec); names = the members' names in UNSUPPORTED
PROD_FAMS = [("gauss", "cov"), ("gauss", "prec"), ("gmrf", "prec"), ("reg-gauss", "cov"), ("lmrf", "scale")]
PROD_SIBLINGS = {
    ("gauss", "cov"): [("cov=1/s**2", (1, 2, 0)), ("cov=s", (1, -1, 0)), ("cov=1/s+1", (1, 1, 1))],
    ("gauss", "prec"): [("prec=s**2", (1, 2, 0)), ("prec=2*s", (2, 1, 0)), ("prec=s+1", (1, 1, 1))],
    ("gmrf", "prec"): [("gmrf-prec=d**2", (1, 2, 0)), ("gmrf-prec=1/d", (1, -1, 0)), ("gmrf-prec=2*d", (2, 1, 0))],
    ("reg-gauss", "cov"): [("cov=1/s**2", (1, 2, 0)), ("cov=s", (1, -1, 0)), ("cov=1/s+1", (1, 1, 1))],
    ("lmrf", "scale"): [("scale=1/s**2", (1, 2, 0)), ("scale=s", (1, -1, 0)), ("scale=1/s+1", (1, 1, 1))],
}
PROD_HISTORIES = ["fresh", "after-accepted-sibling", "after-refused-sibling"]

DIRECT = ["gauss-scalar-cov", "gauss-full-cov", "gauss-prec", "gauss-sqrtcov", "gauss-sqrtprec", "gmrf-zero",
          "gamma", "gamma-vector", "laplace", "normal", "lognormal", "uniform-1d"]


# ----------------------------------------------------------------------------------------
def cells(tier, seed):
    k = refs.cat(seed)
    quick = tier == "quick"
    gdims = range(1, 5) if quick else range(1, 11)
    n1 = range(2, 6) if quick else range(2, 11)
    n2 = (2, 3) if quick else (2, 3, 4, 5)
    nres = 1 if quick else 3
    for iface in IFACES:
        for par in GAUSS_PARAM:
            for n in gdims:
                yield {"kind": "gauss", "iface": iface, "par": par, "n": n, "cat": k, "nres": nres}
        for bc in BCS:
            for order in (0, 1, 2):
                for N in n1:
                    yield {"kind": "gmrf", "iface": iface, "bc": bc, "order": order, "pd": 1, "N": N, "cat": k,
                           "nres": nres}
                for N in n2:
                    yield {"kind": "gmrf", "iface": iface, "bc": bc, "order": order, "pd": 2, "N": N, "cat": k,
                           "nres": nres}
        for case in UNSUPPORTED + (APPROX_ONLY if iface == "exp" else []):
            yield {"kind": "unsup", "iface": iface, "case": case, "cat": k}
        # E1 add-on: ONE sampler object re-targeted between posteriors of different structure (same dimension)
        for n in ((4,) if quick else (3, 4, 6)):
            yield {"kind": "retarget", "iface": iface, "n": n, "cat": k}
    for iface in IFACES:
        for (fam, key) in NAME_FAMS:
            if fam == "lmrf" and iface == "legacy":
                continue                                  # (LMRF, Gamma) is a pair of ConjugateApprox (stateful interface)
            for name in _name_catalogue(fam, key):
                yield {"kind": "name", "iface": iface, "fam": fam, "key": key, "name": name, "cat": k,
                       "dims": list(range(1, 4) if quick else range(1, 6)), "allpriors": not quick}
    for (fam, key) in NEAR_FAMS:
        for form in NEAR_FORMS:
            yield {"kind": "near", "iface": "exp", "fam": fam, "key": key, "form": form, "cat": k, "dexp": NEAR_DEXP[tier]}
    for iface in IFACES:
        for (fam, key) in PROD_FAMS:
            if iface == "legacy" and fam not in ("gauss", "gmrf"):
                continue                                  # Regularized* / LMRF pairs: stateful interface only
            for producer in PR.PRODUCERS:
                yield {"kind": "producer", "iface": iface, "fam": fam, "key": key, "producer": producer, "cat": k,
                       "dims": [3] if quick else [2, 3],
                       "priors": [list(q) for q in (NEAR_PRIORS[1:] if quick else NEAR_PRIORS)]}
    for fam in DIRECT:
        yield {"kind": "direct", "fam": fam, "cat": k, "n": 3 if quick else 5}


# ----------------------------------------------------------------------------------------
# running the real samplers with the Gamma request captured
# ----------------------------------------------------------------------------------------
def _run_conjugate(target, iface, extra=False, variate=None):
    """Returns (captured gamma requests, returned draws).  Library exceptions propagate to the caller.
    variate: when given, the scripted stream behaves like the real generator fed with this standard-gamma variate:
    the answer to gamma(shape, scale) is variate * scale (numpy's own transform), so the VALUE drawn is determined."""
    import cuqi
    cap = []

    def answer(rec, i):
        cap.append(rec)
        if variate is not None:
            sc = np.asarray(rec["scale"], float).ravel()
            if sc.size == 1:
                return float(variate * sc[0])
        return DRAW + 0.5 * i

    s = Stream(gamma=answer)
    outs = []
    with s.installed():
        if iface == "legacy":
            smp = cuqi.sampler.Conjugate(target)
            outs.append(smp.step(None))
            if extra:
                outs.append(smp.step(np.array([3.0])))
        else:
            smp = cuqi.experimental.mcmc.Conjugate(target)
            smp.step()
            outs.append(smp.current_point)
            if extra:
                smp.warmup(1)
                smp.sample(1)
                outs.extend(list(smp._samples))
    others = [r for r in s.log if r["kind"] != "gamma"]
    return cap, outs, others


def _eval_retarget(cell, res):
    """sampler.target = other posterior on a USED sampler object: every later draw is from the new exact conditional."""
    import cuqi
    iface, n, k = cell["iface"], cell["n"], cell["cat"]
    comp = IFACE_NAME[iface]
    mean = refs.dyadic_vec(n, k + 1, scale=0.125)
    data = refs.dyadic_vec(n, k, scale=0.25)
    builders = [("gauss-cov", lambda: _gauss_target("cov=1/s", n, mean, data, 1.0, 1.0)),
                ("gmrf-zero-1", lambda: _gmrf_target("zero", 1, 1, n, mean, data, 1.0, 1.0)),
                ("gauss-prec", lambda: _gauss_target("prec=s", n, 0.5 * mean, 2.0 * data, 3.0, 2.0)),
                ("gmrf-zero-2", lambda: _gmrf_target("zero", 2, 1, n, mean, data, 0.5, 1e-4))]
    import itertools
    for seq in itertools.permutations(range(len(builders)), 3):
        cap = []
        st = Stream(gamma=lambda rec, i: (cap.append(rec), DRAW)[1])
        try:
            targets = [builders[j][1]() for j in seq]
            with st.installed():
                if iface == "legacy":
                    smp = cuqi.sampler.Conjugate(targets[0])
                    smp.step(None)
                    for t in targets[1:]:
                        smp.target = t
                        smp.step(None)
                else:
                    smp = cuqi.experimental.mcmc.Conjugate(targets[0])
                    smp.step()
                    for t in targets[1:]:
                        smp.target = t
                        smp.step()
        except Exception as e:
            res.refused += 1
            res.outcomes.add("retarget-refused:%s" % type(e).__name__)
            continue
        res.transitions += 3
        res.traces += 1
        res.state(tuple(builders[j][0] for j in seq))
        if len(cap) != 3:
            res.fail("C10|%s|retarget|request-count" % comp, "%d Gamma requests for 3 draws" % len(cap))
            continue
        for pos, (j, rec) in enumerate(zip(seq, cap)):
            tl = _target_logd(targets[pos], GRID)
            res.evaluations += 1
            ok, what, info = _judge(rec, tl, GRID, 1e-9)
            if not ok:
                res.fail("C10|%s|retarget|%s" % (comp, what), "after re-targeting one sampler object through %s the draw for %s is "
                         "from Gamma(shape=%r, rate=%r), not proportional to that posterior (log-ratio varies by %s)" % (
                             [builders[q][0] for q in seq[:pos + 1]], builders[j][0], info.get("shape"), info.get("rate"),
                             np.round(info.get("diff", 0), 6)), focus={"sequence": [builders[q][0] for q in seq]})
                break
    res.outcomes.add("retarget:%s:%d" % (iface, n))
    res.sample = {"retarget_sequences": 24, "n": n}
    return res


def _gamma_ref_logpdf(t, shape, scale):
    """Textbook Gamma(shape, rate=1/scale) log-density."""
    rate = 1.0 / scale
    return shape * math.log(rate) + (shape - 1.0) * math.log(t) - rate * t - math.lgamma(shape)


def _target_logd(target, grid):
    vals = []
    for t in grid:
        v = target.logd(np.array([t]))
        vals.append(float(np.asarray(v).ravel()[0]))
    return np.array(vals)


def _judge(cap_rec, tl, grid, tol):
    """Compare one captured request with the target log-density values tl on grid.
    Returns (ok, what, info)."""
    a = np.asarray(cap_rec["shape_param"], float).ravel()
    sc = np.asarray(cap_rec["scale"], float).ravel()
    if a.size != 1 or sc.size != 1 or int(np.prod(cap_rec["shape"])) != 1:
        return False, "non-scalar-request", {"shape": a, "scale": sc}
    a, sc = float(a[0]), float(sc[0])
    if not (a > 0 and sc > 0 and np.isfinite(a) and np.isfinite(sc)):
        return False, "invalid-gamma-parameters", {"shape": a, "scale": sc}
    g = np.array([_gamma_ref_logpdf(t, a, sc) for t in grid])
    d = g - tl
    dc = d - d[2]
    scale = max(1.0, float(np.max(np.abs(g - g[2]))), float(np.max(np.abs(tl - tl[2]))))
    if float(np.max(np.abs(dc))) <= tol * scale:
        return True, "exact", {"shape": a, "rate": 1.0 / sc}
    # classify: mismatch a*log t + b*t + c ?
    G = np.array(grid)
    M = np.stack([np.log(G), G, np.ones_like(G)], axis=1)
    coef, *_ = np.linalg.lstsq(M, d, rcond=None)
    resid = float(np.max(np.abs(M @ coef - d)))
    da, db = float(coef[0]), float(coef[1])
    if resid <= max(tol, 1e-7) * scale:
        sh = abs(da) > 1e-6
        rt = abs(db) * max(G) > max(tol, 1e-7) * scale
        what = "shape+rate" if (sh and rt) else ("shape" if sh else "rate")
    else:
        what = "not-gamma"
    return False, what, {"shape": a, "rate": 1.0 / sc, "shape_excess": da, "rate_deficit": db, "diff": dc,
                         "fit_residual": resid}


# ----------------------------------------------------------------------------------------
# supported pairs
# ----------------------------------------------------------------------------------------
DATA_KINDS = ["data=0", "data=some0", "data=int", "mean=0", "mean=data=0"]
# magnitude of the operands (mean / forward-model output and data) relative to their difference and to 1: every entry
# exactly representable, so the posterior is the same textbook one; only the arithmetic route to it is exercised
#   offset=2^27 : mean and data share the common offset 2^27 (1.3e8), their difference is the generic O(1) dyadic residual
#   offset=-2^40: the same with offset -2^40 (-1.1e12) and the residual of the second catalogue
#   scale=2^30  : generic mean and data multiplied by 2^30 (|r|^2 ~ 2^60; the conditional has its mass near t ~ 2^-60)
#   scale=2^-30 : generic mean and data multiplied by 2^-30 (|r|^2 ~ 2^-60, far below the prior rate)
MAG_KINDS = ["offset=2^27", "offset=-2^40", "scale=2^30", "scale=2^-30"]
MAG_GRID_EXP = {"scale=2^30": -60}      # t-grid multiplied by 2^e: placed where the conditional has its mass
SPECIAL_KINDS = DATA_KINDS + MAG_KINDS
# magnitude of the HYPER-PRIOR crossed with the magnitude of mean / data (all factors exact powers of two):
#   prior Gamma(a, b * 2^e) and Gamma(a * 2^e, b * 2^e), (a, b) = HYPER_BASE, e in HYPER_EXPS; mean and data x 2^ds
HYPER_EXPS = [-70, -30, 0, 30]
HYPER_DSCALE = [-30, 0, 30]
HYPER_BASE = (3.0, 2.0)
HYPER_VARIATE = 0.8125        # the scripted standard-gamma variate: the generator returns variate * scale
_COUNTS = (0, 3, 0, 1, 2, 0, 0, 5, 1, 0, 4, 0)


def _residuals(n, k, nres):
    """(name, mean vector, data vector): generic residuals from the catalogue, a zero residual (data == mean), and the
    data-representation catalogue: all-zero data, data with some exact zeros, integer-dtype counts (with zeros),
    all-zero mean, mean and data both all-zero."""
    out = []
    for j in range(nres):
        m = refs.dyadic_vec(n, k + 2 * j + 1, scale=0.125)
        b = refs.dyadic_vec(n, k + 3 * j, scale=0.25)
        out.append(("generic%d" % j, m, b))
    m = refs.dyadic_vec(n, k + 1, scale=0.125)
    b = refs.dyadic_vec(n, k, scale=0.25)
    out.append(("zero", m, m.copy()))
    out.append(("data=0", m, np.zeros(n)))
    b2 = b.copy()
    b2[0::2] = 0.0
    out.append(("data=some0", m, b2))
    out.append(("data=int", m, np.array([_COUNTS[(i + k) % len(_COUNTS)] for i in range(n)], dtype=np.int64)))
    out.append(("mean=0", np.zeros(n), b))
    out.append(("mean=data=0", np.zeros(n), np.zeros(n)))
    # magnitude facet (appended last: callers that take the leading members are unaffected)
    m8 = refs.dyadic_vec(n, k + 1, scale=0.125)
    r4 = refs.dyadic_vec(n, k, scale=0.25)
    r4b = refs.dyadic_vec(n, k + 2, scale=0.25)
    out.append(("offset=2^27", 2.0 ** 27 + m8, (2.0 ** 27 + m8) + r4))
    out.append(("offset=-2^40", -2.0 ** 40 + m8, (-2.0 ** 40 + m8) + r4b))
    out.append(("scale=2^30", m * 2.0 ** 30, b * 2.0 ** 30))
    out.append(("scale=2^-30", m * 2.0 ** -30, b * 2.0 ** -30))
    return out


def _ref_params(cell, mean, data, a, r):
    """Textbook conjugate update written out densely: Gamma(rank(P1)/2 + a, 0.5 (y-m)^T P1 (y-m) + r) with P1 the
    unit-hyper-parameter precision (identity for a Gaussian, D^T D from the index formulas of vfw.refs for a GMRF)."""
    if cell["kind"] == "gauss":
        n = cell["n"]
        P1 = np.eye(n)
    else:
        D = refs.fd_ref(cell["N"], cell["bc"], cell["order"], cell["pd"])
        P1 = D.T @ D
        n = P1.shape[0]
    rank = int(np.linalg.matrix_rank(P1))
    m = np.asarray(mean, float).ravel()
    if cell["kind"] == "gauss" and cell["par"].endswith(",mean=scalar"):
        m = m[:1]           # the first entry, broadcast over the geometry
    d = np.asarray(data, float).ravel() - m * np.ones(n)
    return rank / 2.0 + a, 0.5 * float(d @ P1 @ d) + r


def _gauss_target(par, n, mean, data, a, b):
    from cuqi.distribution import Gamma, Gaussian, JointDistribution
    s = Gamma(a, b, name="s")
    if par.endswith(",mean=scalar"):
        # a scalar mean broadcast over a geometry of size n (stored with length 1 by the library)
        m0 = float(np.ravel(mean)[0])
        if par.startswith("cov"):
            y = Gaussian(m0, cov=lambda s: 1 / s, geometry=n, name="y")
        else:
            y = Gaussian(m0, prec=lambda s: s, geometry=n, name="y")
        return JointDistribution(s, y)(y=data)
    if par == "cov=1/s":
        y = Gaussian(mean, cov=lambda s: 1 / s, name="y")
    elif par == "cov=1.0/s":
        y = Gaussian(mean, cov=lambda s: 1.0 / s, name="y")
    elif par == "prec=s":
        y = Gaussian(mean, prec=lambda s: s, name="y")
    elif par == "prec=s*ones":
        y = Gaussian(mean, prec=lambda s: s * np.ones(n), name="y")
    else:
        raise ValueError(par)
    return JointDistribution(s, y)(y=data)


def _gmrf_target(bc, order, pd, N, mean, data, a, b):
    import cuqi
    from cuqi.distribution import Gamma, GMRF, JointDistribution
    geom = N if pd == 1 else cuqi.geometry.Image2D((N, N))
    d = Gamma(a, b, name="d")
    x = GMRF(mean, prec=lambda d: d, bc_type=bc, order=order, geometry=geom, name="x")
    return JointDistribution(d, x)(x=data)


def _eval_supported(cell, res):
    iface = cell["iface"]
    if cell["kind"] == "gauss":
        n = cell["n"]
        fam = "Gaussian," + cell["par"].split("=")[0]
        tol = 1e-9
        build = lambda m, b, a, r: _gauss_target(cell["par"], n, m, b, a, r)
    else:
        n = cell["N"] if cell["pd"] == 1 else cell["N"] ** 2
        fam = "GMRF,bc=%s" % cell["bc"]
        tol = 1e-9 if cell["bc"] == "zero" else 1e-5
        build = lambda m, b, a, r: _gmrf_target(cell["bc"], cell["order"], cell["pd"], cell["N"], m, b, a, r)
    comp = IFACE_NAME[iface]
    accepted = judged = 0
    first = True
    _GRID0 = GRID = globals()["GRID"]
    # two objects in one process: a GMRF of the same dimension, order and bc on the OTHER grid layout (1-D with N*N nodes
    # <-> 2-D N x N) is created before the members of this cell are built, and is itself a judged member after them
    other = _other_layout(cell) if cell["kind"] == "gmrf" else None
    if other is not None:
        try:
            _gmrf_target(cell["bc"], cell["order"], other[0], other[1], np.zeros(n), np.zeros(n), 1.0, 1.0)
            res.count("other-layout-decoy-built")
        except Exception as e:
            res.outcomes.add("decoy-refused:" + type(e).__name__)
    generic_failed = set()      # kinds of mismatch already seen with generic data: special data add no new signature
    special_first = {}
    generic_ok = 0
    for rname, mean, data in _residuals(n, cell["cat"], cell["nres"]):
        special = rname in SPECIAL_KINDS
        GRID = [t * 2.0 ** MAG_GRID_EXP[rname] for t in _GRID0] if rname in MAG_GRID_EXP else _GRID0
        for (a, r) in GAMMA_PARAMS:
            res.state("%s|a=%g,r=%g" % (rname, a, r))
            try:
                target = build(mean, data, a, r)
            except Exception as e:   # the library refuses to build this model: nothing to judge
                res.refused += 1
                res.outcomes.add("build-refused:" + type(e).__name__)
                continue
            try:
                tl = _target_logd(target, GRID)
                res.transitions += len(GRID)
            except Exception as e:
                res.outcomes.add("target-logd-raises:" + type(e).__name__)
                continue
            try:
                cap, outs, others = _run_conjugate(target, iface, extra=first)
                res.transitions += len(outs)
            except HarnessError as e:   # a random request that is not a Gamma request: not a draw of a Gamma law
                res.fail("C10|%s|%s|other-randomness" % (comp, fam),
                         "conjugate step issued a random request other than numpy.random.gamma: %s" % e)
                continue
            except Exception as e:   # "when the conjugate sampler accepts a posterior": refusal is allowed
                res.refused += 1
                res.outcomes.add("sampler-refused:" + type(e).__name__)
                if special:
                    res.count("refused:" + rname)
                continue
            first = False
            accepted += 1
            if not np.all(np.isfinite(tl)):
                res.outcomes.add("target-logd-nonfinite")
                res.count("target_logd_nonfinite")
                continue
            if others:
                res.fail("C10|%s|%s|other-randomness" % (comp, fam),
                         "conjugate step issued non-Gamma random requests: %s" % [o["kind"] for o in others])
            if len(cap) != len(outs):
                res.fail("C10|%s|%s|request-count" % (comp, fam),
                         "%d Gamma requests for %d draws" % (len(cap), len(outs)))
                continue
            for i, (rec, out) in enumerate(zip(cap, outs)):
                res.evaluations += 1
                judged += 1
                ok, what, info = _judge(rec, tl, GRID, tol)
                if not ok:
                    if not special:
                        generic_failed.add(what)
                    elif what not in generic_failed and generic_ok:
                        special_first.setdefault(what, rname)   # the first special kind that shows this mismatch
                    # the mean/data kind enters the signature only when generic data were judged and found exact
                    facet = "%s,%s" % (what, special_first[what]) if (special and what in special_first) else what
                    res.fail("C10|%s|%s|%s" % (comp, fam, facet),
                             "distribution drawn from, Gamma(shape=%r, rate=%r), is not proportional to the target's "
                             "own density in the hyper-parameter: log-ratio varies over t=%s by %s "
                             "(prior Gamma(%g,%g), m=%d, mean/data kind=%s, data=%s)" %
                             (info.get("shape"), info.get("rate"), GRID, np.round(info.get("diff", 0), 6), a, r, n,
                              rname, np.asarray(data).tolist()),
                             focus={"draw_index": i, "prior": [a, r], "residual": rname}, **info)
                    break
                if not special:
                    generic_ok += 1
                ov = np.asarray(out, float).ravel()
                if ov.size != 1 or ov[0] != DRAW + 0.5 * i:
                    res.fail("C10|%s|%s|draw-not-returned" % (comp, fam),
                             "the value returned (%r) is not the Gamma draw (%r)" % (out, DRAW + 0.5 * i))
                    break
            else:
                # second, independent oracle (informational: the comparator of the statement is the target's own
                # density): the textbook update Gamma(rank/2 + a, 0.5 r^T P1 r + b) written out densely
                try:
                    sh_ref, rt_ref = _ref_params(cell, mean, data, a, r)
                    sh = float(np.ravel(cap[0]["shape_param"])[0])
                    rt = 1.0 / float(np.ravel(cap[0]["scale"])[0])
                    same = close(sh, sh_ref, rtol=1e-9) and close(rt, rt_ref, rtol=max(tol, 1e-9))
                    res.count("textbook_params_agree" if same else "textbook_params_differ(target-density-not-textbook)")
                except Exception:
                    res.count("textbook_params_unavailable")
            res.outcomes.add("%s:%.6g:%.6g" % (fam, float(np.ravel(cap[0]["shape_param"])[0]),
                                               float(np.ravel(cap[0]["scale"])[0])))
            if res.sample is None:
                res.sample = {"prior": [a, r], "residual": rname, "captured_shape": cap[0]["shape_param"],
                              "captured_scale": cap[0]["scale"], "t_grid": GRID, "target_logd": tl}
    GRID = _GRID0
    judged += _eval_hyper_magnitude(cell, res, build, comp, fam, n, tol)
    if other is not None:
        # ... and the other layout as a member, built AFTER this cell's members (both orders inside one cell)
        mean = refs.dyadic_vec(n, cell["cat"] + 1, scale=0.125)
        data = refs.dyadic_vec(n, cell["cat"], scale=0.25)
        for (a, r) in (GAMMA_PARAMS[0], GAMMA_PARAMS[4], GAMMA_PARAMS[8]):
            res.state("other-layout|a=%g,r=%g" % (a, r))
            try:
                target = _gmrf_target(cell["bc"], cell["order"], other[0], other[1], mean, data, a, r)
                tl = _target_logd(target, GRID)
                res.transitions += len(GRID)
                cap, outs, others = _run_conjugate(target, iface)
                res.transitions += len(outs)
            except HarnessError as e:
                res.fail("C10|%s|%s|other-randomness" % (comp, fam),
                         "conjugate step issued a random request other than numpy.random.gamma: %s" % e)
                continue
            except Exception as e:
                res.refused += 1
                res.outcomes.add("other-layout-refused:" + type(e).__name__)
                continue
            if not np.all(np.isfinite(tl)) or len(cap) != 1:
                res.count("other_layout_unjudged")
                continue
            res.evaluations += 1
            judged += 1
            res.count("other-layout-judged")
            ok, what, info = _judge(cap[0], tl, GRID, tol)
            if not ok:
                res.fail("C10|%s|%s|%s" % (comp, fam, what),
                         "distribution drawn from, Gamma(shape=%r, rate=%r), is not proportional to the target's own density "
                         "in the hyper-parameter: log-ratio varies over t=%s by %s (GMRF on the %d-D layout with %d nodes, "
                         "order %d, built after GMRFs of the same dimension on the %d-D layout; prior Gamma(%g,%g))" %
                         (info.get("shape"), info.get("rate"), GRID, np.round(info.get("diff", 0), 6), other[0], n,
                          cell["order"], cell["pd"], a, r),
                         focus={"prior": [a, r], "layout": "%d-D" % other[0], "after_layout": "%d-D" % cell["pd"]}, **info)
                break
    res.traces += 1
    res.count("accepted", accepted)
    res.count("judged", judged)
    if judged == 0:
        res.nontrivial = False
    return res


def _hyper_members():
    a0, b0 = HYPER_BASE
    for e in HYPER_EXPS:
        for which in (("rate",) if e == 0 else ("rate", "shape+rate")):
            a = a0 * 2.0 ** e if which == "shape+rate" else a0
            yield "%s x 2^%d" % (which, e), a, b0 * 2.0 ** e


def _eval_hyper_magnitude(cell, res, build, comp, fam, n, tol):
    """Hyper-prior magnitude x data magnitude.  Two oracles per member: (1) the captured request against the target's own
    density on the standard grid in units of c = 2^round(log2(E t)) (c from the densely written textbook update; an exact
    change of units: Gamma(t; shape, scale) in u = t/c is Gamma(u; shape, scale/c)); (2) the VALUE returned, with the
    scripted stream answering like the real generator (variate * requested scale), against variate / textbook rate."""
    iface = cell["iface"]
    grid = globals()["GRID"]
    judged = 0
    m0 = refs.dyadic_vec(n, cell["cat"] + 1, scale=0.125)
    b0 = refs.dyadic_vec(n, cell["cat"], scale=0.25)
    done = set()
    textbook = cell["kind"] == "gauss" or cell["bc"] == "zero"      # proper models: the dense textbook rate is the comparator
    for ds in HYPER_DSCALE:
        mean, data = m0 * 2.0 ** ds, b0 * 2.0 ** ds
        for pname, a, r in _hyper_members():
            res.state("prior-magnitude|%s|data x 2^%d" % (pname, ds))
            where = "prior Gamma(%r, %r) (%s), mean and data x 2^%d, m=%d" % (a, r, pname, ds, n)
            focus = {"prior": [a, r], "prior_magnitude": pname, "data_scale_exp": ds}
            try:
                target = build(mean, data, a, r)
            except Exception as e:
                res.refused += 1
                res.outcomes.add("build-refused:" + type(e).__name__)
                continue
            try:
                sh_ref, rt_ref = _ref_params(cell, mean, data, a, r)
                c = 2.0 ** round(math.log2(sh_ref / rt_ref))
                tl = _target_logd(target, [u * c for u in grid])
                res.transitions += len(grid)
            except Exception as e:
                res.outcomes.add("target-logd-raises:" + type(e).__name__)
                continue
            try:
                cap, outs, others = _run_conjugate(target, iface, variate=HYPER_VARIATE)
                res.transitions += len(outs)
            except HarnessError as e:
                res.fail("C10|%s|%s|other-randomness" % (comp, fam),
                         "conjugate step issued a random request other than numpy.random.gamma: %s" % e)
                continue
            except Exception as e:      # "when the conjugate sampler accepts a posterior": refusal is allowed
                res.refused += 1
                res.outcomes.add("sampler-refused:" + type(e).__name__)
                res.count("refused:prior-magnitude")
                continue
            if others or len(cap) != 1 or len(outs) != 1:
                if "req" not in done:
                    done.add("req")
                    res.fail("C10|%s|%s|request-count,prior-magnitude" % (comp, fam),
                             "%d Gamma requests, %d other random requests for %d draws (%s)" %
                             (len(cap), len(others), len(outs), where), focus=focus)
                continue
            rec = cap[0]
            res.evaluations += 1
            judged += 1
            res.count("prior-magnitude-judged")
            if np.all(np.isfinite(tl)):
                unit = dict(rec)
                unit["scale"] = np.asarray(rec["scale"], float) / c
                ok, what, info = _judge(unit, tl, grid, tol)
                if not ok and what not in done:
                    done.add(what)
                    res.fail("C10|%s|%s|%s,prior-magnitude" % (comp, fam, what),
                             "distribution drawn from, Gamma(shape=%r, rate=%r), is not proportional to the target's own "
                             "density in the hyper-parameter: with t = u * 2^%d (captured rate in these units %r) the log-ratio "
                             "varies over u=%s by %s (%s; textbook update Gamma(%r, %r))" %
                             (info.get("shape"), 1.0 / float(np.ravel(rec["scale"])[0]) if np.size(rec["scale"]) == 1 else None,
                              round(math.log2(c)), info.get("rate"), grid, np.round(info.get("diff", 0), 6), where,
                              sh_ref, rt_ref), focus=focus, **info)
            else:
                res.count("target_logd_nonfinite")
            ov = np.asarray(outs[0], float).ravel()
            if textbook:
                rate_want, src = rt_ref, "the exact conditional Gamma(%r, rate %r)" % (sh_ref, rt_ref)
            elif np.all(np.isfinite(tl)):
                # improper GMRFs (neumann / periodic bc): the library's regularised factor is part of the target's own
                # density, so the comparator is the rate OF target.logd: least-squares fit of a log u - rate u + const
                U = np.array(grid)
                coef, *_ = np.linalg.lstsq(np.stack([np.log(U), U, np.ones_like(U)], axis=1), tl, rcond=None)
                rate_want = -float(coef[1]) / c
                src = "the target's own density along the hyper-parameter has the rate %r (fitted on the grid)" % rate_want
                if not rate_want > 0:
                    res.count("prior-magnitude-value-unjudged")
                    continue
            else:
                res.count("prior-magnitude-value-unjudged")
                continue
            want = HYPER_VARIATE / rate_want
            if ov.size != 1 or not (np.isfinite(ov[0]) and abs(ov[0] - want) <= max(tol, 1e-9) * abs(want)):
                if "value" not in done:
                    done.add("value")
                    res.fail("C10|%s|%s|value-drawn,prior-magnitude" % (comp, fam),
                             "with the generator scripted to behave like numpy's (standard-gamma variate %r times the requested "
                             "scale) the value returned is %r; %s, which transforms this variate "
                             "to %r (requested scale %r) (%s)" %
                             (HYPER_VARIATE, ov.tolist(), src, want, np.ravel(rec["scale"]).tolist(), where),
                             focus=focus, got=ov, want=want)
    return judged


def _other_layout(cell):
    """(pd, N) of the grid with the same number of nodes on the other layout: 2-D N x N <-> 1-D with N*N nodes."""
    if cell["pd"] == 2:
        return (1, cell["N"] ** 2)
    m = int(round(math.sqrt(cell["N"])))
    return (2, m) if (m >= 2 and m * m == cell["N"]) else None


# ----------------------------------------------------------------------------------------
# the refusal alphabet: unsupported structures through every acceptance route
# ----------------------------------------------------------------------------------------
def _unsupported_parts(case, n, k, a, b):
    """(hyper-prior s, likelihood distribution y, data) of one member of the refusal alphabet."""
    from cuqi.distribution import Gamma, Gaussian, GMRF, LMRF, Uniform, Lognormal
    mean = refs.dyadic_vec(n, k + 1, scale=0.125)
    data = refs.dyadic_vec(n, k, scale=0.25)
    s = Gamma(a, b, name="s")
    if case == "cov=s":
        y = Gaussian(mean, cov=lambda s: s, name="y")
    elif case == "cov=1/s**2":
        y = Gaussian(mean, cov=lambda s: 1 / s ** 2, name="y")
    elif case == "prec=s**2":
        y = Gaussian(mean, prec=lambda s: s ** 2, name="y")
    elif case == "prec=2*s":
        y = Gaussian(mean, prec=lambda s: 2 * s, name="y")
    elif case == "prec=s+1":
        y = Gaussian(mean, prec=lambda s: s + 1, name="y")
    elif case == "sqrtprec=sqrt(s)":
        y = Gaussian(mean, sqrtprec=lambda s: np.sqrt(s) * np.eye(n), name="y")
    elif case == "sqrtcov=1/sqrt(s)":
        y = Gaussian(mean, sqrtcov=lambda s: np.eye(n) / np.sqrt(s), name="y")
    elif case == "cov=C/s":
        C = refs.spd_matrix(n, k)
        y = Gaussian(mean, cov=lambda s: C / s, name="y")
    elif case == "cov=1/s+1":
        y = Gaussian(mean, cov=lambda s: 1 / s + 1, name="y")
    # -- several occurrences: in the mean AND in the (otherwise supported) covariance / precision / factor
    elif case == "mean-and-cov":
        y = Gaussian(lambda s: s * mean, cov=lambda s: 1 / s, geometry=n, name="y")
    elif case == "mean-and-prec":
        y = Gaussian(lambda s: s * mean, prec=lambda s: s, geometry=n, name="y")
    elif case == "mean(sqrt)-and-cov":
        y = Gaussian(lambda s: np.sqrt(s) * mean, cov=lambda s: 1 / s, geometry=n, name="y")
    elif case == "mean(1/s)-and-prec":
        y = Gaussian(lambda s: mean / s, prec=lambda s: s, geometry=n, name="y")
    elif case == "mean-and-sqrtprec":
        y = Gaussian(lambda s: s * mean, sqrtprec=lambda s: np.sqrt(s) * np.eye(n), geometry=n, name="y")
    elif case == "mean-and-sqrtcov":
        y = Gaussian(lambda s: s * mean, sqrtcov=lambda s: np.eye(n) / np.sqrt(s), geometry=n, name="y")
    elif case == "gmrf-mean-and-prec":
        y = GMRF(lambda s: s * mean, prec=lambda s: s, bc_type="zero", order=1, geometry=n, name="y")
    elif case == "gmrf-mean(sqrt)-and-prec":
        y = GMRF(lambda s: np.sqrt(s) * mean, prec=lambda s: s, bc_type="zero", order=2, geometry=n, name="y")
    elif case == "gmrf-periodic-mean-and-prec":
        y = GMRF(lambda s: s * mean, prec=lambda s: s, bc_type="periodic", order=1, geometry=n, name="y")
    elif case == "lmrf-location-and-scale":
        y = LMRF(lambda s: s * (mean - np.mean(mean)), scale=lambda s: 1 / s, geometry=n, name="y")
    elif case == "mean-only":
        y = Gaussian(lambda s: s * mean, cov=0.5, geometry=n, name="y")
    elif case == "gamma-2dim":
        s = Gamma(np.array([a, a + 1.0]), np.array([b, b + 0.5]), name="s")
        y = Gaussian(np.zeros(2) + mean[:2], prec=lambda s: s, name="y")
        data = data[:2]
    elif case == "gamma-2dim-by-geometry":
        s = Gamma(a, b, geometry=2, name="s")      # scalar shape/rate, dimension 2 through the geometry
        y = Gaussian(np.zeros(2) + mean[:2], cov=lambda s: 1 / s, name="y")
        data = data[:2]
    elif case == "prior-uniform":
        s = Uniform(0.05, 40.0, name="s")
        y = Gaussian(mean, cov=lambda s: 1 / s, name="y")
    elif case == "prior-lognormal":
        s = Lognormal(0.25, 0.5, name="s")
        y = Gaussian(mean, prec=lambda s: s, name="y")
    elif case == "prec=min(s,1000)":
        y = Gaussian(mean, prec=lambda s: np.minimum(s, 1000.0), name="y")
    elif case == "cov=1/min(s,1000)":
        y = Gaussian(mean, cov=lambda s: 1.0 / min(float(np.ravel(s)[0]), 1000.0), name="y")
    elif case == "gmrf-prec=d**2":
        y = GMRF(mean, prec=lambda s: s ** 2, bc_type="zero", order=1, geometry=n, name="y")
    elif case == "gmrf-prec=1/d":
        y = GMRF(mean, prec=lambda s: 1 / s, bc_type="zero", order=1, geometry=n, name="y")
    elif case == "gmrf-prec=2*d":
        y = GMRF(mean, prec=lambda s: 2 * s, bc_type="zero", order=1, geometry=n, name="y")
    # -- supported controls (anti-vacuity of the routes; never judged as refusals)
    elif case == "control:Conjugate":
        y = Gaussian(mean, cov=lambda s: 1 / s, name="y")
    elif case == "control:ConjugateApprox":
        y = LMRF(0, scale=lambda s: 1 / s, geometry=n, name="y")
    else:
        raise ValueError(case)
    return s, y, data


def _parts(case, n, k, a, b):
    """A member of the refusal alphabet is a name (fixed catalogue) or a dict (near-miss family, see _near_parts)."""
    if isinstance(case, dict):
        if "fun" in case:
            return _prod_parts(case, n, k, a, b)
        return _near_parts(case, n, k, a, b)
    return _unsupported_parts(case, n, k, a, b)


def _unsupported_target(case, n, k, a, b):
    from cuqi.distribution import JointDistribution
    s, y, data = _parts(case, n, k, a, b)
    return JointDistribution(s, y)(y=data)


def _exp_class(case):
    import cuqi
    return cuqi.experimental.mcmc.ConjugateApprox if case in APPROX_ONLY else cuqi.experimental.mcmc.Conjugate


def _route_accept(route, cls, case, n, k, a, b):
    """Offer the posterior to the sampler of the stateful interface through one acceptance route.
    Returns the sampler object that now holds the target (True for a mere listing); library exceptions = refusal."""
    import cuqi
    from cuqi.distribution import Gaussian, JointDistribution
    if route == "ctor":
        return cls(_unsupported_target(case, n, k, a, b))
    if route == "setter":
        smp = cls()
        smp.target = _unsupported_target(case, n, k, a, b)
        return smp
    if route == "setter-used":
        # one live sampler object that has already drawn for a supported posterior (what HybridGibbs does every sweep)
        nn = 2 if (isinstance(case, str) and case.startswith("gamma-2dim")) else n
        smp = cls(_unsupported_target("control:" + cls.__name__, nn, k, a, b))
        with Stream(gamma=lambda rec, i: DRAW).installed():
            smp.step()
        smp.target = _unsupported_target(case, n, k, a, b)
        return smp
    if route == "hybridgibbs":
        s, y, data = _parts(case, n, k, a, b)
        m = len(data)
        if isinstance(case, dict) and case["fam"].startswith("reg-"):
            # an implicit (regularized) Gaussian is sampled by RegularizedLinearRTO, which wants a linear forward model
            z = Gaussian(cuqi.model.LinearModel(np.eye(m)) @ y, 1.0, name="z")
            ysampler = cuqi.experimental.mcmc.RegularizedLinearRTO()
        else:
            z = Gaussian(lambda y: y, 1.0, geometry=m, name="z")
            ysampler = cuqi.experimental.mcmc.MH()
        joint = JointDistribution(s, y, z)(z=refs.dyadic_vec(m, k + 2, scale=0.25))
        hg = cuqi.experimental.mcmc.HybridGibbs(joint, {"y": ysampler, "s": cls()})
        return hg.samplers["s"]
    if route == "find_valid_samplers":
        listed = cuqi.experimental.mcmc.find_valid_samplers(_unsupported_target(case, n, k, a, b))
        if cls.__name__ not in listed:
            raise ValueError("not listed by find_valid_samplers: %s" % listed)
        return True
    raise ValueError(route)


def _unsup_signature(comp, case, iface):
    # legacy: one root cause (no structural validation at all), recorded per unsupported dependence
    # new interface: one signature per unsupported dependence that slips through; the clipped dependences share
    # theirs (they coincide with the identity / reciprocal at the three points the validation probes)
    return "C10|%s|accepts-unsupported|%s" % (comp, "agrees-at-probe-points" if ("min(" in case and iface != "legacy") else case)


def _judge_accepted(res, comp, case, iface, cap, target, grid, where, focus, sig=None, verdict=True):
    """An unsupported structure was accepted and a draw was made: it must then be exact.
    verdict=False: the comparison is made and its result returned, nothing is reported."""
    if len(cap) != 1:
        res.outcomes.add("accepted-without-gamma-request")
        res.fail("C10|%s|unsupported|%s,no-gamma-request" % (comp, case),
                 "unsupported structure accepted (%s) and sampled without a Gamma request" % where)
        return None
    try:
        tl = _target_logd(target, grid)
        res.transitions += len(grid)
    except Exception as e:
        res.outcomes.add("accepted-unjudgeable:" + type(e).__name__)
        return None
    if not np.all(np.isfinite(tl)):
        res.outcomes.add("accepted-unjudgeable:nonfinite")
        return None
    res.evaluations += 1
    ok, what, info = _judge(cap[0], tl, grid, 1e-9)
    res.outcomes.add("accepted-" + ("exact" if ok else "inexact:" + what))
    if not ok and verdict:
        res.fail(sig or _unsup_signature(comp, case, iface),
                 "unsupported dependence %r accepted (%s) and sampled approximately: drew Gamma(shape=%r, "
                 "rate=%r) but log-ratio to the target's own density varies over t=%s by %s" %
                 (case, where, info.get("shape"), info.get("rate"), grid, np.round(info.get("diff", 0), 6)),
                 focus=focus, **info)
    if res.sample is None:
        res.sample = {"case": case, "accepted": True, "route": where, "exact": ok,
                      "captured_shape": cap[0]["shape_param"], "captured_scale": cap[0]["scale"]}
    return ok


def _eval_unsupported(cell, res):
    if cell["iface"] == "exp":
        return _eval_unsupported_exp(cell, res)
    iface, case, k = cell["iface"], cell["case"], cell["cat"]
    comp = IFACE_NAME[iface]
    grid = GRID_EXT if "min(" in case else GRID
    for n in (2, 3):
        for (a, b) in [(0.5, 1e-4), (1.0, 1.0), (3.0, 2.0)]:
            res.state("n=%d,a=%g,b=%g" % (n, a, b))
            try:
                target = _unsupported_target(case, n, k, a, b)
            except Exception as e:
                res.refused += 1
                res.outcomes.add("build-refused:" + type(e).__name__)
                continue
            try:
                cap, outs, others = _run_conjugate(target, iface)
                res.transitions += 1
            except Exception as e:
                res.refused += 1
                res.transitions += 1
                res.outcomes.add("rejected:" + type(e).__name__)
                continue
            # accepted: it must then be exact
            if case.startswith("gamma-2dim"):
                # the statement names the non-scalar Gamma explicitly: it must be rejected, whatever is then drawn
                res.outcomes.add("accepted-nonscalar-gamma")
                res.fail("C10|%s|accepts-unsupported|%s" % (comp, case), "a posterior whose Gamma-distributed hyper-parameter has "
                         "dimension 2 was accepted (step returned %r)" % (outs[:1],), focus={"case": case, "n": n, "prior": [a, b]})
                continue
            _judge_accepted(res, comp, case, iface, cap, target, grid, "constructor+step",
                            {"case": case, "n": n, "prior": [a, b]})
    res.traces += 1
    if res.sample is None:
        res.sample = {"case": case, "accepted": False, "outcomes": sorted(res.outcomes)}
    return res


def _eval_unsupported_exp(cell, res):
    """Stateful interface: every acceptance route x (n, prior).  Structures the statement names as rejected (several
    occurrences, non-scalar Gamma) must be refused BY THE ROUTE; other unsupported dependences: refused by the route,
    or refused by the first step, or sampled exactly."""
    iface, case, k = cell["iface"], cell["case"], cell["cat"]
    cls = _exp_class(case)
    comp = "cuqi.experimental.mcmc." + cls.__name__
    grid = GRID_EXT if "min(" in case else GRID
    must_reject = case in SEVERAL or case in APPROX_ONLY or case.startswith("gamma-2dim")
    # anti-vacuity: every route does accept the supported control of this sampler class
    live_routes = 0
    for route in ROUTES:
        try:
            _route_accept(route, cls, "control:" + cls.__name__, 3, k, 1.0, 1.0)
            res.count("control-accepted@" + route)
            live_routes += 1
        except Exception as e:
            res.count("control-refused@" + route)
            res.outcomes.add("control-refused@%s:%s" % (route, type(e).__name__))
        res.transitions += 1
    for n in (2, 3):
        for (a, b) in [(0.5, 1e-4), (1.0, 1.0), (3.0, 2.0)]:
            for route in ROUTES:
                res.state("n=%d,a=%g,b=%g,%s" % (n, a, b, route))
                focus = {"case": case, "n": n, "prior": [a, b], "route": route}
                res.transitions += 1
                try:
                    smp = _route_accept(route, cls, case, n, k, a, b)
                except Exception as e:
                    res.refused += 1
                    res.outcomes.add("rejected@%s:%s" % (route, type(e).__name__))
                    continue
                if must_reject:
                    res.outcomes.add("accepted@%s" % route)
                    if case.startswith("gamma-2dim"):
                        res.fail("C10|%s|accepts-unsupported|%s" % (comp, case), "a posterior whose Gamma-distributed "
                                 "hyper-parameter has dimension 2 was accepted (route: %s)" % route, focus=focus)
                    else:
                        res.fail("C10|%s|accepts-several-occurrences|route=%s" % (comp, route),
                                 "a posterior whose likelihood depends on the hyper-parameter in several of its parameters "
                                 "(%s) was accepted instead of refused (route: %s)" % (case, route), focus=focus)
                    continue
                if smp is True:        # listing only; exactness is judged on the constructor route
                    res.outcomes.add("listed")
                    continue
                cap = []
                st = Stream(gamma=lambda rec, i: (cap.append(rec), DRAW)[1])
                try:
                    with st.installed():
                        smp.step()
                    res.transitions += 1
                except HarnessError as e:
                    res.fail("C10|%s|unsupported|%s,other-randomness" % (comp, case),
                             "unsupported structure accepted (%s) and sampled with a non-Gamma random request: %s" % (route, e),
                             focus=focus)
                    continue
                except Exception as e:
                    res.refused += 1
                    res.outcomes.add("rejected-at-step@%s:%s" % (route, type(e).__name__))
                    continue
                _judge_accepted(res, comp, case, iface, cap, smp.target, grid, route, focus)
    res.traces += 1
    res.count("live_routes", live_routes)
    if live_routes == 0:
        res.nontrivial = False
    if res.sample is None:
        res.sample = {"case": case, "accepted": False, "routes": ROUTES, "outcomes": sorted(res.outcomes)}
    return res


# ----------------------------------------------------------------------------------------
# near-miss dependences: the supported form perturbed by delta (stateful interface, every acceptance route)
# ----------------------------------------------------------------------------------------
def _near_fun(key, form, d):
    """The dependence of the likelihood parameter `key` on the hyper-parameter s: the supported form (d == 0: reciprocal
    for cov / scale, identity for prec) or one of four perturbations of size d, written the way a user would write them
    (division / regularisation guard, gain, noise floor, exponent)."""
    recip = key in ("cov", "scale")
    if d == 0:
        return (lambda s: 1 / s) if recip else (lambda s: s)
    if recip:
        return {"shift": lambda s: 1 / (s + d), "gain": lambda s: (1 + d) / s,
                "floor": lambda s: 1 / s + d, "power": lambda s: 1 / s ** (1 + d)}[form]
    return {"shift": lambda s: s + d, "gain": lambda s: s * (1 + d),
            "floor": lambda s: s / (1 + d * s), "power": lambda s: s ** (1 + d)}[form]


def _near_delta(spec):
    return 0.0 if spec.get("dexp") is None else spec["sign"] * 2.0 ** (-spec["dexp"])


def _near_mean_data(spec, n, k):
    mean = refs.dyadic_vec(n, k + 1, scale=0.125)
    data = (2.0 ** spec.get("scale", 0)) * refs.dyadic_vec(n, k, scale=0.25)      # raw, un-normalised data for scale > 0
    return mean, data


def _near_parts(spec, n, k, a, b):
    """(hyper-prior, likelihood distribution, data) of one near-miss member {fam, key, form, sign, dexp, scale}."""
    from cuqi.distribution import Gamma, Gaussian, GMRF, LMRF
    from cuqi.implicitprior import RegularizedGaussian, RegularizedGMRF
    fam, key = spec["fam"], spec["key"]
    f = _near_fun(key, spec["form"], _near_delta(spec))
    mean, data = _near_mean_data(spec, n, k)
    s = Gamma(a, b, name="s")
    if fam == "gauss":
        y = Gaussian(mean, name="y", **{key: f})
    elif fam == "gmrf":
        y = GMRF(mean, prec=f, bc_type="zero", order=1, geometry=n, name="y")
    elif fam == "reg-gauss":
        y = RegularizedGaussian(mean, constraint="nonnegativity", name="y", **{key: f})
    elif fam == "reg-gmrf":
        y = RegularizedGMRF(mean, prec=f, bc_type="zero", order=1, constraint="nonnegativity", name="y")
    elif fam == "lmrf":
        y = LMRF(0, scale=f, geometry=n, name="y")
    else:
        raise ValueError(fam)
    return s, y, data


def _eval_near(cell, res):
    """One (documented pair, parameter, perturbation form): sign x delta x data scale x prior x acceptance route.
    Oracle: the route refuses; or - pairs sampled exactly by design - the captured Gamma is exact for the target's own
    density on a t-grid placed where the conditional has its mass; pairs that are approximate by design cannot be
    judged by their draws, for them acceptance of a decidedly different dependence is the violation."""
    import cuqi
    fam, key, form, k = cell["fam"], cell["key"], cell["form"], cell["cat"]
    cls = cuqi.experimental.mcmc.ConjugateApprox if fam == "lmrf" else cuqi.experimental.mcmc.Conjugate
    comp = "cuqi.experimental.mcmc." + cls.__name__
    exact_pair = fam in ("gauss", "gmrf")
    label = "%s~%s" % (key, "1/s" if key in ("cov", "scale") else "s")
    if fam != "lmrf":
        label += ",pair=%s" % ("exact" if exact_pair else "regularized")
    sig = "C10|%s|accepts-near-miss|%s" % (comp, label)
    n = 3
    base = {"fam": fam, "key": key, "form": form}
    # anti-vacuity: every route accepts the supported twin (delta = 0) of this pair and parameter
    live_routes = 0
    for route in ROUTES:
        try:
            _route_accept(route, cls, dict(base, sign=1, dexp=None, scale=0), n, k, 1.0, 1.0)
            res.count("control-accepted@" + route)
            live_routes += 1
        except Exception as e:
            res.count("control-refused@" + route)
            res.outcomes.add("control-refused@%s:%s" % (route, type(e).__name__))
        res.transitions += 1
    g = _near_fun(key, form, 0.0)
    for sign in (1, -1):
        for dexp in cell["dexp"]:
            f = _near_fun(key, form, sign * 2.0 ** (-dexp))
            # independent of the library: is this dependence another function than the supported one on the t-grid?
            dev = max(abs(f(t) - g(t)) / abs(g(t)) for t in GRID)
            decided = dev > NEAR_DECIDED
            res.count("decided" if decided else "undecided(below-resolution)")
            for scale in NEAR_SCALES:
                for (a, b) in NEAR_PRIORS:
                    spec = dict(base, sign=sign, dexp=dexp, scale=scale)
                    for route in ROUTES:
                        res.state("%+d*2^-%d,x2^%d,a=%g,b=%g,%s" % (sign, dexp, scale, a, b, route))
                        focus = dict(spec, prior=[a, b], route=route, max_rel_deviation_on_grid=dev)
                        res.transitions += 1
                        try:
                            smp = _route_accept(route, cls, spec, n, k, a, b)
                        except Exception as e:
                            res.refused += 1
                            res.outcomes.add("rejected@%s:%s" % (route, type(e).__name__))
                            continue
                        res.outcomes.add("accepted@%s:2^-%d" % (route, dexp))
                        if not decided:
                            res.count("undecided-accepted")
                        if not exact_pair:
                            if decided:
                                res.fail(sig, "%s=%s with delta=%+g (differs from the supported form by %.3g relative on "
                                         "t=%s) was accepted (route: %s) by a sampler that is approximate by design: "
                                         "not rejected, and sampled as if delta were 0" %
                                         (key, NEAR_TEXT[(key in ("cov", "scale"), form)], sign * 2.0 ** (-dexp), dev, GRID, route),
                                         focus=focus)
                            continue
                        if smp is True:        # listing only; exactness is judged on the constructor route
                            res.outcomes.add("listed")
                            continue
                        cap = []
                        st = Stream(gamma=lambda rec, i: (cap.append(rec), DRAW)[1])
                        try:
                            with st.installed():
                                smp.step()
                            res.transitions += 1
                        except HarnessError as e:
                            res.fail("C10|%s|unsupported|%s,other-randomness" % (comp, label),
                                     "near-miss dependence accepted (%s) and sampled with a non-Gamma random request: %s" % (route, e),
                                     focus=focus)
                            continue
                        except Exception as e:
                            res.refused += 1
                            res.outcomes.add("rejected-at-step@%s:%s" % (route, type(e).__name__))
                            continue
                        # t-grid where the conditional lives: standard grid for normalised data, rescaled for raw data
                        mean, data = _near_mean_data(spec, n, k)
                        if scale:
                            t0 = 2.0 ** round(math.log2(1.0 / (0.5 * float(np.sum((data - mean) ** 2)) + b)))
                            grid = [t * t0 for t in GRID]
                        else:
                            grid = GRID
                        ok = _judge_accepted(res, comp, "%s=%s" % (key, NEAR_TEXT[(key in ("cov", "scale"), form)]), "exp", cap,
                                             smp.target, grid, "route %s, delta=%+g, data x 2^%d" % (route, sign * 2.0 ** (-dexp), scale),
                                             focus, sig=sig, verdict=decided)
                        if not decided and ok is not None:
                            res.count("undecided-accepted-" + ("exact" if ok else "inexact"))
                            if not ok:
                                # indistinguishable from the supported form on the standard grid (and hence at any finite
                                # probe tolerance there), materially different where raw data put the conditional: this IS
                                # the recorded probe-only validation, reported under its signature and no other
                                res.fail("C10|%s|accepts-unsupported|agrees-at-probe-points" % comp,
                                         "%s=%s with delta=%+g agrees with the supported form to %.3g relative on t=%s, was accepted "
                                         "(route: %s), and with raw data (x 2^%d) the Gamma drawn is not proportional to the "
                                         "target's own density on t=%s" % (key, NEAR_TEXT[(key in ("cov", "scale"), form)],
                                                                          sign * 2.0 ** (-dexp), dev, GRID, route, scale,
                                                                          [float("%.3g" % t) for t in grid]), focus=focus)
    res.traces += 1
    res.count("live_routes", live_routes)
    if live_routes == 0:
        res.nontrivial = False
    if res.sample is None:
        res.sample = {"near_miss": base, "accepted": False, "routes": ROUTES, "outcomes": sorted(res.outcomes)}
    return res


# ----------------------------------------------------------------------------------------
# HOW the callable was produced  x  what the process has seen before (history)
# ----------------------------------------------------------------------------------------
def _prod_parts(spec, n, k, a, b):
    """(hyper-prior, likelihood distribution, data) of a member given as a live callable spec["fun"]."""
    from cuqi.distribution import Gamma, Gaussian, GMRF, LMRF
    from cuqi.implicitprior import RegularizedGaussian
    fam, key, f = spec["fam"], spec["key"], spec["fun"]
    mean = refs.dyadic_vec(n, k + 1, scale=0.125)
    data = refs.dyadic_vec(n, k, scale=0.25)
    s = Gamma(a, b, name="s")
    if fam == "gauss":
        y = Gaussian(mean, name="y", **{key: f})
    elif fam == "gmrf":
        y = GMRF(mean, prec=f, bc_type="zero", order=1, geometry=n, name="y")
    elif fam == "reg-gauss":
        y = RegularizedGaussian(mean, constraint="nonnegativity", name="y", **{key: f})
    elif fam == "lmrf":
        y = LMRF(0, scale=f, geometry=n, name="y")
    else:
        raise ValueError(fam)
    return s, y, data


def _prod_offer(iface, cls, route, spec, n, k, a, b):
    """Offer one posterior through one acceptance route and, when a sampler object then holds it, make one step.
    Returns (verdict, captured Gamma requests, target): verdict in {refused, refused-at-step, listed, accepted,
    other-randomness}."""
    if iface == "legacy":
        try:
            target = _unsupported_target(spec, n, k, a, b)
            cap, outs, others = _run_conjugate(target, "legacy")
        except HarnessError as e:
            return "other-randomness", str(e), None
        except Exception as e:
            return "refused", type(e).__name__, None
        return "accepted", cap, target
    try:
        smp = _route_accept(route, cls, spec, n, k, a, b)
    except Exception as e:
        return "refused", type(e).__name__, None
    if smp is True:
        return "listed", None, None
    cap = []
    st = Stream(gamma=lambda rec, i: (cap.append(rec), DRAW)[1])
    try:
        with st.installed():
            smp.step()
    except HarnessError as e:
        return "other-randomness", str(e), None
    except Exception as e:
        return "refused-at-step", type(e).__name__, None
    return "accepted", cap, smp.target


def _prod_key(out):
    """What of an offer's outcome must not depend on the history: refused / listed / accepted with these Gamma parameters."""
    verdict, cap, _ = out
    if verdict in ("refused", "refused-at-step"):
        return ("refused",)
    if verdict == "accepted":
        return ("accepted",) + tuple((float(np.ravel(r["shape_param"])[0]), float(np.ravel(r["scale"])[0])) for r in cap)
    return (verdict,)


def _prod_same(u, v):
    if u[0] != v[0] or len(u) != len(v):
        return False
    return all(close(x[0], y[0], rtol=1e-12) and close(x[1], y[1], rtol=1e-12) for x, y in zip(u[1:], v[1:]))


def _eval_producer(cell, res):
    """One (interface, documented pair, parameter, way the callable was produced): dimension x prior x acceptance route x
    history x member {supported, 3 unsupported siblings}.  Histories: fresh (a family of callables never shown to the
    library in this process); the unsupported member offered AFTER its supported sibling - same general function /
    factory / class - was accepted and drawn for by another sampler; the supported member offered AFTER its unsupported
    sibling was offered (refused).  Oracles: the statement's (supported and accepted: captured Gamma exact; unsupported:
    refused, or exact, or - approximate pairs - not accepted) in every history, and: the verdict (refused / listed /
    accepted with these Gamma parameters) of a member through a route is the same in every history."""
    import cuqi
    iface, fam, key, producer, k = cell["iface"], cell["fam"], cell["key"], cell["producer"], cell["cat"]
    recip = key in ("cov", "scale")
    if iface == "legacy":
        cls, comp, routes = None, IFACE_NAME["legacy"], ["ctor+step"]
    else:
        cls = cuqi.experimental.mcmc.ConjugateApprox if fam == "lmrf" else cuqi.experimental.mcmc.Conjugate
        comp, routes = "cuqi.experimental.mcmc." + cls.__name__, ROUTES
    exact_pair = fam in ("gauss", "gmrf")
    sup_text = "%s=%s" % (key, "1/s" if recip else "s")
    members = [(sup_text, PR.SUPPORTED, True)] + [(nm, tuple(float(v) for v in cpe), False) for nm, cpe in PROD_SIBLINGS[(fam, key)]]
    gsup = PR.reference(recip, *PR.SUPPORTED)
    cid = "%s|%s|%s|%s" % (iface, fam, key, producer)
    sup_accepted = 0

    def make(family, cpe):
        f = family.member(*cpe)
        g = PR.reference(recip, *cpe)
        for t in GRID:                    # the callable handed to the library IS the intended member of the family
            if not close(float(f(t)), float(g(t)), rtol=1e-12):
                raise HarnessError("producer %s built another function than c,p,e=%r" % (producer, cpe))
        return f

    def judge(out, mname, supported, hist, route, focus, level):
        """The statement's oracle for one offer.  Returns True when a failure was reported.
        level: which facet discriminates a failure - "generic": the written-out lambda in a fresh history fails as well
        (the signature is the one of the refusal cells / names the route only), "producer": this producer's fresh history
        fails, "history": only this history fails."""
        verdict, cap, target = out
        facet = {"generic": None, "producer": "produced-by=%s" % producer,
                 "history": "produced-by=%s,history=%s" % (producer, hist)}[level]
        where = "route %s, %s, history %s" % (route, PR.PRODUCER_TEXT.get(focus.get("produced_by"), "written-out lambda (control)"), hist)
        if verdict == "other-randomness":
            res.fail("C10|%s|callable-form|other-randomness" % comp, "%s offered (%s): a random request other than "
                     "numpy.random.gamma was issued: %s" % (mname, where, cap), focus=focus)
            return True
        if verdict in ("refused", "refused-at-step"):
            res.refused += 1
            return False
        if supported:
            if verdict != "accepted" or not exact_pair:
                return False
            sig = "C10|%s|supported-inexact|%s" % (comp, facet or "route=" + route)
        else:
            dev = max(abs(PR.reference(recip, *cpe_of[mname])(t) - gsup(t)) / abs(gsup(t)) for t in GRID)
            if dev <= NEAR_DECIDED:
                return False
            if iface == "legacy" or facet is None:
                sig = _unsup_signature(comp, mname, iface)     # (stateless interface: no structural validation at all)
            else:
                sig = "C10|%s|accepts-unsupported|%s" % (comp, facet)
            if not exact_pair:
                res.fail(sig, "%s (differs from the supported form by %.3g relative on t=%s) was accepted (%s) by a sampler "
                         "that is approximate by design: not rejected, and sampled as if it were %s" %
                         (mname, dev, GRID, where, sup_text), focus=focus)
                return True
            if verdict != "accepted":      # listing only: exactness is judged on the other routes
                return False
        if not supported:
            ok = _judge_accepted(res, comp, mname, iface, cap, target, GRID, where, focus, sig=sig)
            return ok is False or (ok is None and len(cap) != 1)
        if len(cap) != 1:
            res.fail("C10|%s|callable-form|request-count" % comp, "%s accepted (%s): %d Gamma requests for one draw" %
                     (mname, where, len(cap)), focus=focus)
            return True
        try:
            tl = _target_logd(target, GRID)
            res.transitions += len(GRID)
        except Exception as e:
            res.outcomes.add("supported-unjudgeable:" + type(e).__name__)
            return False
        if not np.all(np.isfinite(tl)):
            res.outcomes.add("supported-unjudgeable:nonfinite")
            return False
        res.evaluations += 1
        ok, what, info = _judge(cap[0], tl, GRID, 1e-9)
        if not ok:
            res.fail(sig, "%s (%s) accepted (%s): the distribution drawn from, Gamma(shape=%r, rate=%r), is not proportional to "
                     "the target's own density: log-ratio varies over t=%s by %s [%s]" % (
                         mname, PR.PRODUCER_TEXT[producer], where, info.get("shape"), info.get("rate"), GRID,
                         np.round(info.get("diff", 0), 6), what), focus=focus, **info)
        return not ok

    cpe_of = {nm: cpe for nm, cpe, _ in members}
    o1_fired = set()
    names = [nm for nm, _, _ in members]
    # every family of callables of the whole check gets its own source location (slot)
    cell_ord = (IFACES.index(iface) * len(PROD_FAMS) + PROD_FAMS.index((fam, key))) * len(PR.PRODUCERS) + PR.PRODUCERS.index(producer)
    prior_ord = {(float(q[0]), float(q[1])): i for i, q in enumerate(NEAR_PRIORS)}
    for n in cell["dims"]:
        for (a, b) in cell["priors"]:
            for route in routes:
                fresh, fresh_failed, control_failed = {}, {}, {}
                base = "%s|n=%d|a=%g,b=%g|%s" % (cid, n, a, b, route)
                if producer != "lambda":
                    # control: the same members as written-out lambdas in a fresh history - what fails there as well is no
                    # matter of the producer and is reported under the signature the refusal cells use
                    for mname, cpe, supported in members:
                        slot = cell_ord
                        for idx, size in ((n, 8), (prior_ord[(float(a), float(b))], len(NEAR_PRIORS)),
                                          (routes.index(route), len(ROUTES)), (3, 4), (names.index(mname), 4),
                                          (names.index(mname), 4)):
                            slot = slot * size + idx
                        family = PR.Family("lambda", recip, slot, "%s|control|%s" % (base, mname))
                        out = _prod_offer(iface, cls, route, {"fam": fam, "key": key, "fun": make(family, cpe)}, n, k, a, b)
                        res.transitions += 1
                        control_failed[mname] = judge(out, mname, supported, "fresh", route,
                                                      {"member": mname, "c,p,e": list(cpe), "produced_by": "lambda (control)",
                                                       "route": route, "n": n, "prior": [a, b]}, "generic")
                for hist in PROD_HISTORIES:
                    for mname, cpe, supported in members:
                        if hist == "fresh":
                            todo = [(mname, cpe, supported, None)]
                        elif hist == "after-accepted-sibling":   # unsupported member after its supported sibling
                            todo = [] if supported else [(mname, cpe, False, members[0])]
                        else:                                    # supported member after each unsupported sibling
                            todo = [(members[0][0], members[0][1], True, (mname, cpe, False))] if not supported else []
                        for (mn, mc, msup, before) in todo:
                            slot = cell_ord
                            for idx, size in ((n, 8), (prior_ord[(float(a), float(b))], len(NEAR_PRIORS)),
                                              (routes.index(route), len(ROUTES)), (PROD_HISTORIES.index(hist), 4),
                                              (names.index(mname), 4), (names.index(mn), 4)):
                                slot = slot * size + idx
                            family = PR.Family(producer, recip, slot, "%s|%s|%s|%s" % (base, hist, mname, mn))
                            focus = {"member": mn, "c,p,e": list(mc), "produced_by": producer, "history": hist,
                                     "route": route, "n": n, "prior": [a, b]}
                            if before is not None:
                                pre = _prod_offer(iface, cls, "ctor", {"fam": fam, "key": key, "fun": make(family, before[1])},
                                                  n, k, a, b)
                                res.transitions += 1
                                realised = (pre[0] == "accepted") if before[2] else (pre[0] in ("refused", "refused-at-step"))
                                res.count("%s:%s" % (hist, "realised" if realised else "sibling-" + pre[0]))
                                focus["sibling_before"] = {"member": before[0], "c,p,e": list(before[1]), "verdict": pre[0]}
                            res.state("n=%d,a=%g,b=%g,%s,%s,%s,%s" % (n, a, b, route, hist, mname, mn))
                            out = _prod_offer(iface, cls, route, {"fam": fam, "key": key, "fun": make(family, mc)}, n, k, a, b)
                            res.transitions += 1
                            res.outcomes.add("%s:%s@%s:%s" % (hist, mn, route, out[0]))
                            if hist == "fresh":
                                fresh[mn] = _prod_key(out)
                                fresh_failed[mn] = judge(out, mn, msup, hist, route, focus,
                                                         "generic" if (producer == "lambda" or control_failed.get(mn)) else "producer")
                                if msup and out[0] in ("accepted", "listed"):
                                    sup_accepted += 1
                                if msup and out[0] == "accepted" and res.sample is None:
                                    res.sample = dict(focus, captured_shape=out[1][0]["shape_param"] if out[1] else None,
                                                      captured_scale=out[1][0]["scale"] if out[1] else None)
                                continue
                            failed = judge(out, mn, msup, hist, route, focus,
                                           "generic" if (control_failed.get(mn) or (producer == "lambda" and fresh_failed.get(mn)))
                                           else ("producer" if fresh_failed.get(mn) else "history"))
                            res.evaluations += 1
                            if failed:
                                o1_fired.add((mn, hist))    # (one defect, one signature: the other routes add nothing)
                            if (mn, hist) not in o1_fired and not _prod_same(_prod_key(out), fresh[mn]):
                                res.fail("C10|%s|verdict-depends-on-history|produced-by=%s,history=%s" % (comp, producer, hist),
                                         "%s (%s) offered through %s: %s in a fresh history, but %s after its sibling %s from "
                                         "the same %s had been %s" % (
                                             mn, PR.PRODUCER_TEXT[producer], route, fresh[mn], _prod_key(out), before[0],
                                             {"lambda": "script", "def": "script", "partial": "general function",
                                              "factory": "factory", "method": "class", "callable": "class"}[producer],
                                             focus["sibling_before"]["verdict"]), focus=focus)
    res.traces += 1
    res.count("supported-accepted", sup_accepted)
    if sup_accepted == 0:
        res.nontrivial = False
    return res


# ----------------------------------------------------------------------------------------
# the NAME of the hyper-parameter: same documented model, every relation of the name to the likelihood's parameters
# ----------------------------------------------------------------------------------------
def _name_catalogue(fam, key):
    """Names of the hyper-parameter, by their relation to the likelihood it enters: generic ("s", "d"), the OWN name of the
    parameter it enters through (cov=lambda cov: 1/cov), a name that merely contains that name, the name of every OTHER
    documented parameter of the same likelihood, names sorting before / after every other variable of the joint."""
    return ["s", "d", key, key + "2"] + [p for p in NAME_PARAMS[fam] if p != key] + ["a", "z"]


def _name_relation(fam, key, name):
    if name == key:
        return "own-parameter"
    if name in NAME_LOCATION:
        return "location-parameter"
    if name in NAME_PARAMS[fam]:
        return "other-dispersion-parameter"
    if name.startswith(key):
        return "contains-own-parameter"
    if name in ("a", "z"):
        return "alphabetical-extreme"
    return "generic"


def _named_fun(name, body, n):
    """lambda <name>: <body> - written the way a user writes it; the argument name is the hyper-parameter's name."""
    return eval("lambda %s: %s" % (name, body.replace("X", name)), {"np": np, "n": n})


def _name_target(fam, key, name, build, n, order, mean, data, a, r):
    """The documented model  h ~ Gamma(a, r),  likelihood(location = mean, dispersion parameter `key` = documented function
    of h)  with the hyper-parameter called `name`, assembled the way `build` says, conditioned on the data."""
    from cuqi.distribution import Gamma, Gaussian, GMRF, LMRF, JointDistribution, Posterior
    f = _named_fun(name, NAME_BODY[key], n)
    h = Gamma(a, r, name=name)
    lik = NAME_LIKNAME[fam]
    joint3 = build == "joint(w,h,y)"
    loc = (lambda w: w) if joint3 else mean
    if fam == "gauss":
        y = Gaussian(loc, name=lik, **dict({key: f}, **({"geometry": n} if joint3 else {})))
    elif fam == "gmrf":
        y = GMRF(loc, prec=f, bc_type="zero", order=order, geometry=n, name=lik)
    elif fam == "lmrf":
        y = LMRF(0, scale=f, geometry=n, name=lik)        # the pair is documented for zero location only
    else:
        raise ValueError(fam)
    if build == "joint(h,y)":
        return JointDistribution(h, y)(**{lik: data})
    if build == "joint(y,h)":
        return JointDistribution(y, h)(**{lik: data})
    if build == "posterior(lik,h)":
        return Posterior(y.to_likelihood(data), h)
    w = Gaussian(np.zeros(n), 1.0, name="w")              # a third variable of the joint, named between the others
    return JointDistribution(w, h, y)(**{lik: data, "w": mean})


def _name_ref_logd(fam, order, n, mean, data, a, r, grid, location_is_t=False):
    """Independent reference: log of the DOCUMENTED posterior density in the hyper-parameter t (up to a constant),
    written out densely:  Gaussian  N(data; mean, t^-1 I),  GMRF(zero bc)  N(data; mean, (t D'D)^-1),
    LMRF  prod Laplace((D data)_i; 0, 1/t),  times Gamma(t; a, r).
    location_is_t: the other reading of a hyper-parameter that is named like the location parameter - every entry of
    the location takes the hyper-parameter's value."""
    out = []
    for t in grid:
        m = t * np.ones(n) if location_is_t else np.asarray(mean, float)
        d = np.asarray(data, float) - m
        if fam == "gauss":
            ll = 0.5 * n * math.log(t) - 0.5 * t * float(d @ d)
        elif fam == "gmrf":
            D = refs.fd_ref(n, "zero", order, 1)
            q = D @ d
            ll = 0.5 * int(np.linalg.matrix_rank(D.T @ D)) * math.log(t) - 0.5 * t * float(q @ q)
        else:
            D = refs.fd_ref(n, "zero", 1, 1)
            ll = D.shape[0] * math.log(t) - t * float(np.sum(np.abs(D @ d)))
        out.append(ll + (a - 1.0) * math.log(t) - r * t)
    return np.array(out)


def _same_up_to_constant(u, v, tol):
    d = u - v
    dc = d - d[2]
    scale = max(1.0, float(np.max(np.abs(u - u[2]))), float(np.max(np.abs(v - v[2]))))
    return float(np.max(np.abs(dc))) <= tol * scale, dc


def _eval_name(cell, res):
    """One (interface, pair family, entering parameter, NAME of the hyper-parameter): dimensions x (GMRF order) x way the
    posterior is assembled x prior x residual kind.  Two oracles per sub-case:
    target-density - target.logd on the t-grid equals (up to a constant) the documented posterior density written
                     densely by the check;
    hyper-name     - if the sampler accepts, the captured Gamma request is exact for the target's own density."""
    import cuqi
    iface, fam, key, name, k = cell["iface"], cell["fam"], cell["key"], cell["name"], cell["cat"]
    rel = _name_relation(fam, key, name)
    exact_pair = fam in ("gauss", "gmrf")
    if fam == "lmrf":
        comp = "cuqi.experimental.mcmc.ConjugateApprox"
    else:
        comp = IFACE_NAME[iface]
    sig_s = "C10|%s|hyper-name|name=%s" % (comp, rel)
    sig_t = "C10|cuqi.distribution.%s|target-density|name=%s" % (NAME_CLASS[fam], rel)
    orders = (1, 2) if fam == "gmrf" else (None,)
    builds = [b for b in NAME_BUILDS if not (fam == "lmrf" and b == "joint(w,h,y)")]
    priors = GAMMA_PARAMS if cell["allpriors"] else NAME_PRIORS
    tjudged = sjudged = accepted = 0
    first = True
    for n in cell["dims"]:
        if n < 2 and fam != "gauss":
            continue
        resid = _residuals(n, k, 1)[:2]                     # a generic residual and the zero residual (data == mean)
        if fam == "lmrf":
            resid = [(rn, np.zeros(n), (b if rn != "zero" else np.zeros(n))) for rn, m, b in resid]
        for order in orders:
            for build in builds:
                for (a, r) in priors:
                    for rname, mean, data in resid:
                        res.state("n=%d,order=%s,%s,a=%g,r=%g,%s" % (n, order, build, a, r, rname))
                        focus = {"name": name, "relation": rel, "enters": "%s=lambda %s: %s" % (
                            key, name, NAME_BODY[key].replace("X", name)), "n": n, "order": order, "build": build,
                                 "prior": [a, r], "residual": rname}
                        try:
                            target = _name_target(fam, key, name, build, n, order, mean, data, a, r)
                            res.transitions += 1
                        except Exception as e:      # the library refuses to build this model: nothing to judge
                            res.refused += 1
                            res.outcomes.add("build-refused:%s" % type(e).__name__)
                            continue
                        tl = None
                        try:
                            tl = _target_logd(target, GRID)
                            res.transitions += len(GRID)
                        except Exception as e:
                            res.outcomes.add("target-logd-raises:%s" % type(e).__name__)
                            res.count("target_logd_raises")
                        if tl is not None and not np.all(np.isfinite(tl)):
                            res.outcomes.add("target-logd-nonfinite")
                            res.count("target_logd_nonfinite")
                            tl = None
                        # ---- oracle 1: the target's density is the documented one
                        several = False
                        if tl is not None:
                            res.evaluations += 1
                            tjudged += 1
                            ref = _name_ref_logd(fam, order, n, mean, data, a, r, GRID)
                            ok, dc = _same_up_to_constant(tl, ref, 1e-9)
                            if not ok and rel == "location-parameter":
                                # ambiguous model text (the location was given a value AND the hyper-parameter carries its
                                # name): the reading "the location takes the hyper-parameter's value" is accepted as well
                                ref2 = _name_ref_logd(fam, order, n, mean, data, a, r, GRID, location_is_t=True)
                                ok, _ = _same_up_to_constant(tl, ref2, 1e-9)
                                if ok:
                                    several = True      # ... but then the hyper-parameter occurs in location AND dispersion
                                    res.count("target-density:location-takes-the-hyper-parameter-value")
                            if ok:
                                res.count("target_density_documented")
                            else:
                                res.fail(sig_t, "the posterior's density in the hyper-parameter is not the documented one: %s ~ "
                                         "Gamma(%g, %g), %s(%s, %s=lambda %s: %s), n=%d%s, assembled as %s: target.logd - "
                                         "log(documented density) varies over t=%s by %s" % (
                                             name, a, r, NAME_CLASS[fam], "location" if fam == "lmrf" else "mean", key, name,
                                             NAME_BODY[key].replace("X", name), n,
                                             "" if order is None else ", order %d" % order, build, GRID, np.round(dc, 6)),
                                         focus=focus)
                        # ---- oracle 2: what the sampler draws from is exact for the target's own density
                        cap = []
                        try:
                            if fam == "lmrf":
                                st = Stream(gamma=lambda rec, i: (cap.append(rec), DRAW)[1])
                                with st.installed():
                                    smp = cuqi.experimental.mcmc.ConjugateApprox(target)
                                    smp.step()
                                outs, others = [smp.current_point], [q for q in st.log if q["kind"] != "gamma"]
                            else:
                                cap, outs, others = _run_conjugate(target, iface, extra=first)
                            res.transitions += len(outs)
                        except HarnessError as e:
                            res.fail("C10|%s|hyper-name|other-randomness" % comp,
                                     "conjugate step issued a random request other than numpy.random.gamma: %s" % e, focus=focus)
                            continue
                        except Exception as e:      # "when the conjugate sampler accepts a posterior": refusal is allowed
                            res.refused += 1
                            res.outcomes.add("sampler-refused:%s" % type(e).__name__)
                            continue
                        first = False
                        accepted += 1
                        if several:
                            res.count("accepted-with-hyper-parameter-in-location-and-dispersion")
                        if not exact_pair:
                            # approximate by design: the draw cannot be judged; accepting a posterior whose own density has
                            # the hyper-parameter in location and dispersion is what the statement excludes
                            if several:
                                res.fail(sig_s, "a posterior whose own density depends on the hyper-parameter %r through the "
                                         "location and through %s (target.logd agrees with that reading, not with the "
                                         "fixed-location one) was accepted instead of refused" % (name, key), focus=focus)
                            res.outcomes.add("%s:accepted:%.6g" % (fam, float(np.ravel(cap[0]["shape_param"])[0]) if cap else -1))
                            continue
                        if tl is None:
                            res.count("accepted-unjudgeable")
                            continue
                        if others:
                            res.fail("C10|%s|hyper-name|other-randomness" % comp,
                                     "conjugate step issued non-Gamma random requests: %s" % [o["kind"] for o in others], focus=focus)
                        if len(cap) != len(outs) or not cap:
                            res.fail("C10|%s|hyper-name|request-count" % comp,
                                     "%d Gamma requests for %d draws" % (len(cap), len(outs)), focus=focus)
                            continue
                        for i, (rec, out) in enumerate(zip(cap, outs)):
                            res.evaluations += 1
                            sjudged += 1
                            ok, what, info = _judge(rec, tl, GRID, 1e-9)
                            if not ok:
                                res.fail(sig_s, "hyper-parameter named %r (%s of %s, entering through %s=lambda %s: %s; n=%d%s, "
                                         "%s, prior Gamma(%g,%g), residual %s): the distribution drawn from, Gamma(shape=%r, "
                                         "rate=%r), is not proportional to the target's own density: log-ratio varies over "
                                         "t=%s by %s [%s]" % (
                                             name, rel, NAME_CLASS[fam], key, name, NAME_BODY[key].replace("X", name), n,
                                             "" if order is None else ", order %d" % order, build, a, r, rname,
                                             info.get("shape"), info.get("rate"), GRID, np.round(info.get("diff", 0), 6), what),
                                         focus=dict(focus, draw_index=i), **info)
                                break
                            ov = np.asarray(out, float).ravel()
                            if ov.size != 1 or ov[0] != DRAW + 0.5 * i:
                                res.fail("C10|%s|hyper-name|draw-not-returned" % comp,
                                         "the value returned (%r) is not the Gamma draw (%r)" % (out, DRAW + 0.5 * i), focus=focus)
                                break
                        res.outcomes.add("%s,%s:%.6g:%.6g" % (fam, key, float(np.ravel(cap[0]["shape_param"])[0]),
                                                              float(np.ravel(cap[0]["scale"])[0])))
                        if res.sample is None:
                            res.sample = dict(focus, captured_shape=cap[0]["shape_param"], captured_scale=cap[0]["scale"],
                                              t_grid=GRID, target_logd=tl, documented_logd=ref)
    res.traces += 1
    res.count("name-accepted", accepted)
    res.count("name-judged", sjudged)
    res.count("target-density-judged", tjudged)
    if tjudged == 0 and sjudged == 0:
        res.nontrivial = False
    return res


# ----------------------------------------------------------------------------------------
# Direct
# ----------------------------------------------------------------------------------------
def _direct_target(fam, n, k):
    from cuqi.distribution import Gaussian, GMRF, Gamma, Laplace, Normal, Lognormal, Uniform
    m = refs.dyadic_vec(n, k + 1)
    if fam == "gauss-scalar-cov":
        return Gaussian(m, 0.5)
    if fam == "gauss-full-cov":
        return Gaussian(m, refs.spd_matrix(n, k))
    if fam == "gauss-prec":
        return Gaussian(m, prec=refs.spd_matrix(n, k + 1))
    if fam == "gauss-sqrtcov":
        return Gaussian(m, sqrtcov=refs.full_matrix(n, n, k))
    if fam == "gauss-sqrtprec":
        return Gaussian(m, sqrtprec=refs.full_matrix(n, n, k + 1))
    if fam == "gmrf-zero":
        return GMRF(m, 2.0, bc_type="zero", order=1, geometry=n)
    if fam == "gamma":
        return Gamma(2.0, 3.0)
    if fam == "gamma-vector":
        return Gamma(np.arange(1, n + 1) * 0.5, np.arange(1, n + 1) * 1.0)
    if fam == "laplace":
        return Laplace(m, 0.5)
    if fam == "normal":
        return Normal(m, 0.5)
    if fam == "lognormal":
        return Lognormal(m, 0.5)
    if fam == "uniform-1d":
        return Uniform(0.5, 2.5)
    raise ValueError(fam)


def _script():
    def gam(rec, i):
        nn = int(np.prod(rec["shape"])) if rec["shape"] else 1
        return 0.5 + 0.25 * i + 0.125 * np.arange(nn)

    def lap(rec, i):
        nn = int(np.prod(rec["shape"])) if rec["shape"] else 1
        return refs.dyadic_vec(nn, i + 1)
    return Stream(normal=lambda nn, i: refs.dyadic_vec(nn, i), gamma=gam, laplace=lap,
                  uniform=[0.3, 0.6, 0.9, 0.1, 0.2, 0.7, 0.4, 0.8])


def _logsig(log):
    out = []
    for r in log:
        item = [r["kind"], list(r.get("shape", []))]
        for key in ("loc", "scale", "shape_param", "low", "high"):
            if key in r:
                item.append([key, np.round(np.asarray(r[key], float).ravel(), 12).tolist()])
        out.append(item)
    return out


def _eval_direct(cell, res):
    import cuqi
    fam, n, k = cell["fam"], cell["n"], cell["cat"]
    try:
        target = _direct_target(fam, n, k)
    except Exception as e:
        res.refused += 1
        res.nontrivial = False
        res.outcomes.add("build-refused:" + type(e).__name__)
        res.transitions += 1
        return res
    # reference: the target's own sampling method, 3 consecutive draws on one stream
    s_ref = _script()
    with s_ref.installed():
        ref = [np.asarray(target.sample(), float).ravel().copy() for _ in range(3)]
    res.transitions += 3
    # constructing the sampler draws once (validate_target) - own stream
    s0 = _script()
    try:
        with s0.installed():
            smp = cuqi.experimental.mcmc.Direct(target)
    except Exception as e:
        res.refused += 1
        res.outcomes.add("direct-refused:" + type(e).__name__)
        res.nontrivial = False
        return res
    for mode in ("step", "warmup+sample"):
        res.state(mode)
        s1 = _script()
        with s1.installed():
            if mode == "step":
                got = []
                for _ in range(3):
                    smp.step()
                    got.append(np.asarray(smp.current_point, float).ravel().copy())
            else:
                smp2 = cuqi.experimental.mcmc.Direct(target, initial_point=np.ones(target.dim))
        if mode != "step":
            s1 = _script()
            with s1.installed():
                smp2.warmup(1)
                smp2.sample(2)
            got = [np.asarray(x, float).ravel() for x in smp2._samples]
        res.transitions += 3
        res.evaluations += 1
        if _logsig(s1.log) != _logsig(s_ref.log):
            res.fail("C10|cuqi.experimental.mcmc.Direct|%s|requests" % mode,
                     "Direct issues other random requests than target.sample(): %s vs %s" %
                     (_logsig(s1.log)[:3], _logsig(s_ref.log)[:3]), focus={"family": fam})
        elif len(got) != 3 or any(g.shape != r.shape or not np.array_equal(g, r) for g, r in zip(got, ref)):
            res.fail("C10|cuqi.experimental.mcmc.Direct|%s|value" % mode,
                     "Direct draws differ from target.sample() under the same stream: %s vs %s" % (got, ref),
                     focus={"family": fam})
        res.outcomes.add("%s:%s:%s" % (fam, mode, np.round(got[0][:2], 6).tolist()))
    res.traces += 1
    res.sample = {"family": fam, "direct_draws": got, "target_sample_draws": ref, "requests": _logsig(s_ref.log)}
    return res


# ----------------------------------------------------------------------------------------
class _Res(CellResult):
    """One failure per signature per cell (sub-cases of a cell share the root cause; keeps replays stable)."""

    def fail(self, signature, message, focus=None, **detail):
        if any(f["signature"] == signature for f in self.failures):
            self.count("repeat:" + signature)
            return
        super().fail(signature, message, focus=focus, **detail)


def eval_cell(cell):
    res = _Res(cell)
    if cell["kind"] in ("gauss", "gmrf"):
        return _eval_supported(cell, res)
    if cell["kind"] == "unsup":
        return _eval_unsupported(cell, res)
    if cell["kind"] == "retarget":
        return _eval_retarget(cell, res)
    if cell["kind"] == "near":
        return _eval_near(cell, res)
    if cell["kind"] == "name":
        return _eval_name(cell, res)
    if cell["kind"] == "producer":
        return _eval_producer(cell, res)
    return _eval_direct(cell, res)
