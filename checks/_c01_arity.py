"""C01 helper: the facet "ARITY of the hyper-parameter callable" over hierarchical model graphs.

The statement quantifies over "hyper-parameters entering through callables" and over "all orders and groupings of the
conditioning calls".  A callable of r hyper-parameters is bound step by step when its arguments are fixed in separate
conditioning calls: the number of PARTIAL bindings a history can make of one callable is r-1, so the catalogue graphs
(r <= 2: at most one partial binding, the next call completes it) never reach a state in which an already partially
bound callable is partially bound AGAIN.  Here r = 3 (quick) and r = 3, 4 (thorough), with the complete set of ordered
set partitions of the variables as histories, so that every sequence of partial bindings of every callable is replayed.

Facets (all graphs explored exactly like a catalogue graph against the harness' own scipy reference):
  template  N   y ~ N(m0, A=f(a,b,c))               a,b,c ~ Gamma                    r-ary callable in a noise attribute
            M   x ~ N(mean=f(a,b,c)*1, cx)          a ~ N, b ~ Laplace, c ~ Gamma    r-ary callable as mean
            O   x ~ N(mean=f(a,b)*1, cov=g(b,c))    a ~ N, b,c ~ Gamma               two callables with OVERLAPPING arguments
            X   w ~ Cauchy(location=f(z,a,b), s)    z ~ Laplace, a ~ Gamma, b ~ Beta the variable's parent and hyper-parameters
                                                                                   in one callable
            L   y ~ N(Ax, cov=f(a,b,c)), x ~ N(m0, cx), a,b,c ~ Gamma   5 variables: the callable lives in the factor that
                                                                        becomes the Likelihood / the Posterior's likelihood
            F   y ~ N(m0, prec=f(a,b,c,d)), a..d ~ Gamma                5 variables, arity 4 (thorough)
  entered attribute (template N): Gaussian.cov (quick) + Gaussian.prec, Gaussian.sqrtcov (thorough)
  order of the callable's arguments relative to the factor order of the joint: same / reversed
  (quick: one order per template, alternating; thorough: both)

Every map is non-symmetric in its arguments (different weights), so a value bound to the wrong argument or a lost
binding changes the number.  The library sees the source text with the chosen argument order, the reference uses the
harness' own python function of the named values.
"""
import math
import numpy as np
from vfw import refs
from checks import _graphs as GR
from checks._c01_names import _fn

ONES3 = "np.ones(3)"


def _order(args, rev):
    return list(reversed(args)) if rev else list(args)


class Arity(GR.Graph):
    template = "?"
    arity = 3

    def __init__(self, kind=None, rev=False):
        self.kind = kind
        self.rev = bool(rev)
        self.setup()
        self.gid = "A%s[%s|r=%d,args=%s]" % (self.template, kind or "-", self.arity, "reversed" if rev else "same")


# noise attribute kinds of template N / F: (constructor keyword, covariance from the attribute value)
NOISE = {"Gaussian.cov": ("cov", lambda p: p), "Gaussian.prec": ("prec", lambda p: 1.0 / p),
         "Gaussian.sqrtcov": ("sqrtcov", lambda p: p ** 2)}


class AN(Arity):
    template = "N"

    def setup(self):
        self.title = "y~N(m0, %s=lambda a,b,c: a+2b+c/2), a,b,c~Gamma" % NOISE[self.kind][0]
        self.free = ["y", "a", "b", "c"]
        self.dims = {"y": 2, "a": 1, "b": 1, "c": 1}
        self.parents = {"y": ["a", "b", "c"], "a": [], "b": [], "c": []}

    def par(self, k):
        return dict(m0=refs.dyadic_vec(2, k + 3, scale=0.25), ga=([2.0, 1.5, 3.0][k], [3.0, 2.0, 1.0][k]),
                    gb=([1.5, 2.5, 2.0][k], [2.0, 0.5, 1.5][k]), gc=([3.0, 2.0, 1.5][k], [1.0, 1.5, 0.5][k]))

    @staticmethod
    def fun(a, b, c):
        return a + 2.0 * b + 0.5 * c

    def build(self, k):
        import cuqi
        D = cuqi.distribution
        p = self.par(k)
        f = {}
        _c = _fn(_order(["a", "b", "c"], self.rev), "a + 2.0 * b + 0.5 * c")
        f["y"] = D.Gaussian(**{"mean": p["m0"].copy(), NOISE[self.kind][0]: _c, "name": "y"})
        f["a"] = D.Gamma(p["ga"][0], p["ga"][1], name="a")
        f["b"] = D.Gamma(p["gb"][0], p["gb"][1], name="b")
        f["c"] = D.Gamma(p["gc"][0], p["gc"][1], name="c")
        return GR.Bundle(D.JointDistribution(f["y"], f["a"], f["b"], f["c"]), f)

    def values(self, k):
        return {"y": refs.dyadic_vec(2, k + 6), "a": GR.H3[0][k], "b": GR.H3[1][k], "c": GR.H3[2][k]}

    def ref_factors(self, k, v):
        p = self.par(k)
        cov = NOISE[self.kind][1](self.fun(float(v["a"]), float(v["b"]), float(v["c"])))
        return {"y": GR.lg_gauss(v["y"], p["m0"], cov), "a": GR.lg_gamma(v["a"], *p["ga"]),
                "b": GR.lg_gamma(v["b"], *p["gb"]), "c": GR.lg_gamma(v["c"], *p["gc"])}


class AM(Arity):
    template = "M"

    def setup(self):
        self.title = "x~N(mean=lambda a,b,c: (a-b/2+2c)*1, cx), a~N, b~Laplace, c~Gamma"
        self.free = ["x", "a", "b", "c"]
        self.dims = {"x": 3, "a": 1, "b": 1, "c": 1}
        self.parents = {"x": ["a", "b", "c"], "a": [], "b": [], "c": []}

    def par(self, k):
        return dict(cx=[0.5, 1.25, 0.75][k], na=([0.5, -0.25, 1.0][k], [2.0, 0.5, 1.5][k]),
                    lb=([0.25, 0.5, -0.5][k], [1.5, 0.5, 2.0][k]), gc=([2.0, 3.0, 1.5][k], [1.0, 2.0, 0.5][k]))

    def build(self, k):
        import cuqi
        D = cuqi.distribution
        p = self.par(k)
        f = {}
        _c = _fn(_order(["a", "b", "c"], self.rev), "(a - 0.5 * b + 2.0 * c) * " + ONES3)
        f["x"] = D.Gaussian(mean=_c, cov=p["cx"], geometry=3, name="x")
        f["a"] = D.Gaussian(mean=p["na"][0], cov=p["na"][1], name="a")
        f["b"] = D.Laplace(p["lb"][0], p["lb"][1], geometry=1, name="b")
        f["c"] = D.Gamma(p["gc"][0], p["gc"][1], name="c")
        return GR.Bundle(D.JointDistribution(f["x"], f["a"], f["b"], f["c"]), f)

    def values(self, k):
        return {"x": refs.dyadic_vec(3, k + 5), "a": [0.75, -0.5, 0.25][k], "b": [-0.375, 0.875, 0.125][k], "c": GR.H3[1][k]}

    def ref_factors(self, k, v):
        p = self.par(k)
        m = (float(v["a"]) - 0.5 * float(v["b"]) + 2.0 * float(v["c"])) * np.ones(3)
        return {"x": GR.lg_gauss(v["x"], m, p["cx"]), "a": GR.lg_gauss(v["a"], p["na"][0], p["na"][1]),
                "b": GR.lg_laplace(v["b"], p["lb"][0], p["lb"][1]), "c": GR.lg_gamma(v["c"], *p["gc"])}


class AO(Arity):
    template = "O"
    arity = 2

    def setup(self):
        self.title = "x~N(mean=lambda a,b: (a+2b)*1, cov=lambda b,c: b+c/2), a~N, b,c~Gamma (overlapping arguments)"
        self.free = ["x", "a", "b", "c"]
        self.dims = {"x": 3, "a": 1, "b": 1, "c": 1}
        self.parents = {"x": ["a", "b", "c"], "a": [], "b": [], "c": []}

    def par(self, k):
        return dict(na=([0.5, -0.25, 1.0][k], [2.0, 0.5, 1.5][k]), gb=([1.5, 2.5, 2.0][k], [2.0, 0.5, 1.5][k]),
                    gc=([3.0, 2.0, 1.5][k], [1.0, 1.5, 0.5][k]))

    def build(self, k):
        import cuqi
        D = cuqi.distribution
        p = self.par(k)
        f = {}
        _m = _fn(_order(["a", "b"], self.rev), "(a + 2.0 * b) * " + ONES3)
        _c = _fn(_order(["b", "c"], self.rev), "b + 0.5 * c")
        f["x"] = D.Gaussian(mean=_m, cov=_c, geometry=3, name="x")
        f["a"] = D.Gaussian(mean=p["na"][0], cov=p["na"][1], name="a")
        f["b"] = D.Gamma(p["gb"][0], p["gb"][1], name="b")
        f["c"] = D.Gamma(p["gc"][0], p["gc"][1], name="c")
        return GR.Bundle(D.JointDistribution(f["x"], f["a"], f["b"], f["c"]), f)

    def values(self, k):
        return {"x": refs.dyadic_vec(3, k + 7), "a": [0.75, -0.5, 0.25][k], "b": GR.H3[2][k], "c": GR.H3[0][k]}

    def ref_factors(self, k, v):
        p = self.par(k)
        a, b, c = float(v["a"]), float(v["b"]), float(v["c"])
        return {"x": GR.lg_gauss(v["x"], (a + 2.0 * b) * np.ones(3), b + 0.5 * c),
                "a": GR.lg_gauss(v["a"], p["na"][0], p["na"][1]),
                "b": GR.lg_gamma(v["b"], *p["gb"]), "c": GR.lg_gamma(v["c"], *p["gc"])}


class AX(Arity):
    template = "X"

    def setup(self):
        self.title = "w~Cauchy(location=lambda z,a,b: z/2+a/4-b, s), z~Laplace, a~Gamma, b~Beta"
        self.free = ["w", "z", "a", "b"]
        self.dims = {"w": 1, "z": 1, "a": 1, "b": 1}
        self.parents = {"w": ["z", "a", "b"], "z": [], "a": [], "b": []}

    def par(self, k):
        return dict(ws=[1.5, 0.5, 2.0][k], lz=([0.25, 0.5, -0.5][k], [1.5, 0.5, 2.0][k]),
                    ga=([2.0, 3.0, 1.5][k], [1.5, 1.0, 0.5][k]), bb=([2.0, 1.5, 3.0][k], [3.0, 2.0, 1.5][k]))

    def build(self, k):
        import cuqi
        D = cuqi.distribution
        p = self.par(k)
        f = {}
        _c = _fn(_order(["z", "a", "b"], self.rev), "0.5 * z + 0.25 * a - b")
        f["w"] = D.Cauchy(_c, p["ws"], geometry=1, name="w")
        f["z"] = D.Laplace(p["lz"][0], p["lz"][1], geometry=1, name="z")
        f["a"] = D.Gamma(p["ga"][0], p["ga"][1], name="a")
        f["b"] = D.Beta(p["bb"][0], p["bb"][1], name="b")
        return GR.Bundle(D.JointDistribution(f["w"], f["z"], f["a"], f["b"]), f)

    def values(self, k):
        return {"w": [-0.375, 0.875, 0.125][k], "z": [0.5, -0.25, 1.25][k], "a": [0.75, 1.5, 0.5][k], "b": [0.25, 0.625, 0.375][k]}

    def ref_factors(self, k, v):
        p = self.par(k)
        loc = 0.5 * float(v["z"]) + 0.25 * float(v["a"]) - float(v["b"])
        return {"w": GR.lg_cauchy(v["w"], loc, p["ws"]), "z": GR.lg_laplace(v["z"], p["lz"][0], p["lz"][1]),
                "a": GR.lg_gamma(v["a"], *p["ga"]), "b": GR.lg_beta(v["b"], *p["bb"])}


class AL(Arity):
    template = "L"

    def setup(self):
        self.title = "y~N(Ax, cov=lambda a,b,c: a+2b+c/2), x~N(m0,cx), a,b,c~Gamma (5 variables)"
        self.free = ["y", "x", "a", "b", "c"]
        self.dims = {"y": 2, "x": 3, "a": 1, "b": 1, "c": 1}
        self.parents = {"y": ["x", "a", "b", "c"], "x": [], "a": [], "b": [], "c": []}

    def par(self, k):
        return dict(A=refs.full_matrix(2, 3, k + 9), m0=refs.dyadic_vec(3, k + 2, scale=0.125), cx=[0.75, 0.5, 1.5][k],
                    ga=([2.0, 1.5, 3.0][k], [3.0, 2.0, 1.0][k]), gb=([1.5, 2.5, 2.0][k], [2.0, 0.5, 1.5][k]),
                    gc=([3.0, 2.0, 1.5][k], [1.0, 1.5, 0.5][k]))

    def build(self, k):
        import cuqi
        D = cuqi.distribution
        p = self.par(k)
        _m = cuqi.model.LinearModel(p["A"])
        f = {}
        _c = _fn(_order(["a", "b", "c"], self.rev), "a + 2.0 * b + 0.5 * c")
        f["y"] = D.Gaussian(mean=_m, cov=_c, name="y")
        f["x"] = D.Gaussian(mean=p["m0"].copy(), cov=p["cx"], name="x")
        f["a"] = D.Gamma(p["ga"][0], p["ga"][1], name="a")
        f["b"] = D.Gamma(p["gb"][0], p["gb"][1], name="b")
        f["c"] = D.Gamma(p["gc"][0], p["gc"][1], name="c")
        return GR.Bundle(D.JointDistribution(f["y"], f["x"], f["a"], f["b"], f["c"]), f, {"A": _m})

    def values(self, k):
        return {"y": refs.dyadic_vec(2, k + 4), "x": refs.dyadic_vec(3, k + 8), "a": GR.H3[1][k], "b": GR.H3[2][k], "c": GR.H3[0][k]}

    def ref_factors(self, k, v):
        p = self.par(k)
        cov = float(v["a"]) + 2.0 * float(v["b"]) + 0.5 * float(v["c"])
        return {"y": GR.lg_gauss(v["y"], p["A"] @ v["x"], cov), "x": GR.lg_gauss(v["x"], p["m0"], p["cx"]),
                "a": GR.lg_gamma(v["a"], *p["ga"]), "b": GR.lg_gamma(v["b"], *p["gb"]), "c": GR.lg_gamma(v["c"], *p["gc"])}


class AF(Arity):
    template = "F"
    arity = 4

    def setup(self):
        self.title = "y~N(m0, %s=lambda a,b,c,d: a+2b+c/2+3d), a,b,c,d~Gamma (5 variables, arity 4)" % NOISE[self.kind][0]
        self.free = ["y", "a", "b", "c", "d"]
        self.dims = {"y": 2, "a": 1, "b": 1, "c": 1, "d": 1}
        self.parents = {"y": ["a", "b", "c", "d"], "a": [], "b": [], "c": [], "d": []}

    def par(self, k):
        return dict(m0=refs.dyadic_vec(2, k + 1, scale=0.25), ga=([2.0, 1.5, 3.0][k], [3.0, 2.0, 1.0][k]),
                    gb=([1.5, 2.5, 2.0][k], [2.0, 0.5, 1.5][k]), gc=([3.0, 2.0, 1.5][k], [1.0, 1.5, 0.5][k]),
                    gd=([2.5, 3.0, 2.0][k], [0.5, 1.0, 2.0][k]))

    def build(self, k):
        import cuqi
        D = cuqi.distribution
        p = self.par(k)
        f = {}
        _c = _fn(_order(["a", "b", "c", "d"], self.rev), "a + 2.0 * b + 0.5 * c + 3.0 * d")
        f["y"] = D.Gaussian(**{"mean": p["m0"].copy(), NOISE[self.kind][0]: _c, "name": "y"})
        for n in "abcd":
            f[n] = D.Gamma(p["g" + n][0], p["g" + n][1], name=n)
        return GR.Bundle(D.JointDistribution(f["y"], f["a"], f["b"], f["c"], f["d"]), f)

    def values(self, k):
        return {"y": refs.dyadic_vec(2, k + 2), "a": GR.H3[0][k], "b": GR.H3[1][k], "c": GR.H3[2][k], "d": [1.25, 0.5, 2.0][k]}

    def ref_factors(self, k, v):
        p = self.par(k)
        q = float(v["a"]) + 2.0 * float(v["b"]) + 0.5 * float(v["c"]) + 3.0 * float(v["d"])
        out = {"y": GR.lg_gauss(v["y"], p["m0"], NOISE[self.kind][1](q))}
        for n in "abcd":
            out[n] = GR.lg_gamma(v[n], *p["g" + n])
        return out


TEMPLATES = {"N": AN, "M": AM, "O": AO, "X": AX, "L": AL, "F": AF}
FIVE = ("L", "F")      # 5-variable templates: always explored with the quick tier's step modes


def catalogue(tier):
    """[(template, kind, reversed argument order)]"""
    if tier == "quick":
        return [("N", "Gaussian.cov", False), ("M", None, True), ("O", None, False), ("X", None, True), ("L", None, False)]
    out = []
    for rev in (False, True):
        for kind in NOISE:
            out.append(("N", kind, rev))
        for t in ("M", "O", "X", "L"):
            out.append((t, None, rev))
        out.append(("F", "Gaussian.prec", rev))
    return out


def graph_of(spec):
    return TEMPLATES[spec["template"]](spec.get("kind"), spec.get("rev", False))
