"""C12 - forward models act identically on every representation of their input.

E3 configuration explorer.  A cell is (model kind x domain geometry x range geometry x size variant
x value catalogue).  Inside a cell *every* point of the parameter basis, the origin, a small-integer
generic point and the dyadic generic catalogue points is pushed through the model in every input
representation

    parameter ndarray (forward / __call__ / keyword / @)      function values with is_par=False
    CUQIarray(par) and CUQIarray(fun) carrying the model's domain geometry (own object / equal copy)
    CUQIarray carrying a different-but-compatible geometry: default geometry (CUQIarray(p), a prior
        draw), Continuous1D on another grid (parameters), Continuous1D/2D on another grid holding
        function values (is_par=False)
    dtype facet: int64 (integer-valued points), float32, python list - as ndarray and as CUQIarray
    Samples with 1, 2 and 3 columns (every point appears in each column count) x {own geometry float64 /
        int64 / float32 / list of columns, default geometry, other-grid geometry}

and compared with the harness-composed reference  fun2par_range( f( par2fun_domain(p) ) )  of the float64
point, built from the dense reference geometry maps of checks/_c12_models.py; the wrapping of the output
is checked (ndarray / CUQIarray with the range geometry and is_par=True / Samples with the range geometry).
For linear models the same battery runs through `adjoint` (range -> domain, reference
fun2par_domain(A^T par2fun_range(y))).  `gradient(direction, wrt)` is evaluated for all 4 x 4
representations of (direction, wrt) plus 11 pairs of the geometry-carried/dtype facets, all basis
directions + a generic one, and compared with J^T direction, J = Richardson Jacobian of the *reference*
parameter-to-output map (or the call raises).  `model(dist)` must only rename.

Signatures: a failing cell is re-explored with the domain (resp. range) geometry replaced by a plain
one; a geometry facet is only kept in the signature when the failure disappears with the replacement
(deterministic, cell-local facet minimisation), representations that all fail are collapsed, and a
representation of the geometry-carried/dtype facets is only named when its plain analogue passes.

MappedGeometry alphabet (checks/_c12_models.py): map {element-wise sinh, cumulative sum along axis 0, cyclic shift along
every axis, dense linear mixing along axis 0; cumsum-of-sinh with an attached gradient} x base geometry {Continuous1D,
Image2D row-major / column-major, Continuous2D}, as domain and as range.  The reference composes the documented maps in
the documented order (par2fun = map o base.par2fun, fun2par = base.fun2par o imap) from dense matrices / index loops.

Derived models are members of the model catalogue: `B.T` (quick) and `(B.T).T` (thorough) of a LinearModel B given by a
matrix or by callables, arranged such that the derived model maps the cell's domain to the cell's range.  Unequal domain
and range geometries (kind, map, size; non-square operators) are the rule in the product.  First the derived model's
geometries must be the base model's, swapped (own signature, the cell is then not judged further - everything else would
follow from it); then it runs through the same batteries as every other model (forward, adjoint, gradient, get_matrix,
rename) against the dense transposed operator between the swapped dense reference geometries.

History facet "outputs are values, inputs stay the caller's" (every model kind, every operation): nothing the harness
receives or hands over is thrown away inside a cell.  Every input object (ndarray / CUQIarray / list / Samples and the
array a Samples was built from) is remembered with a value copy taken before the call, every output object (of forward,
adjoint, gradient, get_matrix; ndarray / CUQIarray / Samples / matrix) with a value copy taken when it was returned -
the moment it was compared with the reference.  The order of the batteries is the history: point p1 in each
representation, p2, p3, ..., sample collections, [adjoint battery,] gradients, get_matrix + forward + gradients + second
get_matrix, model(distribution) + its applications.  After the collections of each battery, after the gradients and after
get_matrix the objects kept since the previous audit, at the end of the cell all kept objects must still read what they
read then (`earlier-output-altered`,
`input-altered`; facet in the signature: operation + kind of object kept).  Aliasing as such is not judged (the
statement does not forbid it): only objects whose content CHANGES through later use of the model are reported.
The PDE models come with grids unspecified and (`*_grid` kinds) with explicit, equal solution/observation grids, crossed
with the identity-like range geometries - the configuration in which the library passes the PDE solver's own array through.

Hidden constructor options (checks/_c12_models.py): every geometry kind whose constructor takes options that neither the
parameter nor the function shape shows appears with several option values on the SAME coarse shape (same role, grid, number
of modes / steps): KLExpansion decay_rate / normalizer, KLExpansion_Full std / cor_len / nu, CustomKL mean / kernel /
amplitude / trunc_term, StepExpansion fun2par_projection mean / max / min and n_steps, MappedGeometry maps over one base,
Image2D order.  One option differs per variant; the dense reference of every variant is written from ITS OWN option values
(documented sine series, Nystrom eigenpairs of the kernel up to the sign gauge, interval max / min by loops).
KLExpansion_Full and CustomKL have no fun2par: domain only, the adjoint into them is not formed.

Process-history facet: a cell may carry a DECOY - a second model of the same model kind whose geometry (of the named role)
is of the same kind, role and size but has OTHER option values.  The four events D (decoy built), d (decoy evaluated in
every representation: vector, function values, CUQIarray par/fun, 2-column Samples, adjoint, gradient), M (model under
test built), m (model under test evaluated the same way for the first time) happen in the order named by the cell, then
the model under test runs through all batteries against the reference of its own options.  All 6 orders with D<d and M<m
(quick: decoy completely first `DdMm`, decoy completely after the first use `MmDd`) x both directions of every pair
(base, variant) x both roles: whatever module-level state earlier cells left in a worker process, the two kinds of a
pair cannot both agree with it, and in a fresh process (replay) every `DdMm` cell sees the decoy's state first.  The
facet `history=<order>` stays in a signature only if the failure disappears, in the same process, without the decoy.
"""
import numpy as np
from vfw.core import CellResult, close
from vfw import refs
from checks import _c12_models as M

PROPERTY = "C12"
RULE = ("cells = model kind (incl. the derived models LinearModel.T / .T.T) x domain geometry kind x range geometry kind x "
        "size variant (+ '=dom' cells whose range geometry is an equal copy of the domain geometry) x value catalogue; the "
        "kinds of the MappedGeometry alphabet (map x base geometry) are crossed with a covering subset of partner kinds; "
        "a derived model must carry the base model's geometries swapped and is then judged like any other model; inside a cell all basis points, the "
        "origin, a small-integer generic point and the dyadic generic points go through every input representation: "
        "par ndarray via forward/__call__/keyword/@, function values with is_par=False, CUQIarray par/fun with the "
        "model's domain geometry, CUQIarray with a different-but-compatible geometry (default geometry, Continuous1D on "
        "another grid, other-grid function values), dtype facet (int64 / float32 / list as ndarray and CUQIarray), "
        "Samples with 1..3 columns x {own geometry float64/int64/float32/list of columns, default geometry, other-grid "
        "geometry}; linear models: the same battery through adjoint; every (direction, wrt) representation pair of "
        "gradient (16 + 11 pairs of the geometry-carried/dtype facets) with all basis directions; history facet: every "
        "input and output object of every call above (forward / adjoint / gradient / get_matrix, each representation) is "
        "kept with a value copy taken at call resp. return time and audited after the sample collections of its battery / "
        "after the gradients / after get_matrix + forward + gradient + a second get_matrix (objects kept since the previous "
        "audit), and all of them once more at the end of the cell (after model(distribution) and its applications): kept "
        "outputs and the caller's inputs read what they read then; "
        "PDE models with unspecified and with explicit coinciding solution/observation grids; hidden constructor options: "
        "every expansion geometry family appears with several values of each option on one coarse shape (one option differs "
        "per variant, reference written from the variant's own options), crossed with a covering subset of partners; "
        "process-history facet: cells with a DECOY model (same model kind, geometry of the same kind / role / size, other "
        "option values) whose construction (D) and evaluation in every representation (d) are interleaved with the "
        "construction (M) and first evaluation (m) of the model under test in every order, both directions of every "
        "(base, variant) pair, both roles, before the model under test runs through all batteries; a cell is non-trivial "
        "when at least one forward value was compared with the composed reference")
BOUND = {
    "quick": "models {Model+jacobian, Model+gradient, Model, LinearModel matrix/callables/inferred, PDEModel Poisson "
             "(plain, +jacobian_wrt_parameter, +gradient_wrt_parameter), Heat forward/backward Euler; derived: "
             "LinearModel(matrix).T, LinearModel(callables).T, LinearModel(matrix, inferred geometries).T, non-square} x 15 domain "
             "geometry kinds {default 1-D/2-D, Continuous1D/2D, Image2D C/F/visual_only, Discrete, MappedGeometry "
             "(+gradient), KLExpansion (+gradient), StepExpansion (+gradient), user class with gradient} x (11 range "
             "geometry kinds + equal copy of the domain), one size per kind (par dims 2..6, function dims 3..7; the "
             "range KL/Step grids share their 4 nodes with the plain 1-D domain), points = basis + origin + 1 integer "
             "generic + 1 dyadic generic, 16 single-vector representations per point (int64 ones at integer-valued "
             "points), Samples: own-geometry float64 with 1..3 columns, the 5 dtype/geometry variants with all points "
             "in 3-column and the first point in 1-column collections; adjoint of the 3 linear model kinds with the same "
             "battery on basis + origin + integer + dyadic points of the range; gradient at 2 linearisation points x 16 "
             "representation pairs x (range_dim + 1) directions, + 11 geometry-carried/dtype pairs at the generic "
             "linearisation point (integer pair at the integer-valued one); lin_mat only with 1-D function spaces; "
             "MappedGeometry alphabet: domain kinds {cumsum o Image2D-F, shift o Continuous2D, mixing o Image2D-C, cumsum o "
             "Continuous1D, cumsum-of-sinh o Image2D-F with gradient} x range {plain 1-D, Image2D-F, equal copy, one mapped "
             "range}, range kinds {cumsum o Image2D-C, shift o Image2D-F, mixing o Continuous2D, mixing o Continuous1D} x "
             "domain {plain 1-D, Image2D-C, StepExpansion with gradient}, every model kind; PDEModel with explicit equal "
             "grid_sol/grid_obs {Poisson, Heat forward Euler, Heat backward Euler with the final time given as time_obs "
             "array} x domain {plain 1-D, Image2D-C, StepExpansion with gradient} x the 7 range kinds with a 1-D function "
             "space (+ equal copy); history facet: all objects of a cell (about 150-250 forward/adjoint outputs, every "
             "computed gradient, 2 matrices, all inputs) audited twice (after their own battery, at the end of the cell); "
             "option variants: domain kinds {KLExpansion decay 2.25 (+gradient) / normalizer 0.5, KLExpansion_Full base / std 1.5 "
             "/ cor_len 0.5 (+gradient) / nu 1.5, CustomKL base / mean 0.5 / kernel length 1 (+gradient) / amplitude 1.5 / other "
             "trunc_term, StepExpansion max / min / other n_steps} x range {plain 1-D, one option-variant range, equal copy "
             "(every second kind with a fun2par)}, range kinds {KLExpansion decay / normalizer, StepExpansion max / min / "
             "other n_steps} x domain {plain 1-D, one option-variant domain}, models {Model+jacobian, Model, LinearModel "
             "matrix / callables / callables.T, PDEModel Poisson+jacobian}; history facet: 30 ordered domain pairs + 16 "
             "ordered range pairs (stars around KLExpansion, KLExpansion_Full, CustomKL, StepExpansion, Image2D order, "
             "MappedGeometry maps over Continuous1D and over Image2D) x orders {DdMm, MmDd} x models {Model+jacobian, "
             "LinearModel callables}, partner plain 1-D",
    "thorough": "same product with 2 sizes per domain and per range kind (4 combinations), points = basis + origin + "
                "integer generic + 3 dyadic generic, every Samples variant with 1..3 columns, gradient linearised at "
                "every point (extra pairs at the last generic point, integer pair at every integer-valued point); MappedGeometry "
                "alphabet: all 15 map x base kinds {sinh, cumsum, shift, mixing} x {Continuous1D, Image2D-C, Image2D-F, "
                "Continuous2D} (+ cumsum-of-sinh with gradient over Continuous1D / Image2D-F as domain) against every basic "
                "kind of the other side, an equal copy and one mapped partner (second size for the plain 1-D / Image2D-C / "
                "mapped partners); derived models additionally (B.T).T (first size variant); explicit-grid PDE models x "
                "every domain kind x the 7 range kinds with a 1-D function space (second size for the plain 1-D domain); "
                "history facet as in quick over the larger batteries; option variants x every model kind, second size for "
                "the plain 1-D and option-variant partners, equal copy for every kind with a fun2par; process-history facet: "
                "the same 46 ordered pairs x all 6 orders x models {Model+jacobian, Model, LinearModel matrix / callables / "
                "callables.T, PDEModel Poisson+jacobian} with the batteries of the quick tier",
}
ASSUMPTIONS = [
    "MappedGeometry: the documented composition is the reference (par2fun = map after the wrapped geometry's par2fun, "
    "fun2par = the wrapped geometry's fun2par after imap, imap being the inverse of map on function arrays of the wrapped "
    "geometry's fun_shape); the maps handed to the library are plain numpy expressions (cumsum/diff, roll, W @ f / solve), "
    "the reference uses dense triangular/mixing matrices and explicit index loops; new mapped kinds are crossed with a "
    "covering subset of partner kinds (the model layer converts input and output by the two geometries independently)",
    "derived models: LinearModel.T is the only model-producing operation of cuqi/model/_model.py besides "
    "model(distribution) (no composition / shifted models exist); 'acting as the transpose' is read as: domain geometry "
    "= the base model's range geometry and vice versa (judged by type, parameter shape and par2fun on a generic point, "
    "object identity is not demanded), forward = the base model's adjoint; keyword calls use the derived model's own "
    "input name; the renamed copy model(distribution) is judged by the rename check only, not by the full battery",
    "the reference geometry maps (index arithmetic for Image2D/Continuous2D, the documented sine expansion for "
    "KLExpansion, integer interval membership for StepExpansion) are compared with the library geometry in every "
    "cell; a disagreement is reported under its own signature and the cell is not judged further",
    "arrays carrying a geometry different from the model's domain geometry are exercised only with identity-like "
    "geometries of matching size (default geometry, Continuous1D/2D on another grid), where the numbers in the array "
    "are unambiguous; they are read as parameters of the model's domain (is_par=True) or as function values when the "
    "call says is_par=False; other foreign geometries (mapped, expansions) are outside the statement and not exercised",
    "float32 inputs are judged with relative tolerance 1e-4 (user code may legitimately compute in the precision it is "
    "given); python lists (vector, or list of columns in a sample collection) may be refused, a returned value must be "
    "the reference value; integer inputs must give the float64 result",
    "user supplied derivative information follows the documented conventions (gradient callables work on function "
    "values, a Jacobian has shape (range_dim, domain_dim)); refusal of gradient (any exception) is always accepted",
    "output shapes are compared up to squeezing; the wrapping rule is judged for forward and adjoint only (the statement "
    "is silent about the wrapping of gradients; there only 'the geometry object carried by an array-typed direction "
    "does not change the type of the result' is demanded)",
    "the adjoint reference uses the dense reference fun2par of the domain geometry on arbitrary function vectors "
    "(inverse of the full KL basis truncated to the modes, interval means for StepExpansion)",
    "numpy.linalg.solve / inv on dimensions <= 9 is the trusted base of the reference",
    "history facet: 'yields the same outputs' is read for outputs the caller holds - an output returned by one application "
    "is a value, it does not change when the model is applied again (otherwise per-vector outputs collected in a loop "
    "would differ from the columns of the sample-collection output); aliasing between outputs and internal state is not "
    "judged as such (get_matrix may hand out the stored matrix), only a change of a kept object's content, dtype, flag or "
    "geometry object; the history is the fixed order of the batteries of a cell, not all permutations of it; the caller "
    "modifying a returned object is not part of the history",
    "PDE grids: unspecified, or explicit and equal (1-D range function spaces); different solution/observation grids "
    "(the library's spline interpolation) are not exercised",
    "option variants: the documented formulas are the reference (KLExpansion / KLExpansion_Full sine series with the "
    "documented coefficient laws; CustomKL: Nystrom eigenpairs of the user's kernel with 2*trunc_term Gauss-Legendre nodes "
    "on a grid starting at 0, kernel amplitude = std^2 so that 'std' is unambiguous, eigenvector signs taken from the "
    "library (gauge), numpy's leggauss / eigh trusted; StepExpansion projection = mean / max / min over the documented "
    "intervals); two option values per option, other options fixed; KLExpansion_Full / CustomKL (no fun2par) only as "
    "domain geometries, no adjoint into them",
    "process history: the history of a cell is the stated interleaving of ONE decoy with the model under test inside the "
    "cell; nothing is assumed about what earlier cells left in the worker process (both directions of each pair are "
    "cells, so at least one of them disagrees with any leftover state; in a fresh process every decoy-first cell does); "
    "the decoy itself is not judged in its cell (it is the model under test of the sibling cell); history cells use the "
    "quick batteries, one partner (plain 1-D) and a covering subset of model kinds (the conversions are done by the "
    "shared model layer); more than two geometries of a kind alive at once, threads and pickling are not exercised",
]

EQ_RANGE = "=dom"
CUQI_REPS = ("cuqi-par", "cuqi-fun", "cuqi-fun-flag")
PAR_REPS = ("par", "par-call", "par-keyword")
GRAD_REPS = ("par", "fun", "cuqi-par", "cuqi-fun")
FOREIGN_PAR_REPS = ("cuqi-par-default", "cuqi-par-othergrid")
FOREIGN_REPS = FOREIGN_PAR_REPS + ("cuqi-fun-othergrid",)
SAMPLE_VARIANTS = [("samples", "own", "float64"), ("samples-int", "own", "int"), ("samples-float32", "own", "float32"),
                   ("samples-list", "own", "list"), ("samples-defaultgeom", "default", "float64"),
                   ("samples-othergrid", "other", "float64")]
F32_TOL = 1e-4
REP_BASE = {"cuqi-par-default": "cuqi-par", "cuqi-par-othergrid": "cuqi-par", "cuqi-fun-othergrid": "cuqi-fun-flag",
            "par-int": "par", "par-float32": "par", "par-list": "par", "cuqi-par-int": "cuqi-par",
            "cuqi-par-float32": "cuqi-par", "samples-int": "samples", "samples-float32": "samples",
            "samples-list": "samples", "samples-defaultgeom": "samples", "samples-othergrid": "samples"}
# complete groups of failing representations are reported under one label (first matching group wins)
REP_GROUPS = [("cuqi-*", CUQI_REPS), ("cuqi-fun*", CUQI_REPS[1:]), ("par-*", PAR_REPS),
              ("cuqi-othergeom-*", FOREIGN_REPS), ("cuqi-par-othergeom", FOREIGN_PAR_REPS),
              ("samples-othergeom", ("samples-defaultgeom", "samples-othergrid"))]


def _geometry_pairs(tier):
    """(domain kind, range kind, size variants) of a tier.

    1. the full product of the basic kinds (every size variant);
    2. the MappedGeometry alphabet (map x base geometry, checks/_c12_models.py).  Geometries of the two sides are
       processed independently of each other by the model layer, so the new kinds are crossed with a covering subset of
       partners instead of the full product: as domain with {plain 1-D, a reshaping range, an equal copy of itself, one
       mapped range of the alphabet}, as range with {plain 1-D, a reshaping domain, an expansion with gradient}; the
       thorough tier takes all 15 map x base kinds (+2 with gradient) against every basic kind of the other side."""
    quick = tier == "quick"
    variants = [(0, 0)] if quick else [(0, 0), (0, 1), (1, 0), (1, 1)]
    for dom in M.DOM_KINDS:
        for rng in M.RNG_KINDS + [EQ_RANGE]:
            yield dom, rng, [v for v in variants if not (rng == EQ_RANGE and v[1] != 0)]
    if quick:
        nd, nr = M.QUICK_MAPPED_DOM, M.QUICK_MAPPED_RNG
        for i, dom in enumerate(nd):
            for rng in ["default1d", "image2d_F", EQ_RANGE, nr[i % len(nr)]]:
                yield dom, rng, [(0, 0)]
        for rng in nr:
            for dom in ["default1d", "image2d_C", "step_grad"]:
                yield dom, rng, [(0, 0)]
    else:
        nd, nr = M.MAPPED_KINDS + M.MAPPED_GRAD_KINDS, M.MAPPED_KINDS
        for i, dom in enumerate(nd):
            partner = nr[(i + 5) % len(nr)]
            for rng in M.RNG_KINDS + [EQ_RANGE, partner]:
                yield dom, rng, [(0, 0), (1, 1)] if rng in ("default1d", partner) else [(0, 0)]
        for rng in nr:
            for dom in M.DOM_KINDS:
                yield dom, rng, [(0, 0), (1, 1)] if dom in ("default1d", "image2d_C") else [(0, 0)]


def _option_pairs(tier):
    """(domain kind, range kind, size variants) of the option variants of the expansion geometries (hidden constructor
    options: KLExpansion decay_rate / normalizer, KLExpansion_Full std / cor_len / nu, CustomKL mean / std / cov_func /
    trunc_term, StepExpansion fun2par_projection / n_steps; checks/_c12_models.py).  The base kind of each family is
    crossed with every partner in the basic product (KLExpansion_Full / CustomKL, which have no fun2par, as domain only);
    an option variant changes nothing but numbers inside the geometry's own maps, so it is crossed with a covering
    subset: as domain with {plain 1-D range, an equal copy of itself (if it has a fun2par), one option-variant range},
    as range with {plain 1-D domain, one option-variant domain}."""
    quick = tier == "quick"
    nd, nr = M.OPT_DOM_KINDS, M.OPT_RNG_KINDS
    for i, dom in enumerate(nd):
        partner = nr[i % len(nr)]
        rngs = ["default1d", partner] + ([EQ_RANGE] if (M.has_fun2par(dom) and (not quick or i % 2 == 0)) else [])
        for rng in rngs:
            yield dom, rng, [(0, 0)] if (quick or rng == EQ_RANGE) else [(0, 0), (1, 1)]
    for i, rng in enumerate(nr):
        for dom in ["default1d", nd[(3 * i + 2) % len(nd)]]:
            yield dom, rng, [(0, 0)] if quick else [(0, 0), (1, 1)]


def cells(tier, seed):
    k = refs.cat(seed)
    npts = 1 if tier == "quick" else 3
    allw = tier != "quick"
    models = M.MODELS + M.DERIVED_MODELS + ([] if tier == "quick" else M.DERIVED_MODELS_THOROUGH)
    for model in models:
        for dom, rng, variants in _geometry_pairs(tier):
            if M.needs_1d_function_spaces(model) and not M.lin_mat_applicable(dom, dom if rng == EQ_RANGE else rng):
                continue
            if model in M.DERIVED_MODELS_THOROUGH:
                variants = variants[:1]
            for vd, vr in variants:
                yield {"model": model, "dom": dom, "rng": rng, "vd": vd, "vr": vr, "cat": k,
                       "npts": npts, "allw": allw}
    # PDE models with explicit coinciding solution/observation grids: every range kind with a 1-D function space (the grid
    # acts on the observation side) x a covering subset of domain kinds (thorough: every domain kind)
    rngs = [r for r in M.RNG_KINDS if M.range_1d(r)]
    doms = ["default1d", "image2d_C", "step_grad"] if tier == "quick" else M.DOM_KINDS
    for model in M.GRID_MODELS:
        for dom in doms:
            for rng in rngs + ([EQ_RANGE] if M.range_1d(dom) and dom in ("default1d", "cont1d", "step_grad") else []):
                for v in ([0] if tier == "quick" or dom != "default1d" or rng == EQ_RANGE else [0, 1]):
                    yield {"model": model, "dom": dom, "rng": rng, "vd": v, "vr": v, "cat": k, "npts": npts, "allw": allw}
    for model in ["lin_inferred", "lin_inferred_T"] + ([] if tier == "quick" else ["lin_inferred_TT"]):
        for vd in ([0] if tier == "quick" else [0, 1]):
            yield {"model": model, "dom": "default1d", "rng": "default1d", "vd": vd, "vr": vd, "cat": k,
                   "npts": npts, "allw": allw}
    # option variants of the expansion geometries (covering subset of partners; quick: a covering subset of model kinds)
    for model in (M.OPT_MODELS_QUICK if tier == "quick" else models):
        for dom, rng, variants in _option_pairs(tier):
            if model in M.DERIVED_MODELS_THOROUGH:
                variants = variants[:1]
            for vd, vr in variants:
                yield {"model": model, "dom": dom, "rng": rng, "vd": vd, "vr": vr, "cat": k, "npts": npts, "allw": allw}
    # process-history facet: a decoy (same model kind, same geometry kind family, role and size, OTHER option values) is
    # built and evaluated in the same process, interleaved with the model under test in every order (quick: the two
    # extreme orders); the judged batteries are those of the quick tier
    orders = M.HISTORY_ORDERS_QUICK if tier == "quick" else M.HISTORY_ORDERS
    for model in (M.HISTORY_MODELS_QUICK if tier == "quick" else M.HISTORY_MODELS):
        for role in ("dom", "rng"):
            for kind, decoy in M.HISTORY_PAIRS[role]:
                dom, rng = (kind, "default1d") if role == "dom" else ("default1d", kind)
                if M.needs_1d_function_spaces(model) and not M.lin_mat_applicable(dom, rng):
                    continue
                for order in orders:
                    yield {"model": model, "dom": dom, "rng": rng, "vd": 0, "vr": 0, "cat": k, "npts": 1, "allw": False,
                           "decoy": {role: decoy}, "order": order}


# --------------------------------------------------------------------------------------------------
def _flat(x):
    return np.asarray(x, dtype=float).reshape(-1)


def _same_geometry(a, b):
    """Harness-side equivalence (the library's Geometry.__eq__ is not used as a judge): same object, or same
    class with the same parameter shape and the same parameter-to-function map on a generic point."""
    if a is b:
        return True
    try:
        if type(a) is not type(b) or a.par_shape != b.par_shape:
            return False
        p = refs.dyadic_vec(int(a.par_dim), 1, scale=0.125)
        fa, fb = np.asarray(a.par2fun(p.copy())), np.asarray(b.par2fun(p.copy()))
        return fa.shape == fb.shape and close(fa, fb, 1e-12)
    except Exception:  # noqa
        return False


_TYPES = []


def _container(obj):
    """Kind of object a caller holds: ndarray / CUQIarray / Samples / list / matrix (scipy sparse) / scalar."""
    if not _TYPES:
        from cuqi.array import CUQIarray
        from cuqi.samples import Samples
        _TYPES.extend([CUQIarray, Samples])
    t = type(obj)
    if t is np.ndarray:
        return "ndarray"
    if t is _TYPES[0]:
        return "CUQIarray"
    if isinstance(obj, _TYPES[1]):
        return "Samples"
    if isinstance(obj, np.ndarray):
        return "ndarray"
    if isinstance(obj, (list, tuple)):
        return "list"
    if hasattr(obj, "toarray"):
        return "matrix"
    return "scalar"


def _snapshot(obj):
    """A value copy of everything a caller can read from an object of the call protocol - (kind, dtype, shape, the
    numbers as bytes, flag and geometry object of a CUQIarray) - sharing no memory with it; two snapshots are equal iff
    the object reads the same, bit for bit.  None when the object holds no numbers."""
    kind = _container(obj)
    try:
        if kind == "ndarray":
            return None if obj.dtype == object else (kind, obj.dtype, obj.shape, obj.tobytes(), None, None)
        if kind == "CUQIarray":
            return None if obj.dtype == object else (kind, obj.dtype, obj.shape, obj.tobytes(),
                                                     getattr(obj, "is_par", None), id(getattr(obj, "geometry", None)))
        if kind == "Samples":
            data = obj.samples
            if isinstance(data, (list, tuple)):
                data = np.array([np.asarray(c) for c in data])
        elif kind == "matrix":
            data = obj.toarray()
        else:
            data = obj
        arr = np.asarray(data)
        return None if arr.dtype == object else (kind, arr.dtype, arr.shape, arr.tobytes(), None, None)
    except Exception:  # noqa  not an array-like object: nothing to remember
        return None


def _snap_values(snap):
    return None if snap is None else np.frombuffer(snap[3], dtype=snap[1])[:6]


class _Ledger:
    """History facet 'outputs are values, inputs stay the caller's': every object handed to the model (input) and every
    object handed back by it (output of forward / adjoint / gradient / get_matrix, in every representation) is KEPT
    together with a value copy taken at call time resp. return time.  `audit` - run after the sample collections of a
    battery, after the gradients, after get_matrix (each time on the objects kept since the previous audit) and at the end
    of the cell (on all of them), i.e. after the model was applied to other points, in other representations and to
    sample collections - demands that every kept object still reads what it read then.  (The copy of an output was compared with the independent reference when it was returned.)
    One raw failure per (operation, kind of object) and cell."""

    def __init__(self):
        self.outs, self.ins, self.reported, self.done = [], [], set(), (0, 0)

    def keep_input(self, op, rep, pname, obj):
        snap = _snapshot(obj)
        if snap is not None:
            self.ins.append([op, rep, pname, obj, snap])
        return snap

    def forget_inputs(self, count):
        del self.ins[len(self.ins) - count:]

    def keep_output(self, op, rep, pname, obj):
        snap = _snapshot(obj)
        if snap is not None:
            self.outs.append([op, rep, pname, obj, snap])

    def _report(self, raw, op, kind, label, message, **detail):
        if (op, kind, label) not in self.reported:
            self.reported.add((op, kind, label))
            raw.add(op, kind, message, rep=label, **detail)

    def input_after_call(self, res, raw, op, rep, pname, obj, snap):
        """Directly after the call: the caller's object reads what it read before the call."""
        if snap is None:
            return
        res.evaluations += 1
        if not _snapshot(obj) == snap:
            self._report(raw, op + "-input", "input-altered", snap[0],
                         "%s(%s given as %s) changed the caller's input object (%s): it read %s before the call and reads "
                         "%s after it" % (op, pname, rep, snap[0], _snap_values(snap),
                                          _flat_or_none(obj)), point=pname, given_as=rep)

    def audit(self, res, raw, stage, everything=False):
        """Objects kept since the previous audit (they have seen the later calls of their own battery); at the end of the
        cell `everything`: each kept object is audited right after its battery and once more after all the others."""
        res.state("history:" + stage)
        o0, i0 = (0, 0) if everything else self.done
        self.done = (len(self.outs), len(self.ins))
        for op, rep, pname, obj, snap in self.outs[o0:]:
            res.evaluations += 1
            now = _snapshot(obj)
            if not now == snap:
                self._report(raw, op + "-history", "earlier-output-altered", snap[0],
                             "the %s returned by %s(%s given as %s) read %s when it was returned (= the reference value) and "
                             "reads %s %s: later applications of the model changed an output the caller had kept"
                             % (snap[0], op, pname, rep, _snap_values(snap),
                                _snap_values(now), stage),
                             point=pname, given_as=rep, stage=stage)
        for op, rep, pname, obj, snap in self.ins[i0:]:
            res.evaluations += 1
            if not _snapshot(obj) == snap:
                self._report(raw, op + "-input", "input-altered", snap[0],
                             "the %s handed to %s (%s given as %s) was changed by later applications of the model (%s)"
                             % (snap[0], op, pname, rep, stage), point=pname, given_as=rep, stage=stage)
        res.traces += 1


def _flat_or_none(obj):
    return _snap_values(_snapshot(obj))


class _Raw(list):
    """Raw failures of one exploration: dicts with op, kind, rep (forward) or wrep/drep (gradient)."""

    def __init__(self, *a):
        super().__init__(*a)
        self.ledger = _Ledger()

    def add(self, op, kind, message, rep=None, wrep=None, drep=None, **detail):
        self.append({"op": op, "kind": kind, "rep": rep, "wrep": wrep, "drep": drep,
                     "message": message, "detail": detail})

    def keys(self):
        return {(f["op"], f["kind"], f["rep"], f["wrep"], f["drep"]) for f in self}


def _check_geometry_reference(res, raw, g, lib, k, history=""):
    """The dense reference maps (written from the geometry's own constructor options) must agree with the library
    geometry at the moment the model under test is judged - in a history cell: after the decoy was built / evaluated."""
    p = refs.dyadic_vec(g.n, k + 1, scale=0.125)
    bad = []
    try:
        a = lib.par2fun(p.copy())
        if not (np.asarray(a).shape == g.fshape and close(a, g.p2f(p), 1e-10)):
            bad.append("par2fun")
    except Exception:  # noqa
        bad.append("par2fun")
    if g.has_f2p:
        try:
            b = lib.fun2par(np.array(g.p2f(p)))
            if not close(_flat(b), g.f2p(g.p2f(p)), 1e-10):
                bad.append("fun2par")
        except Exception:  # noqa
            bad.append("fun2par")
    res.transitions += 2 if g.has_f2p else 1
    if bad:
        raw.add("geometry-map", type(lib).__name__,
                "the geometry's own %s differ(s) from the documented map of ITS OWN constructor options (kind %s: for a "
                "MappedGeometry par2fun = map o base.par2fun and fun2par = base.fun2par o imap)%s; parameter inputs are "
                "converted with it, function-value inputs are not; cell not judged further"
                % ("/".join(bad), g.kind, history), rep="+".join(bad))
    return not bad


def _is_int(p):
    return bool(np.all(np.asarray(p) == np.round(p)))


class _Runner:
    """Runs one application (forward: domain -> range, adjoint: range -> domain) on the real code and judges value
    and wrapping of the output.  Raw failure operations are `<op>`, `<op>-wrapping`, `<op>-raises`."""

    def __init__(self, res, raw, op, out_geometry, compared):
        self.res, self.raw, self.op, self.lgo, self.compared = res, raw, op, out_geometry, compared

    def judge(self, rep, out, expect, pname, want, tol):
        from cuqi.array import CUQIarray
        from cuqi.samples import Samples
        res, raw, op = self.res, self.raw, self.op
        res.evaluations += 1
        if want == "ndarray" and isinstance(out, (CUQIarray, Samples)):
            raw.add(op + "-wrapping", "type", "plain array in, %s out" % type(out).__name__, rep=rep, point=pname)
        if want == "CUQIarray":
            if type(out) is not CUQIarray:
                raw.add(op + "-wrapping", "type", "CUQIarray in, %s out" % type(out).__name__, rep=rep, point=pname)
            else:
                if not _same_geometry(out.geometry, self.lgo):
                    raw.add(op + "-wrapping", "geometry", "output carries %r instead of the geometry of the output space %r"
                            % (out.geometry, self.lgo), rep=rep, point=pname)
                if out.is_par is not True:
                    raw.add(op + "-wrapping", "is_par", "output not flagged as parameters", rep=rep, point=pname)
        try:
            arr = _flat(out)
        except Exception:  # noqa
            raw.add(op, "not-an-array", "output %r" % (out,), rep=rep, point=pname)
            return
        if arr.size != expect.size:
            raw.add(op, "size", "output has %d entries, the output geometry has %d parameters"
                    % (arr.size, expect.size), rep=rep, point=pname)
            return
        self.compared[0] += 1
        res.traces += 1
        if not close(arr, expect, tol):
            raw.add(op, "values", "%s(%s given as %s) = %s, composed reference fun2par(f(par2fun(p))) = %s"
                    % (op, pname, rep, arr[:6], expect[:6]), rep=rep, point=pname, impl=arr, ref=expect)

    def run(self, rep, pname, expect, want, make, call, tol=1e-9, may_refuse=False):
        """`make()` builds the caller's input object, `call(x)` applies the model to it.  Input and output objects go to
        the history ledger of the cell (kept; audited after later applications)."""
        res, raw, op = self.res, self.raw, self.op
        ledger = raw.ledger
        res.transitions += 1
        x = make()
        snap = ledger.keep_input(op, rep, pname, x)
        try:
            out = call(x)
        except Exception as e:  # noqa
            res.outcomes.add("%s:%s:raise:%s" % (op[:3], rep, type(e).__name__))
            ledger.input_after_call(res, raw, op, rep, pname, x, snap)
            if may_refuse:
                res.refused += 1
                return
            raw.add(op + "-raises", type(e).__name__,
                    "%s raised %r for %s given as %s although the reference value exists" % (op, e, pname, rep),
                    rep=rep, point=pname)
            return
        res.outcomes.add("%s:%s:ok:%s" % (op[:3], rep, type(out).__name__))
        ledger.input_after_call(res, raw, op, rep, pname, x, snap)
        ledger.keep_output(op, rep, pname, out)
        self.judge(rep, out, expect, pname, want, tol)


def _battery(res, raw, op, apply, extra_routes, gi, go, lgi, lgo, pts, refs_at, compared, full):
    """One application `apply(x, **kw)` from the space of reference geometry `gi` (library object `lgi`) to that of
    `go` (`lgo`), on every representation of every point:

    vectors      par ndarray (+ extra routes), function values with is_par=False,
                 CUQIarray par/fun carrying the input geometry itself,
                 CUQIarray carrying a different-but-compatible geometry: the default geometry (CUQIarray(p), e.g. a draw
                 of a prior defined without geometry), Continuous1D on another grid (parameters), Continuous1D/2D on
                 another grid holding function values (with is_par=False),
                 dtype facet: int64 (integer-valued points) and float32 as ndarray and as CUQIarray, python list;
    collections  Samples with 1..3 columns x {own geometry float64 / int64 / float32 / list of columns,
                 default geometry, other-grid geometry}.
    Oracle: the composed dense reference value of the float64 point; CUQIarray in -> CUQIarray(parameters of the output
    geometry) out, plain in -> plain out, Samples in -> Samples of the output geometry out.  float32 inputs are judged
    with float32 accuracy (user code may compute in the precision it is given); a python list may be refused."""
    from cuqi.array import CUQIarray
    from cuqi.samples import Samples
    R = _Runner(res, raw, op, lgo, compared)
    og_par = M.other_grid_geometry((gi.n,))
    og_fun = M.other_grid_geometry(gi.fshape)
    i64, f32 = np.int64, np.float32
    ledger = raw.ledger

    def ap(x):
        return apply(x)

    def apf(x):
        return apply(x, is_par=False)

    for (pname, p), expect in zip(pts, refs_at):
        res.state("%s:pt:%s" % (op, pname) if op != "forward" else "pt:" + pname)
        F = np.array(gi.p2f(p), dtype=float)
        R.run("par", pname, expect, "ndarray", lambda: p.copy(), ap)
        for rep, route in extra_routes:
            R.run(rep, pname, expect, "ndarray", lambda: p.copy(), route)
        R.run("fun", pname, expect, "ndarray", lambda: F.copy(), apf)
        R.run("cuqi-par", pname, expect, "CUQIarray", lambda: CUQIarray(p.copy(), is_par=True, geometry=lgi), ap)
        R.run("cuqi-fun", pname, expect, "CUQIarray", lambda: CUQIarray(F.copy(), is_par=False, geometry=lgi), ap)
        R.run("cuqi-fun-flag", pname, expect, "CUQIarray", lambda: CUQIarray(F.copy(), is_par=False, geometry=lgi), apf)
        # -- geometry carried by the array: different but compatible
        R.run("cuqi-par-default", pname, expect, "CUQIarray", lambda: CUQIarray(p.copy()), ap)
        R.run("cuqi-par-othergrid", pname, expect, "CUQIarray",
              lambda: CUQIarray(p.copy(), is_par=True, geometry=og_par), ap)
        R.run("cuqi-fun-othergrid", pname, expect, "CUQIarray",
              lambda: CUQIarray(F.copy(), is_par=False, geometry=og_fun), apf)
        # -- dtype of the vector
        if _is_int(p):
            R.run("par-int", pname, expect, "ndarray", lambda: p.astype(i64), ap)
            R.run("cuqi-par-int", pname, expect, "CUQIarray",
                  lambda: CUQIarray(p.astype(i64), is_par=True, geometry=lgi), ap)
        R.run("par-float32", pname, expect, "ndarray", lambda: p.astype(f32), ap, tol=F32_TOL)
        R.run("cuqi-par-float32", pname, expect, "CUQIarray",
              lambda: CUQIarray(p.astype(f32), is_par=True, geometry=lgi), ap, tol=F32_TOL)
        R.run("par-list", pname, expect, None, lambda: [float(v) for v in p], ap, may_refuse=True)

    # ---- sample collections with 1, 2, 3 columns --------------------------------------------
    ipts = [i for i, (_, p) in enumerate(pts) if _is_int(p)]
    allpts = list(range(len(pts)))
    for rep, geom, dtype in SAMPLE_VARIANTS:
        sel = ipts if dtype == "int" else allpts
        sgeom = {"own": lgi, "default": None, "other": og_par}[geom]
        tol = F32_TOL if dtype == "float32" else 1e-9
        for ncol in (1, 2, 3):
            starts = list(range(0, len(sel), ncol))
            if not full and rep != "samples":
                # quick tier: the variants run every point through 3-column collections and the first point through a
                # 1-column collection (the own-geometry float64 collection keeps all column counts)
                starts = {1: starts[:1], 2: [], 3: starts}[ncol]
            for start in starts:
                idx = [sel[(start + c) % len(sel)] for c in range(ncol)]
                cols = np.stack([pts[i][1] for i in idx], axis=1)
                expect = np.stack([refs_at[i] for i in idx], axis=1)
                if dtype == "int":
                    data = cols.astype(i64)
                elif dtype == "float32":
                    data = cols.astype(f32)
                elif dtype == "list":
                    data = [cols[:, c].copy() for c in range(ncol)]
                else:
                    data = cols.copy()
                res.transitions += 1
                res.state("%s%s:%d" % ("" if op == "forward" else op + ":", rep, ncol))
                cname = "columns(%s)" % ",".join(pts[i][0] for i in idx)
                coll = Samples(data, geometry=sgeom)
                snaps = [(o, ledger.keep_input(op, rep, cname, o)) for o in (coll, data)]
                try:
                    out = apply(coll)
                except Exception as e:  # noqa
                    res.outcomes.add("%s:%s%d:raise:%s" % (op[:3], rep, ncol, type(e).__name__))
                    for o, sn in snaps:
                        ledger.input_after_call(res, raw, op, rep, cname, o, sn)
                    if dtype == "list":
                        res.refused += 1
                        continue
                    raw.add(op + "-raises", type(e).__name__,
                            "%s raised %r for a sample collection (%s) with %d column(s)" % (op, e, rep, ncol), rep=rep)
                    continue
                res.evaluations += 1
                res.outcomes.add("%s:%s%d:ok:%s" % (op[:3], rep, ncol, type(out).__name__))
                for o, sn in snaps:
                    ledger.input_after_call(res, raw, op, rep, cname, o, sn)
                ledger.keep_output(op, rep, cname, out)
                if not isinstance(out, Samples):
                    raw.add(op + "-wrapping", "type", "Samples in, %s out" % type(out).__name__, rep=rep)
                    continue
                if not _same_geometry(out.geometry, lgo):
                    raw.add(op + "-wrapping", "geometry", "output samples carry %r instead of the geometry of the output "
                            "space %r" % (out.geometry, lgo), rep=rep)
                if getattr(out, "is_par", True) is not True:
                    raw.add(op + "-wrapping", "is_par", "output samples not flagged as parameters", rep=rep)
                try:
                    S = np.asarray(out.samples, dtype=float)
                except Exception:  # noqa
                    raw.add(op, "not-an-array", "output samples %r" % (out.samples,), rep=rep)
                    continue
                if S.shape != expect.shape:
                    raw.add(op, "size", "output samples have shape %s, expected %s" % (S.shape, expect.shape), rep=rep)
                    continue
                compared[0] += ncol
                res.traces += ncol
                if not close(S, expect, tol):
                    raw.add(op, "values", "column-wise application to %d column(s) (%s) differs from the application to "
                            "each column as a float64 vector (composed reference)" % (ncol, rep), rep=rep, impl=S, ref=expect)
    # ---- history: every output kept above (each point in each representation, each collection) still reads what it
    #      read when it was returned, every input object what the caller put into it
    ledger.audit(res, raw, "after the %s battery" % op)


def _build(cell, kinds=None):
    """Reference geometries + model of a cell; `kinds` overrides the geometry kind of a role (decoy of a history cell):
    same role, same size variant, same model kind, same value catalogue."""
    k = cell["cat"]
    dom = (kinds or {}).get("dom") or cell["dom"]
    rng = (kinds or {}).get("rng") or cell["rng"]
    gd = M.RefGeom(dom, "dom", cell["vd"], k)
    if rng == EQ_RANGE:
        # an equal copy of the domain geometry (a derivative attached to the domain is not copied)
        gr = M.RefGeom(dom.replace("_grad", ""), "dom", cell["vd"], k)
    else:
        gr = M.RefGeom(rng, "rng", cell["vr"], k)
    return gd, gr, M.build_model(cell["model"], gd, gr, k)


def _exercise(res, raw, who, b, gd, gr, k, keep):
    """One evaluation of a model in every input representation (generic point): parameter vector, function values,
    CUQIarray in both representations, a 2-column sample collection, adjoint and gradient.  Used for the decoy of a
    history cell (not judged: it is the model under test of the sibling cell) and for the first use of the model under
    test (its outputs are kept in the ledger and must still read the same at the end of the cell)."""
    from cuqi.array import CUQIarray
    from cuqi.samples import Samples
    model = b.model
    if model is None:
        return
    try:
        dg, rg = model.domain_geometry, model.range_geometry
        n, m = int(model.domain_dim), int(model.range_dim)
    except Exception:  # noqa
        return
    if n != gd.n or m != gr.n:
        return                                     # (a derived model with wrong geometries: judged by its own check)
    p = refs.dyadic_vec(n, k + 1, scale=0.125)
    F = np.array(gd.p2f(p), dtype=float)
    y = refs.dyadic_vec(m, k + 2, scale=0.125)
    calls = [("forward", "par", lambda: model.forward(p.copy())),
             ("forward", "fun", lambda: model.forward(F.copy(), is_par=False)),
             ("forward", "cuqi-par", lambda: model.forward(CUQIarray(p.copy(), is_par=True, geometry=dg))),
             ("forward", "cuqi-fun", lambda: model.forward(CUQIarray(F.copy(), is_par=False, geometry=dg))),
             ("forward", "samples", lambda: model.forward(Samples(np.stack([p, 0.5 * p], axis=1), geometry=dg)))]
    if hasattr(model, "adjoint") and gd.has_f2p:
        calls += [("adjoint", "par", lambda: model.adjoint(y.copy())),
                  ("adjoint", "cuqi-par", lambda: model.adjoint(CUQIarray(y.copy(), is_par=True, geometry=rg)))]
    calls.append(("gradient", "direction=par,wrt=par", lambda: model.gradient(y.copy(), p.copy())))
    res.state("history:%s-evaluated" % who)
    for op, rep, call in calls:
        res.transitions += 1
        try:
            out = call()
        except Exception as e:  # noqa
            res.outcomes.add("hist:%s:%s:%s:raise:%s" % (who, op[:3], rep, type(e).__name__))
            continue
        res.outcomes.add("hist:%s:%s:%s:ok" % (who, op[:3], rep))
        if keep:
            raw.ledger.keep_output(op, rep, "first use", out)


def _explore(res, cell):
    """Complete exploration of one cell on the real code; returns the raw failures."""
    import cuqi  # noqa
    from cuqi.array import CUQIarray
    from cuqi.samples import Samples
    raw = _Raw()
    k = cell["cat"]
    name = cell["model"]
    decoy = cell.get("decoy")
    history = ""
    if not decoy:
        gd, gr, b = _build(cell)
    else:
        # process history: the events D (decoy built), d (decoy evaluated), M (model under test built), m (model under
        # test evaluated for the first time) in the order of the cell; the judged batteries follow
        res.state("history:" + cell["order"])
        history = (" [history %s: a decoy %s of the same kind, role and size with other constructor options lives in the "
                   "same process]" % (cell["order"], "/".join("%s=%s" % kv for kv in sorted(decoy.items()))))
        dec = None
        for ev in cell["order"]:
            if ev == "D":
                try:
                    dec = _build(cell, decoy)
                except Exception as e:  # noqa  the decoy is the model under test of a sibling cell: judged there
                    res.outcomes.add("hist:decoy-build:raise:%s" % type(e).__name__)
            elif ev == "d":
                if dec is not None:
                    _exercise(res, raw, "decoy", dec[2], dec[0], dec[1], k, keep=False)
            elif ev == "M":
                gd, gr, b = _build(cell)
            else:
                _exercise(res, raw, "model", b, gd, gr, k, keep=True)
    model = b.model
    if model is None:
        raw.mcls = "LinearModel"
        raw.add("derived-raises", b.derivation, "forming %s of a LinearModel raised %r" % (b.derivation, b.error))
        return raw
    mcls = type(model).__name__
    dg, rg = model.domain_geometry, model.range_geometry
    n, m = gd.n, gr.n
    raw.mcls = mcls
    if hasattr(b, "expect"):
        # a derived model (A.T, A.T.T): the transposed operator maps the base model's range space to its domain space,
        # so its geometries are the base model's, swapped; everything below judges it like any other catalogue member
        res.state("derived:" + b.derivation)
        res.transitions += 1
        edg, erg = b.expect
        if not (_same_geometry(dg, edg) and _same_geometry(rg, erg)):
            raw.add("derived-geometry", b.derivation,
                    "the model %s of a base model %r -> %r has domain %r and range %r; the transposed operator acts from the "
                    "base model's range space to its domain space, expected domain %r and range %r; cell not judged"
                    % (b.derivation.replace("T", "base.T", 1), b.base.domain_geometry, b.base.range_geometry, dg, rg, edg, erg))
            return raw
    if model.domain_dim != n or model.range_dim != m:
        raise AssertionError("harness: dimension bookkeeping %s" % cell)
    if not (_check_geometry_reference(res, raw, gd, dg, k, history) and _check_geometry_reference(res, raw, gr, rg, k, history)):
        return raw

    def ref(p):
        return _flat(gr.f2p(b.f(gd.p2f(p))))

    pts = [("e%d" % i, np.eye(n)[:, i].copy()) for i in range(n)]
    pts.append(("zero", np.zeros(n)))
    pts.append(("igen", M.int_point(n, k)))
    for j in range(cell["npts"]):
        pts.append(("gen%d" % j, refs.dyadic_vec(n, k + 3 * j, scale=0.125)))
    refs_at = [ref(p) for _, p in pts]
    if not all(np.all(np.isfinite(r)) for r in refs_at):
        raise AssertionError("harness: non-finite reference value %s" % cell)
    compared = [0]

    # ---- 1. forward in every single-vector representation, 2. sample collections ----------------
    # keyword call by the model's own input name ('x' for the user functions of the catalogue; a transposed matrix
    # model names its input after the library's adjoint function)
    argname = list(cuqi.utilities.get_non_default_args(model))[0]
    extra = [("par-call", lambda x: model(x)), ("par-keyword", lambda x: model.forward(**{argname: x}))]
    if mcls == "LinearModel":
        extra.append(("par-matmul", lambda x: model @ x))
    _battery(res, raw, "forward", lambda x, **kw: model.forward(x, **kw), extra, gd, gr, dg, rg, pts, refs_at, compared,
             cell["allw"])
    res.outcomes.add("val:%s:%.6g" % (name, float(np.sum(refs_at[-1]))))
    # ---- 1b. arrays carrying an EQUAL but separately constructed domain geometry, after variable names were generated
    #          on the model's own geometry only (lazily created attributes must not make equal geometries unequal)
    if not cell["dom"].endswith("_grad"):
        try:
            dg2 = M.build_model(name, gd, gr, k).model.domain_geometry
            _ = dg.variables      # (no == between the two objects here: comparing generates the names on the other one too)
        except Exception:  # noqa
            dg2 = None
        if dg2 is not None:
            pname, p = pts[-1]
            expect = refs_at[-1]
            F = np.array(gd.p2f(p), dtype=float)
            res.state("equal-geometry-copy")
            one = _Runner(res, raw, "forward", rg, compared)
            one.run("cuqi-par-equalgeom", pname, expect, "CUQIarray",
                    lambda: CUQIarray(p.copy(), is_par=True, geometry=dg2), lambda x: model.forward(x))
            one.run("cuqi-fun-equalgeom", pname, expect, "CUQIarray",
                    lambda: CUQIarray(F.copy(), is_par=False, geometry=dg2), lambda x: model.forward(x))

    # ---- 2b. the adjoint of a linear model is an application range -> domain: same representations ----------------
    if hasattr(model, "adjoint") and hasattr(b, "fT") and not gd.has_f2p:
        res.count("adjoint-not-formable(domain geometry without fun2par)")
    if hasattr(model, "adjoint") and hasattr(b, "fT") and gd.has_f2p:
        def aref(y):
            return _flat(gd.f2p(b.fT(gr.p2f(y))))
        ypts = [("e%d" % i, np.eye(m)[:, i].copy()) for i in range(m)]
        ypts.append(("zero", np.zeros(m)))
        ypts.append(("igen", M.int_point(m, k + 1)))
        for j in range(cell["npts"]):
            ypts.append(("gen%d" % j, refs.dyadic_vec(m, k + 1 + 3 * j, scale=0.125)))
        arefs = [aref(y) for _, y in ypts]
        if not all(np.all(np.isfinite(r)) for r in arefs):
            raise AssertionError("harness: non-finite adjoint reference value %s" % cell)
        _battery(res, raw, "adjoint", lambda y, **kw: model.adjoint(y, **kw), [], gr, gd, rg, dg, ypts, arefs, compared,
                 cell["allw"])

    # ---- 3. gradient = J^T direction, or refused ----------------------------------------------
    _check_gradient(res, raw, cell, model, gd, gr, dg, rg, pts, ref)

    # ---- 3b. non-initial state: after get_matrix() was called on a linear model, forward and gradient are unchanged ------
    if hasattr(model, "get_matrix"):
        ledger = raw.ledger
        try:
            ledger.keep_output("get_matrix", "first call", "-", model.get_matrix())   # kept; audited after the applications below
            called = True
        except Exception:  # noqa
            called = False
        if called:
            res.state("after-get_matrix")
            pname, p = pts[-1]
            res.transitions += 1
            try:
                x = p.copy()
                snap = ledger.keep_input("forward", "par", pname, x)
                o = model.forward(x)
                ledger.input_after_call(res, raw, "forward", "par", pname, x, snap)
                ledger.keep_output("forward", "par", pname, o)
                out = _flat(o)
                if out.shape != ref(p).shape or not close(out, ref(p), 1e-9):
                    raw.add("forward-after-get_matrix", "values", "forward(p) changed after get_matrix() was called on the model", rep="par")
            except Exception as e:  # noqa
                raw.add("forward-after-get_matrix", "raises", "forward raised %r after get_matrix()" % (e,), rep="par")
            Jm = refs.richardson_jac(ref, p, h=1e-3)
            for j in range(m):
                d = np.eye(m)[:, j].copy()
                res.transitions += 1
                try:
                    go = model.gradient(d.copy(), p.copy())
                    g = _flat(go)
                except Exception:  # noqa
                    res.refused += 1
                    continue
                ledger.keep_output("gradient", "par", "direction d%d at %s" % (j, pname), go)
                res.traces += 1
                if g.size != n or not (close(g, Jm.T @ d, 1e-5) or close(g, refs.richardson_jac(ref, p, h=4e-4).T @ d, 1e-5)):
                    raw.add("gradient-after-get_matrix", "values", "after get_matrix() the gradient %s is not J^T direction %s"
                            % (g[:6], (Jm.T @ d)[:6]), wrep="par", drep="par")
                    break
            # a second matrix, then: the first one (and everything kept before) is what it was
            res.transitions += 1
            try:
                ledger.keep_output("get_matrix", "second call", "-", model.get_matrix())
            except Exception:  # noqa  (judged elsewhere: C07)
                pass
            ledger.audit(res, raw, "after get_matrix, forward, gradient and a second get_matrix")

    # ---- 4. model(distribution) only renames -----------------------------------------------------
    _check_rename(res, raw, cell, model, pts, refs_at, n, m)

    # ---- 5. history: at the end of the cell every object the caller kept (outputs of forward / adjoint / gradient /
    #         get_matrix in every representation, the caller's own input objects) reads what it read at return time
    raw.ledger.audit(res, raw, "at the end of the cell", everything=True)

    raw.compared = compared[0]
    raw.sample = {"model": name, "domain": repr(dg), "range": repr(rg), "point": pts[-1][1],
                  "reference_output": refs_at[-1], "forward_values_compared": compared[0]}
    return raw


def _grad_arg(rep, vec, fvec, own, og_par, og_fun):
    """(object, is_par flag) of one representation of a gradient argument, or None when the representation does not
    exist for this vector.  Arrays carrying the model's own geometry say themselves what they hold (flag True as
    documented default); everything else is described by the flag."""
    from cuqi.array import CUQIarray
    if rep == "par":
        return vec.copy(), True
    if rep == "fun":
        return fvec.copy(), False
    if rep == "cuqi-par":
        return CUQIarray(vec.copy(), is_par=True, geometry=own), True
    if rep == "cuqi-fun":
        return CUQIarray(fvec.copy(), is_par=False, geometry=own), True
    if rep == "cuqi-par-default":
        return CUQIarray(vec.copy()), True
    if rep == "cuqi-par-othergrid":
        return CUQIarray(vec.copy(), is_par=True, geometry=og_par), True
    if rep == "cuqi-fun-othergrid":
        return CUQIarray(fvec.copy(), is_par=False, geometry=og_fun), False
    if rep == "par-int":
        return (vec.astype(np.int64), True) if _is_int(vec) else None
    if rep == "par-float32":
        return vec.astype(np.float32), True
    raise ValueError(rep)


GRAD_BASE = {"cuqi-par-default": "par", "cuqi-par-othergrid": "par", "cuqi-fun-othergrid": "fun", "par-int": "par",
             "par-float32": "par"}
GRAD_EXTRA_PAIRS = ([(f, "par") for f in FOREIGN_REPS] + [("par", f) for f in FOREIGN_REPS]
                    + [(f, f) for f in FOREIGN_REPS] + [("par-int", "par-int"), ("par-float32", "par-float32")])


def _check_gradient(res, raw, cell, model, gd, gr, dg, rg, pts, ref):
    from cuqi.array import CUQIarray
    n, m, k = gd.n, gr.n, cell["cat"]
    if cell["allw"]:
        wpts = pts
    else:
        wpts = [pts[-1], pts[min(1, n - 1)]]
    dirs = [("d%d" % j, np.eye(m)[:, j].copy()) for j in range(m)]
    dirs.append(("dgen", refs.dyadic_vec(m, k + 2, scale=0.25)))
    ogd_par, ogd_fun = M.other_grid_geometry((n,)), M.other_grid_geometry(gd.fshape)
    ogr_par, ogr_fun = M.other_grid_geometry((m,)), M.other_grid_geometry(gr.fshape)
    main_pairs = [(a, b_) for a in GRAD_REPS for b_ in GRAD_REPS]
    ledger = raw.ledger
    for wname, w in wpts:
        Wf = np.array(gd.p2f(w), dtype=float)
        J = {}
        gtype = {}

        def jac(h):
            if h not in J:
                J[h] = refs.richardson_jac(ref, w, h=h)
            return J[h]
        # the extra representation pairs (geometry carried by the array, dtype) at the generic linearisation point;
        # the integer pair wherever the linearisation point is integer valued
        pairs = [(a, b_, False) for a, b_ in main_pairs]
        for a, b_ in GRAD_EXTRA_PAIRS:
            if wname == pts[-1][0] or (a == "par-int" and _is_int(w)):
                pairs.append((a, b_, True))
        for wrep, drep, extra in pairs:
            res.state("grad:%s:%s" % (wrep, drep))
            for dname, d in dirs:
                Df = np.array(gr.p2f(d), dtype=float)
                da = _grad_arg(drep, d, Df, rg, ogr_par, ogr_fun)
                wa = _grad_arg(wrep, w, Wf, dg, ogd_par, ogd_fun)
                if da is None or wa is None:
                    continue
                (dd, dflag), (ww, wflag) = da, wa
                res.transitions += 1
                gname = "direction %s at %s" % (dname, wname)
                grep_ = "direction=%s,wrt=%s" % (drep, wrep)
                snaps = [(o, ledger.keep_input("gradient", grep_, gname, o)) for o in (dd, ww)]
                try:
                    gout = model.gradient(dd, ww, is_direction_par=dflag, is_wrt_par=wflag)
                    g = _flat(gout)
                except Exception as e:  # noqa  refusal is always allowed
                    res.refused += 1
                    res.count("gradient-refused")
                    res.outcomes.add("grad:%s:%s:refused:%s" % (wrep, drep, type(e).__name__))
                    for o, sn in snaps:
                        ledger.input_after_call(res, raw, "gradient", grep_, gname, o, sn)
                    ledger.forget_inputs(sum(1 for _, sn in snaps if sn is not None))     # a refused call: judged right after it, not kept for later
                    continue
                for o, sn in snaps:
                    ledger.input_after_call(res, raw, "gradient", grep_, gname, o, sn)
                ledger.keep_output("gradient", grep_, gname, gout)
                res.count("gradient-computed")
                res.evaluations += 1
                res.outcomes.add("grad:%s:%s:ok" % (wrep, drep))
                op, tag = "gradient", {"wrep": wrep, "drep": drep}
                # the statement is silent about the wrapping of a gradient; only demanded: the geometry object carried
                # by an array-typed direction does not change the type of the result
                if wrep == "par" and drep in ("cuqi-par", "cuqi-fun"):
                    gtype[(drep, dname)] = type(gout)
                if extra and wrep == "par" and drep in FOREIGN_REPS:
                    own_t = gtype.get(("cuqi-fun" if "fun" in drep else "cuqi-par", dname))
                    if own_t is not None and type(gout) is not own_t:
                        raw.add("gradient-wrapping", "type", "direction as array with its own geometry -> %s, as array with a "
                                "different-but-compatible geometry (%s) -> %s" % (own_t.__name__, drep, type(gout).__name__),
                                rep="direction=%s" % drep)
                if g.size != n:
                    raw.add(op, "size", "gradient has %d entries, the domain has %d parameters" % (g.size, n),
                            wrt=wname, direction=dname, **tag)
                    continue
                res.traces += 1
                tol = F32_TOL if "float32" in wrep else 1e-5
                e1 = jac(1e-3).T @ d
                if close(g, e1, tol):
                    continue
                e2 = jac(4e-4).T @ d
                if close(g, e2, tol):
                    continue
                raw.add(op, "values",
                        "gradient(direction %s given as %s, wrt %s given as %s) = %s but J^T direction = %s (Richardson "
                        "finite differences of the composed parameter-to-output map, two step sizes)"
                        % (dname, drep, wname, wrep, g[:6], e2[:6]),
                        wrt=w, direction=d, impl=g, ref=e2, **tag)
    # history: gradients kept from earlier (direction, point) pairs, and the outputs of the batteries before them
    ledger.audit(res, raw, "after the gradients")


def _check_rename(res, raw, cell, model, pts, refs_at, n, m):
    import cuqi
    res.state("rename")
    p = pts[-1][1]
    expect = refs_at[-1]

    def fingerprint():
        return (list(model._non_default_args), id(model.domain_geometry), id(model.range_geometry),
                sorted(vars(model).keys()))
    before = fingerprint()
    argname = list(model._non_default_args)[0]
    dist = cuqi.distribution.Gaussian(np.zeros(n), 1.0, name="zz")
    res.transitions += 1
    try:
        new = model(dist)
    except Exception as e:  # noqa
        raw.add("rename", "raises", "model(distribution) raised %r" % (e,))
        return
    res.evaluations += 1
    after = fingerprint()
    if before != after:
        raw.add("rename", "original-altered", "the original model changed: %s -> %s" % (before, after))
    if new is model:
        raw.add("rename", "original-altered", "model(distribution) returned the original object")
    if type(new) is not type(model):
        raw.add("rename", "type", "renamed model has type %s" % type(new).__name__)
        return
    if list(cuqi.utilities.get_non_default_args(new)) != ["zz"]:
        raw.add("rename", "argument-name", "renamed model takes %s, the distribution is named 'zz'"
                % (cuqi.utilities.get_non_default_args(new),))
    if not (_same_geometry(new.domain_geometry, model.domain_geometry)
            and _same_geometry(new.range_geometry, model.range_geometry)):
        raw.add("rename", "geometry", "renamed model has different geometries")
    for how, call in (("keyword", lambda: new(zz=p.copy())), ("positional", lambda: new(p.copy())),
                      ("old-model", lambda: model(**{argname: p.copy()}))):
        res.transitions += 1
        try:
            out = _flat(call())
        except Exception as e:  # noqa
            raw.add("rename", "forward-raises," + how, "after renaming, forward by %s raised %r" % (how, e))
            continue
        if out.size != expect.size or not close(out, expect, 1e-9):
            raw.add("rename", "forward-changed," + how, "after renaming, forward by %s changed" % how, impl=out, ref=expect)
    d = refs.dyadic_vec(m, cell["cat"] + 2, scale=0.25)
    outs = []
    for mod in (model, new):
        res.transitions += 1
        try:
            outs.append(("ok", _flat(mod.gradient(d.copy(), p.copy()))))
        except Exception as e:  # noqa
            outs.append(("raise", type(e).__name__))
    if outs[0][0] != outs[1][0] or (outs[0][0] == "ok" and not close(outs[0][1], outs[1][1], 1e-12)):
        raw.add("rename", "gradient-changed", "gradient differs between the model and its renamed copy: %s vs %s"
                % (outs[0], outs[1]))
    res.outcomes.add("rename:%s" % outs[1][0])


# --------------------------------------------------------------------------------------------------
# signatures: facet minimisation
# --------------------------------------------------------------------------------------------------
def _plain_other(kind):
    return "cont1d" if kind == "default1d" else "default1d"


def _collapse(reps, groups):
    """Replace complete groups of representations by one label."""
    reps = set(reps)
    out = []
    for label, members in groups:
        if set(members) <= reps:
            out.append(label)
            reps -= set(members)
    return sorted(out + sorted(reps))


def _emit(res, cell, raw):
    """Turn raw failures into failures with minimised signatures.

    A facet (domain kind, range kind, model class) stays in the signature only if the same raw failure
    (operation, failure kind, representation) disappears when that facet alone is replaced: geometry by a
    plain 1-D one (then, for geometries with an attached `gradient`, by a sibling with an attached gradient),
    a LinearModel/PDEModel by a plain Model (forward behaviour is inherited from Model)."""
    if not raw:
        return
    mcls = raw.mcls
    name = cell["model"]
    bname, derivation = M.base_kind(name)
    inferred = bname == "lin_inferred"
    dummy = CellResult(cell)
    probes = {}

    def persists(f, **override):
        key = tuple(sorted(override.items()))
        if key not in probes:
            c = dict(cell)
            c.update(override)
            try:
                if M.needs_1d_function_spaces(c["model"]) and not M.lin_mat_applicable(
                        c["dom"], c["dom"] if c["rng"] == EQ_RANGE else c["rng"]):
                    raise ValueError("inapplicable probe")
                probes[key] = _explore(dummy, c).keys()
            except Exception:  # noqa  a probe only words the signature
                probes[key] = set()
            res.transitions += dummy.transitions
            dummy.transitions = 0
        return (f["op"], f["kind"], f["rep"], f["wrep"], f["drep"]) in probes[key]

    def derived_label(f, default):
        """`LinearModel.T` when the failure of a derived model disappears with the directly built model of the same
        operator and geometries."""
        if derivation and not persists(f, model=bname):
            return "%s.%s" % (default, "T" if derivation == "T" else "T.T")
        return default

    def geo_label(f, which):
        kind = cell[which]
        if inferred:
            return "*"
        if persists(f, **{which: _plain_other(kind)}):
            return "*"
        if kind.endswith("_grad"):
            sib = "kl_grad" if kind != "kl_grad" else "step_grad"
            if persists(f, **{which: sib}):
                return "*_grad"
        ok = M.parse_opt_kind(kind)
        if ok is not None and ok[1]:
            # an option variant of an expansion geometry: does the failure need this option value?
            basekind = ok[0] + ("_grad" if ok[2] else "")
            if persists(f, **{which: basekind}):
                return basekind
        if M.parse_map_kind(kind) is not None:
            # a kind of the MappedGeometry alphabet: does the failure need this map and this base?
            if persists(f, **{which: "mapped"}):
                return "mapped*"                    # any MappedGeometry, even element-wise over a 1-D base
            mname, base, _ = M.parse_map_kind(kind)
            if mname != "ew" and base != "c1":
                sib = "map_perm_imgF" if (mname, base) != ("perm", "imgF") else "map_cs_imgC"
                if persists(f, **{which: sib}):
                    return "map_nonelementwise_reshaping"
        return kind

    def hist_label(f):
        """The process-history facet stays in the signature only if the failure disappears (in this process) when the
        decoy is neither built nor evaluated."""
        if not cell.get("decoy") or persists(f, decoy=None):
            return ""
        return ",history=%s" % cell["order"]

    groups = {}
    for f in raw:
        if f["op"] == "geometry-map":
            res.fail("C12|%s|geometry-map|%s%s" % (f["kind"], f["rep"], hist_label(f)), f["message"])
            continue
        if f["op"] == "rename":
            comp = "Model" if (mcls != "Model" and not inferred and persists(f, model="nograd")) else derived_label(f, mcls)
            res.fail("C12|%s|rename|%s" % (comp, f["kind"]), f["message"], **f["detail"])
            continue
        if f["op"] in ("derived-geometry", "derived-raises"):
            res.fail("C12|%s|%s|%s" % (mcls, f["kind"], "derived-geometries" if f["op"] == "derived-geometry" else "raises"),
                     f["message"])
            continue
        if cell["rng"] == EQ_RANGE:
            # is the equal copy needed at all?  (same domain, an unrelated plain range)
            rlab = "*" if not inferred and persists(f, rng="default1d") else "equal-copy"
            geo = "dom=%s,rng=%s" % (geo_label(f, "dom"), rlab)
        else:
            geo = "dom=%s,rng=%s" % (geo_label(f, "dom"), geo_label(f, "rng"))
        geo += hist_label(f)
        comp, mlab = mcls, name
        if f["op"] == "gradient":
            # the kind of derivative information is a facet only if the failure needs it
            if not inferred and persists(f, model=("jac" if name != "jac" else "grad")):
                comp, mlab = "Model", "*"
            elif derivation and persists(f, model=bname):
                mlab = bname                        # not specific to the derived model
        elif not inferred and mcls != "Model" and persists(f, model="nograd"):
            comp = "Model"
        else:
            comp = derived_label(f, mcls)
        groups.setdefault((comp, f["op"], f["kind"], geo, mlab), []).append(f)
    for (comp, op, kind, geo, mlab), fs in sorted(groups.items()):
        if op == "gradient":
            pairs = {(f["wrep"], f["drep"]) for f in fs}
            main = {p for p in pairs if p[0] in GRAD_REPS and p[1] in GRAD_REPS}
            wset, dset = {p[0] for p in main}, {p[1] for p in main}
            if main == {(a, b) for a in wset for b in dset}:
                lab = lambda s: "*" if len(s) == 4 else "+".join(sorted(s))
                tags = {p: "wrt=%s,direction=%s" % (lab(wset), lab(dset)) for p in main}
            else:
                tags = {p: "wrt=%s,direction=%s" % p for p in main}
            # a pair of the geometry-carried / dtype facet gets a signature of its own only when the same call with
            # the plain analogue of both representations (parameter vector / flagged function values) is right
            twin = {"cuqi-par-default": "cuqi-par-othergrid", "cuqi-par-othergrid": "cuqi-par-default"}
            for p in pairs - main:
                base = (GRAD_BASE.get(p[0], p[0]), GRAD_BASE.get(p[1], p[1]))
                if base in main:
                    tags[p] = tags[base]
                elif (twin.get(p[0], p[0]), twin.get(p[1], p[1])) in pairs - {p}:   # both other-geometry variants fail
                    tags[p] = "wrt=%s,direction=%s" % tuple("cuqi-par-othergeom" if r in twin else r for r in p)
                else:
                    tags[p] = "wrt=%s,direction=%s" % p
            for f in fs:
                res.fail("C12|%s|gradient|%s,model=%s,%s,%s" % (comp, kind, mlab, tags[(f["wrep"], f["drep"])], geo),
                         f["message"], **f["detail"])
        else:
            # a representation of the geometry-carried / dtype facets is named in the signature only when its plain
            # analogue (same container, own geometry, float64) does not fail the same way
            failing = {f["rep"] for f in fs}
            eff = {r: (REP_BASE[r] if (r in REP_BASE and REP_BASE[r] in failing) else r) for r in failing}
            reps = _collapse(set(eff.values()), REP_GROUPS)
            for f in fs:
                r = eff[f["rep"]]
                lab = next((label for label, members in REP_GROUPS if r in members and label in reps), r)
                res.fail("C12|%s|%s|%s,rep=%s,%s" % (comp, op, kind, lab, geo), f["message"], **f["detail"])


def eval_cell(cell):
    res = CellResult(cell)
    raw = _explore(res, cell)
    res.nontrivial = getattr(raw, "compared", 0) > 0
    res.sample = getattr(raw, "sample", None)
    _emit(res, cell, raw)
    return res
