"""C12 - forward models act identically on every representation of their input.

E3 configuration explorer.  A cell is (model kind x domain geometry x range geometry x size variant
x value catalogue).  Inside a cell *every* point of the parameter basis, the origin and the generic
catalogue points is pushed through the model in every input representation

    parameter ndarray (forward / __call__ / keyword / @)      function values with is_par=False
    CUQIarray(par) and CUQIarray(fun) carrying the model's domain geometry
    Samples with 1, 2 and 3 columns (every point appears in each column count)

and compared with the harness-composed reference  fun2par_range( f( par2fun_domain(p) ) )  built from
the dense reference geometry maps of checks/_c12_models.py; the wrapping of the output is checked
(ndarray / CUQIarray with the range geometry and is_par=True / Samples with the range geometry).
`gradient(direction, wrt)` is evaluated for all 4 x 4 representations of (direction, wrt), all basis
directions + a generic one, and compared with J^T direction, J = Richardson Jacobian of the
*reference* parameter-to-output map (or the call raises).  `model(dist)` must only rename.

Signatures: a failing cell is re-explored with the domain (resp. range) geometry replaced by a plain
one; a geometry facet is only kept in the signature when the failure disappears with the replacement
(deterministic, cell-local facet minimisation), representations that all fail are collapsed.
"""
import numpy as np
from vfw.core import CellResult, close
from vfw import refs
from checks import _c12_models as M

PROPERTY = "C12"
RULE = ("cells = model kind x domain geometry kind x range geometry kind x size variant (+ '=dom' cells whose range "
        "geometry is an equal copy of the domain geometry) x value catalogue; inside a cell all basis points, the "
        "origin and the generic points go through every input representation (par ndarray via forward/__call__/"
        "keyword/@, function values with is_par=False, CUQIarray par/fun with the model's domain geometry, Samples "
        "with 1..3 columns) and every (direction, wrt) representation pair of gradient with all basis directions; a "
        "cell is non-trivial when at least one forward value was compared with the composed reference")
BOUND = {
    "quick": "models {Model+jacobian, Model+gradient, Model, LinearModel matrix/callables/inferred, PDEModel Poisson "
             "(plain, +jacobian_wrt_parameter, +gradient_wrt_parameter), Heat forward/backward Euler} x 15 domain "
             "geometry kinds {default 1-D/2-D, Continuous1D/2D, Image2D C/F/visual_only, Discrete, MappedGeometry "
             "(+gradient), KLExpansion (+gradient), StepExpansion (+gradient), user class with gradient} x (11 range "
             "geometry kinds + equal copy of the domain), one size per kind (par dims 2..6, function dims 3..7; the "
             "range KL/Step grids share their 4 nodes with the plain 1-D domain), points = basis + origin + 1 generic, "
             "gradient at 2 linearisation points x 16 representation pairs x (range_dim + 1) directions, Samples "
             "with 1..3 columns; lin_mat only with 1-D function spaces",
    "thorough": "same product with 2 sizes per domain and per range kind (4 combinations), points = basis + origin + "
                "3 generic, gradient linearised at every point",
}
ASSUMPTIONS = [
    "the reference geometry maps (index arithmetic for Image2D/Continuous2D, the documented sine expansion for "
    "KLExpansion, integer interval membership for StepExpansion) are compared with the library geometry in every "
    "cell; a disagreement is reported under its own signature and the cell is not judged further",
    "arrays / sample collections carrying a geometry different from the model's domain geometry are outside the "
    "statement and are not exercised; CUQIarrays and Samples carry the model's own geometry object",
    "user supplied derivative information follows the documented conventions (gradient callables work on function "
    "values, a Jacobian has shape (range_dim, domain_dim)); refusal of gradient (any exception) is always accepted",
    "output shapes are compared up to squeezing; the wrapping rule is judged for forward only (the statement is "
    "silent about the wrapping of gradients)",
    "numpy.linalg.solve / inv on dimensions <= 9 is the trusted base of the reference",
]

EQ_RANGE = "=dom"
CUQI_REPS = ("cuqi-par", "cuqi-fun", "cuqi-fun-flag")
PAR_REPS = ("par", "par-call", "par-keyword")
GRAD_REPS = ("par", "fun", "cuqi-par", "cuqi-fun")


def cells(tier, seed):
    k = refs.cat(seed)
    variants = [(0, 0)] if tier == "quick" else [(0, 0), (0, 1), (1, 0), (1, 1)]
    npts = 1 if tier == "quick" else 3
    allw = tier != "quick"
    for model in M.MODELS:
        for dom in M.DOM_KINDS:
            for rng in M.RNG_KINDS + [EQ_RANGE]:
                if model == "lin_mat" and not M.lin_mat_applicable(dom, dom if rng == EQ_RANGE else rng):
                    continue
                for vd, vr in variants:
                    if rng == EQ_RANGE and vr != 0:
                        continue
                    yield {"model": model, "dom": dom, "rng": rng, "vd": vd, "vr": vr, "cat": k,
                           "npts": npts, "allw": allw}
    for vd in sorted({v[0] for v in variants}):
        yield {"model": "lin_inferred", "dom": "default1d", "rng": "default1d", "vd": vd, "vr": vd, "cat": k,
               "npts": npts, "allw": allw}


# --------------------------------------------------------------------------------------------------
def _flat(x):
    return np.asarray(x, dtype=float).reshape(-1)


def _same_geometry(a, b):
    """Harness-side equivalence (the library's Geometry.__eq__ is not used as a judge): same object, or same
    class with the same parameter shape and the same parameter-to-function map on a generic point."""
    if a is b:
        return True
    try:
        if type(a) is not type(b) or a.par_shape != b.par_shape:
            return False
        p = refs.dyadic_vec(int(a.par_dim), 1, scale=0.125)
        fa, fb = np.asarray(a.par2fun(p.copy())), np.asarray(b.par2fun(p.copy()))
        return fa.shape == fb.shape and close(fa, fb, 1e-12)
    except Exception:  # noqa
        return False


class _Raw(list):
    """Raw failures of one exploration: dicts with op, kind, rep (forward) or wrep/drep (gradient)."""

    def add(self, op, kind, message, rep=None, wrep=None, drep=None, **detail):
        self.append({"op": op, "kind": kind, "rep": rep, "wrep": wrep, "drep": drep,
                     "message": message, "detail": detail})

    def keys(self):
        return {(f["op"], f["kind"], f["rep"], f["wrep"], f["drep"]) for f in self}


def _check_geometry_reference(res, raw, g, lib, k):
    """The dense reference maps must agree with the library geometry (else: not C12's business)."""
    p = refs.dyadic_vec(g.n, k + 1, scale=0.125)
    try:
        a = lib.par2fun(p.copy())
        ok = np.asarray(a).shape == g.fshape and close(a, g.p2f(p), 1e-10)
        b = lib.fun2par(np.array(g.p2f(p)))
        ok = ok and close(_flat(b), g.f2p(g.p2f(p)), 1e-10)
    except Exception:  # noqa
        ok = False
    res.transitions += 2
    if not ok:
        raw.add("geometry-map", type(lib).__name__,
                "the geometry's own par2fun/fun2par differ from the documented maps (kind %s); cell not judged" % g.kind)
    return ok


def _explore(res, cell):
    """Complete exploration of one cell on the real code; returns the raw failures."""
    import cuqi  # noqa
    from cuqi.array import CUQIarray
    from cuqi.samples import Samples
    raw = _Raw()
    k = cell["cat"]
    name = cell["model"]
    gd = M.RefGeom(cell["dom"], "dom", cell["vd"], k)
    if cell["rng"] == EQ_RANGE:
        # an equal copy of the domain geometry (a derivative attached to the domain is not copied)
        gr = M.RefGeom(cell["dom"].replace("_grad", ""), "dom", cell["vd"], k)
    else:
        gr = M.RefGeom(cell["rng"], "rng", cell["vr"], k)
    b = M.build_model(name, gd, gr, k)
    model = b.model
    mcls = type(model).__name__
    dg, rg = model.domain_geometry, model.range_geometry
    n, m = gd.n, gr.n
    if model.domain_dim != n or model.range_dim != m:
        raise AssertionError("harness: dimension bookkeeping %s" % cell)
    raw.mcls = mcls
    if not (_check_geometry_reference(res, raw, gd, dg, k) and _check_geometry_reference(res, raw, gr, rg, k)):
        return raw

    def ref(p):
        return _flat(gr.f2p(b.f(gd.p2f(p))))

    pts = [("e%d" % i, np.eye(n)[:, i].copy()) for i in range(n)]
    pts.append(("zero", np.zeros(n)))
    for j in range(cell["npts"]):
        pts.append(("gen%d" % j, refs.dyadic_vec(n, k + 3 * j, scale=0.125)))
    refs_at = [ref(p) for _, p in pts]
    if not all(np.all(np.isfinite(r)) for r in refs_at):
        raise AssertionError("harness: non-finite reference value %s" % cell)
    compared = [0]

    def judge_forward(rep, out, expect, pname, want):
        res.evaluations += 1
        if want == "ndarray" and isinstance(out, (CUQIarray, Samples)):
            raw.add("forward-wrapping", "type", "plain array in, %s out" % type(out).__name__, rep=rep, point=pname)
        if want == "CUQIarray":
            if type(out) is not CUQIarray:
                raw.add("forward-wrapping", "type", "CUQIarray in, %s out" % type(out).__name__, rep=rep, point=pname)
            else:
                if not _same_geometry(out.geometry, rg):
                    raw.add("forward-wrapping", "geometry", "output carries %r instead of the range geometry"
                            % (out.geometry,), rep=rep, point=pname)
                if out.is_par is not True:
                    raw.add("forward-wrapping", "is_par", "output not flagged as parameters", rep=rep, point=pname)
        try:
            arr = _flat(out)
        except Exception:  # noqa
            raw.add("forward", "not-an-array", "output %r" % (out,), rep=rep, point=pname)
            return
        if arr.size != expect.size:
            raw.add("forward", "size", "output has %d entries, the range geometry has %d parameters"
                    % (arr.size, expect.size), rep=rep, point=pname)
            return
        compared[0] += 1
        res.traces += 1
        if not close(arr, expect, 1e-9):
            raw.add("forward", "values", "forward(%s given as %s) = %s, composed reference fun2par(f(par2fun(p))) = %s"
                    % (pname, rep, arr[:6], expect[:6]), rep=rep, point=pname, impl=arr, ref=expect)

    def run_forward(rep, pname, expect, want, call):
        res.transitions += 1
        try:
            out = call()
        except Exception as e:  # noqa
            res.outcomes.add("fwd:%s:raise:%s" % (rep, type(e).__name__))
            raw.add("forward-raises", type(e).__name__,
                    "forward raised %r for %s given as %s although the reference value exists" % (e, pname, rep),
                    rep=rep, point=pname)
            return
        res.outcomes.add("fwd:%s:ok:%s" % (rep, type(out).__name__))
        judge_forward(rep, out, expect, pname, want)

    # ---- 1. forward in every single-vector representation -----------------------------------
    for (pname, p), expect in zip(pts, refs_at):
        res.state("pt:" + pname)
        F = np.array(gd.p2f(p), dtype=float)
        run_forward("par", pname, expect, "ndarray", lambda: model.forward(p.copy()))
        run_forward("par-call", pname, expect, "ndarray", lambda: model(p.copy()))
        run_forward("par-keyword", pname, expect, "ndarray", lambda: model.forward(x=p.copy()))
        if mcls == "LinearModel":
            run_forward("par-matmul", pname, expect, "ndarray", lambda: model @ p.copy())
        run_forward("fun", pname, expect, "ndarray", lambda: model.forward(F.copy(), is_par=False))
        run_forward("cuqi-par", pname, expect, "CUQIarray",
                    lambda: model.forward(CUQIarray(p.copy(), is_par=True, geometry=dg)))
        run_forward("cuqi-fun", pname, expect, "CUQIarray",
                    lambda: model.forward(CUQIarray(F.copy(), is_par=False, geometry=dg)))
        run_forward("cuqi-fun-flag", pname, expect, "CUQIarray",
                    lambda: model.forward(CUQIarray(F.copy(), is_par=False, geometry=dg), is_par=False))
    res.outcomes.add("val:%s:%.6g" % (name, float(np.sum(refs_at[-1]))))
    # ---- 1b. arrays carrying an EQUAL but separately constructed domain geometry, after variable names were generated
    #          on the model's own geometry only (lazily created attributes must not make equal geometries unequal)
    if not cell["dom"].endswith("_grad"):
        try:
            dg2 = M.build_model(name, gd, gr, k).model.domain_geometry
            _ = dg.variables      # (no == between the two objects here: comparing generates the names on the other one too)
        except Exception:  # noqa
            dg2 = None
        if dg2 is not None:
            pname, p = pts[-1]
            expect = refs_at[-1]
            F = np.array(gd.p2f(p), dtype=float)
            res.state("equal-geometry-copy")
            run_forward("cuqi-par-equalgeom", pname, expect, "CUQIarray",
                        lambda: model.forward(CUQIarray(p.copy(), is_par=True, geometry=dg2)))
            run_forward("cuqi-fun-equalgeom", pname, expect, "CUQIarray",
                        lambda: model.forward(CUQIarray(F.copy(), is_par=False, geometry=dg2)))

    # ---- 2. sample collections with 1, 2, 3 columns ----------------------------------------
    for ncol in (1, 2, 3):
        for start in range(0, len(pts), ncol):
            idx = [(start + c) % len(pts) for c in range(ncol)]
            cols = np.stack([pts[i][1] for i in idx], axis=1)
            expect = np.stack([refs_at[i] for i in idx], axis=1)
            res.transitions += 1
            res.state("samples:%d" % ncol)
            rep = "samples"
            try:
                out = model.forward(Samples(cols.copy(), geometry=dg))
            except Exception as e:  # noqa
                res.outcomes.add("fwd:samples%d:raise:%s" % (ncol, type(e).__name__))
                raw.add("forward-raises", type(e).__name__,
                        "forward raised %r for a sample collection with %d column(s)" % (e, ncol), rep=rep)
                continue
            res.evaluations += 1
            res.outcomes.add("fwd:samples%d:ok:%s" % (ncol, type(out).__name__))
            if not isinstance(out, Samples):
                raw.add("forward-wrapping", "type", "Samples in, %s out" % type(out).__name__, rep=rep)
                continue
            if not _same_geometry(out.geometry, rg):
                raw.add("forward-wrapping", "geometry", "output samples carry %r instead of the range geometry"
                        % (out.geometry,), rep=rep)
            if getattr(out, "is_par", True) is not True:
                raw.add("forward-wrapping", "is_par", "output samples not flagged as parameters", rep=rep)
            S = np.asarray(out.samples, dtype=float)
            if S.shape != expect.shape:
                raw.add("forward", "size", "output samples have shape %s, expected %s" % (S.shape, expect.shape), rep=rep)
                continue
            compared[0] += ncol
            res.traces += ncol
            if not close(S, expect, 1e-9):
                raw.add("forward", "values", "column-wise application to %d column(s) differs from the composed "
                        "reference" % ncol, rep=rep, impl=S, ref=expect)

    # ---- 3. gradient = J^T direction, or refused ----------------------------------------------
    _check_gradient(res, raw, cell, model, gd, gr, dg, rg, pts, ref)

    # ---- 3b. non-initial state: after get_matrix() was called on a linear model, forward and gradient are unchanged ------
    if hasattr(model, "get_matrix"):
        try:
            model.get_matrix()
            called = True
        except Exception:  # noqa
            called = False
        if called:
            res.state("after-get_matrix")
            pname, p = pts[-1]
            res.transitions += 1
            try:
                out = _flat(model.forward(p.copy()))
                if out.shape != ref(p).shape or not close(out, ref(p), 1e-9):
                    raw.add("forward-after-get_matrix", "values", "forward(p) changed after get_matrix() was called on the model", rep="par")
            except Exception as e:  # noqa
                raw.add("forward-after-get_matrix", "raises", "forward raised %r after get_matrix()" % (e,), rep="par")
            Jm = refs.richardson_jac(ref, p, h=1e-3)
            for j in range(m):
                d = np.eye(m)[:, j].copy()
                res.transitions += 1
                try:
                    g = _flat(model.gradient(d.copy(), p.copy()))
                except Exception:  # noqa
                    res.refused += 1
                    continue
                res.traces += 1
                if g.size != n or not (close(g, Jm.T @ d, 1e-5) or close(g, refs.richardson_jac(ref, p, h=4e-4).T @ d, 1e-5)):
                    raw.add("gradient-after-get_matrix", "values", "after get_matrix() the gradient %s is not J^T direction %s"
                            % (g[:6], (Jm.T @ d)[:6]), wrep="par", drep="par")
                    break

    # ---- 4. model(distribution) only renames -----------------------------------------------------
    _check_rename(res, raw, cell, model, pts, refs_at, n, m)

    raw.compared = compared[0]
    raw.sample = {"model": name, "domain": repr(dg), "range": repr(rg), "point": pts[-1][1],
                  "reference_output": refs_at[-1], "forward_values_compared": compared[0]}
    return raw


def _check_gradient(res, raw, cell, model, gd, gr, dg, rg, pts, ref):
    from cuqi.array import CUQIarray
    n, m, k = gd.n, gr.n, cell["cat"]
    if cell["allw"]:
        wpts = pts
    else:
        wpts = [pts[-1], pts[min(1, n - 1)]]
    dirs = [("d%d" % j, np.eye(m)[:, j].copy()) for j in range(m)]
    dirs.append(("dgen", refs.dyadic_vec(m, k + 2, scale=0.25)))
    for wname, w in wpts:
        Wf = np.array(gd.p2f(w), dtype=float)
        J = {}

        def jac(h):
            if h not in J:
                J[h] = refs.richardson_jac(ref, w, h=h)
            return J[h]
        for wrep in GRAD_REPS:
            for drep in GRAD_REPS:
                res.state("grad:%s:%s" % (wrep, drep))
                for dname, d in dirs:
                    Df = np.array(gr.p2f(d), dtype=float)
                    if drep == "par":
                        dd, dflag = d.copy(), True
                    elif drep == "fun":
                        dd, dflag = Df.copy(), False
                    elif drep == "cuqi-par":
                        dd, dflag = CUQIarray(d.copy(), is_par=True, geometry=rg), True
                    else:
                        dd, dflag = CUQIarray(Df.copy(), is_par=False, geometry=rg), True
                    if wrep == "par":
                        ww, wflag = w.copy(), True
                    elif wrep == "fun":
                        ww, wflag = Wf.copy(), False
                    elif wrep == "cuqi-par":
                        ww, wflag = CUQIarray(w.copy(), is_par=True, geometry=dg), True
                    else:
                        ww, wflag = CUQIarray(Wf.copy(), is_par=False, geometry=dg), True
                    res.transitions += 1
                    try:
                        g = model.gradient(dd, ww, is_direction_par=dflag, is_wrt_par=wflag)
                        g = _flat(g)
                    except Exception as e:  # noqa  refusal is always allowed
                        res.refused += 1
                        res.count("gradient-refused")
                        res.outcomes.add("grad:%s:%s:refused:%s" % (wrep, drep, type(e).__name__))
                        continue
                    res.count("gradient-computed")
                    res.evaluations += 1
                    res.outcomes.add("grad:%s:%s:ok" % (wrep, drep))
                    if g.size != n:
                        raw.add("gradient", "size", "gradient has %d entries, the domain has %d parameters" % (g.size, n),
                                wrep=wrep, drep=drep, wrt=wname, direction=dname)
                        continue
                    res.traces += 1
                    e1 = jac(1e-3).T @ d
                    if close(g, e1, 1e-5):
                        continue
                    e2 = jac(4e-4).T @ d
                    if close(g, e2, 1e-5):
                        continue
                    raw.add("gradient", "values",
                            "gradient(direction %s given as %s, wrt %s given as %s) = %s but J^T direction = %s (Richardson "
                            "finite differences of the composed parameter-to-output map, two step sizes)"
                            % (dname, drep, wname, wrep, g[:6], e2[:6]),
                            wrep=wrep, drep=drep, wrt=w, direction=d, impl=g, ref=e2)


def _check_rename(res, raw, cell, model, pts, refs_at, n, m):
    import cuqi
    res.state("rename")
    p = pts[-1][1]
    expect = refs_at[-1]

    def fingerprint():
        return (list(model._non_default_args), id(model.domain_geometry), id(model.range_geometry),
                sorted(vars(model).keys()))
    before = fingerprint()
    dist = cuqi.distribution.Gaussian(np.zeros(n), 1.0, name="zz")
    res.transitions += 1
    try:
        new = model(dist)
    except Exception as e:  # noqa
        raw.add("rename", "raises", "model(distribution) raised %r" % (e,))
        return
    res.evaluations += 1
    after = fingerprint()
    if before != after:
        raw.add("rename", "original-altered", "the original model changed: %s -> %s" % (before, after))
    if new is model:
        raw.add("rename", "original-altered", "model(distribution) returned the original object")
    if type(new) is not type(model):
        raw.add("rename", "type", "renamed model has type %s" % type(new).__name__)
        return
    if list(cuqi.utilities.get_non_default_args(new)) != ["zz"]:
        raw.add("rename", "argument-name", "renamed model takes %s, the distribution is named 'zz'"
                % (cuqi.utilities.get_non_default_args(new),))
    if not (_same_geometry(new.domain_geometry, model.domain_geometry)
            and _same_geometry(new.range_geometry, model.range_geometry)):
        raw.add("rename", "geometry", "renamed model has different geometries")
    for how, call in (("keyword", lambda: new(zz=p.copy())), ("positional", lambda: new(p.copy())),
                      ("old-model", lambda: model(x=p.copy()))):
        res.transitions += 1
        try:
            out = _flat(call())
        except Exception as e:  # noqa
            raw.add("rename", "forward-raises," + how, "after renaming, forward by %s raised %r" % (how, e))
            continue
        if out.size != expect.size or not close(out, expect, 1e-9):
            raw.add("rename", "forward-changed," + how, "after renaming, forward by %s changed" % how, impl=out, ref=expect)
    d = refs.dyadic_vec(m, cell["cat"] + 2, scale=0.25)
    outs = []
    for mod in (model, new):
        res.transitions += 1
        try:
            outs.append(("ok", _flat(mod.gradient(d.copy(), p.copy()))))
        except Exception as e:  # noqa
            outs.append(("raise", type(e).__name__))
    if outs[0][0] != outs[1][0] or (outs[0][0] == "ok" and not close(outs[0][1], outs[1][1], 1e-12)):
        raw.add("rename", "gradient-changed", "gradient differs between the model and its renamed copy: %s vs %s"
                % (outs[0], outs[1]))
    res.outcomes.add("rename:%s" % outs[1][0])


# --------------------------------------------------------------------------------------------------
# signatures: facet minimisation
# --------------------------------------------------------------------------------------------------
def _plain_other(kind):
    return "cont1d" if kind == "default1d" else "default1d"


def _collapse(reps, groups):
    """Replace complete groups of representations by one label."""
    reps = set(reps)
    out = []
    for label, members in groups:
        if set(members) <= reps:
            out.append(label)
            reps -= set(members)
    return sorted(out + sorted(reps))


def _emit(res, cell, raw):
    """Turn raw failures into failures with minimised signatures.

    A facet (domain kind, range kind, model class) stays in the signature only if the same raw failure
    (operation, failure kind, representation) disappears when that facet alone is replaced: geometry by a
    plain 1-D one (then, for geometries with an attached `gradient`, by a sibling with an attached gradient),
    a LinearModel/PDEModel by a plain Model (forward behaviour is inherited from Model)."""
    if not raw:
        return
    mcls = raw.mcls
    name = cell["model"]
    dummy = CellResult(cell)
    probes = {}

    def persists(f, **override):
        key = tuple(sorted(override.items()))
        if key not in probes:
            c = dict(cell)
            c.update(override)
            try:
                if c["model"] == "lin_mat" and not M.lin_mat_applicable(
                        c["dom"], c["dom"] if c["rng"] == EQ_RANGE else c["rng"]):
                    raise ValueError("inapplicable probe")
                probes[key] = _explore(dummy, c).keys()
            except Exception:  # noqa  a probe only words the signature
                probes[key] = set()
            res.transitions += dummy.transitions
            dummy.transitions = 0
        return (f["op"], f["kind"], f["rep"], f["wrep"], f["drep"]) in probes[key]

    def geo_label(f, which):
        kind = cell[which]
        if name == "lin_inferred":
            return "*"
        if persists(f, **{which: _plain_other(kind)}):
            return "*"
        if kind.endswith("_grad"):
            sib = "kl_grad" if kind != "kl_grad" else "step_grad"
            if persists(f, **{which: sib}):
                return "*_grad"
        return kind

    groups = {}
    for f in raw:
        if f["op"] == "geometry-map":
            res.fail("C12|%s|geometry-map|reference" % f["kind"], f["message"])
            continue
        if f["op"] == "rename":
            comp = "Model" if (mcls != "Model" and name != "lin_inferred" and persists(f, model="nograd")) else mcls
            res.fail("C12|%s|rename|%s" % (comp, f["kind"]), f["message"], **f["detail"])
            continue
        if cell["rng"] == EQ_RANGE:
            # is the equal copy needed at all?  (same domain, an unrelated plain range)
            rlab = "*" if name != "lin_inferred" and persists(f, rng="default1d") else "equal-copy"
            geo = "dom=%s,rng=%s" % (geo_label(f, "dom"), rlab)
        else:
            geo = "dom=%s,rng=%s" % (geo_label(f, "dom"), geo_label(f, "rng"))
        comp, mlab = mcls, name
        if name != "lin_inferred":
            if f["op"] == "gradient":
                # the kind of derivative information is a facet only if the failure needs it
                if persists(f, model=("jac" if name != "jac" else "grad")):
                    comp, mlab = "Model", "*"
            elif mcls != "Model" and persists(f, model="nograd"):
                comp = "Model"
        groups.setdefault((comp, f["op"], f["kind"], geo, mlab), []).append(f)
    for (comp, op, kind, geo, mlab), fs in sorted(groups.items()):
        if op == "gradient":
            pairs = {(f["wrep"], f["drep"]) for f in fs}
            wset, dset = {p[0] for p in pairs}, {p[1] for p in pairs}
            if pairs == {(a, b) for a in wset for b in dset}:
                lab = lambda s: "*" if len(s) == 4 else "+".join(sorted(s))
                tags = {p: "wrt=%s,direction=%s" % (lab(wset), lab(dset)) for p in pairs}
            else:
                tags = {p: "wrt=%s,direction=%s" % p for p in pairs}
            for f in fs:
                res.fail("C12|%s|gradient|%s,model=%s,%s,%s" % (comp, kind, mlab, tags[(f["wrep"], f["drep"])], geo),
                         f["message"], **f["detail"])
        else:
            reps = _collapse({f["rep"] for f in fs}, [("cuqi-*", CUQI_REPS), ("cuqi-fun*", CUQI_REPS[1:]),
                                                      ("par-*", PAR_REPS)])
            for f in fs:
                r = f["rep"]
                lab = "cuqi-*" if (r in CUQI_REPS and "cuqi-*" in reps) else \
                    "cuqi-fun*" if (r in CUQI_REPS[1:] and "cuqi-fun*" in reps) else \
                    "par-*" if (r in PAR_REPS and "par-*" in reps) else r
                res.fail("C12|%s|%s|%s,rep=%s,%s" % (comp, op, kind, lab, geo), f["message"], **f["detail"])


def eval_cell(cell):
    res = CellResult(cell)
    raw = _explore(res, cell)
    res.nontrivial = getattr(raw, "compared", 0) > 0
    res.sample = getattr(raw, "sample", None)
    _emit(res, cell, raw)
    return res
