"""C02 - Metropolis-type kernels accept with exactly the Metropolis-Hastings probability.

E2 environment explorer.  For every kernel (MH, CWMH, pCN, MALA) x interface (cuqi.sampler,
cuqi.experimental.mcmc) x target x scale x history (fresh / after warm-up under every enumerated
accept/reject pattern / after state reload into a fresh sampler / after the scale was re-assigned on the live, already
stepped sampler by attribute or state dictionary) x current state x noise answer, ONE
transition of the real sampler is executed under a scripted stream with a *symbolic* uniform draw and its
complete decision tree is enumerated; the leaves (exact branch probability, new state, cached
log-density/gradient) are compared with the leaves of a reference Metropolis-Hastings kernel built for
the proposal mechanism identified from the implementation itself (affine in the noise: m(x) + T(x) xi).
"""
import copy
import itertools
import numpy as np
from vfw.core import CellResult, close, HarnessError
from vfw import refs
from vfw.stream import Stream, Decisions, explore

PROPERTY = "C02"
RULE = ("cells = interface x kernel x target x scale; inside a cell ALL (history, state, noise answer) triples of "
        "the stated alphabets are executed on the real sampler with a symbolic uniform and the complete "
        "decision tree of the transition is enumerated; a cell is non-trivial when at least one transition "
        "had an acceptance probability strictly between 0 and 1; in the scale re-assignment histories the "
        "identified proposal map is additionally compared with that of a sampler constructed with the assigned scale")
BOUND = {"quick": "(+ block-in-HybridGibbs history for MH/PCN: all accept/reject patterns of 3 sweeps, 2 scales x 2 starts; + tuple target form of the "
                  "legacy pCN; + integer-dtype initial points; + zero-density current states; + user proposal with undeclared symmetry; + magnitude facet: concentrated anisotropic target N(0, diag(h, h/6)), h=2^-13, scales 0.6 and h, two tail + two near-mode states, so that log target and log proposal ratios each exceed the range of exp()) dims 1-2; 3 scales; 4 states per target; noise lattice {-1.5,-.5,.5,1.5}^d (d=1), 8 answers (d=2); "
                  "histories: fresh, warm-up Nb=2 under all accept/reject patterns (<=1 deviation for CWMH), reload; "
                  "for scale 0.6 also: sibling sampler first, and scale re-assignment on one live sampler (built with scale 0.15, two direct "
                  "transitions accept/reject, then scale := 0.6 by attribute [both interfaces] or get_state/set_state [experimental], "
                  "then direct step() without sample()/warmup()/re-initialisation)",
         "thorough": "dims 1-3; 3 scales + vector scale; 5 states; full lattice d<=2, 14 answers d=3; warm-up Nb<=3"}
ASSUMPTIONS = [
    "pi is the target's own log-density; q is the Gaussian law of the affine proposal map identified from the "
    "implementation on the complete noise basis (+ linearity probe)",
    "invariance for every target is inferred from the exact acceptance formula + detailed balance on the explored "
    "edges and the textbook theorem; values outside the catalogues are not covered",
    "relocating a warmed-up experimental sampler uses its public state dictionary (get_state/set_state)",
    "scale re-assignment histories: one old scale (a quarter of the new one), one new scale (0.6), two prior transitions; "
    "assigning the public attribute `scale` / the 'scale' entry of the state dictionary is taken to be a supported way of "
    "changing the step size of a live sampler (the warm-up tuners do exactly this); ULA is outside C02's kernel list",
]

IFACES = ("exp", "legacy")
KERNELS = ("MH", "CWMH", "PCN", "MALA")
STIFF_H = 2.0 ** -13


# ----------------------------------------------------------------------------------------
# targets
# ----------------------------------------------------------------------------------------
class Rec:
    """Records the points at which the target / likelihood is evaluated during a step."""

    def __init__(self):
        self.calls = []

    def wrap(self, f):
        def g(x):
            self.calls.append(np.array(x, dtype=float, copy=True).ravel())
            return f(np.asarray(x, dtype=float).ravel())
        return g


def _logp_fns(name, k):
    """(dim, logp, grad, family-class) for the user-defined targets."""
    sh = [0.0, 0.25, -0.5][k]
    if name == "gauss1":
        return 1, (lambda x: float(-0.5 * (x[0] - sh) ** 2)), (lambda x: -(x - sh)), "gaussian"
    if name in ("gauss2c", "gauss3"):
        d = 2 if name == "gauss2c" else 3
        C = refs.spd_matrix(d, k)
        P = np.linalg.inv(C)
        mu = refs.dyadic_vec(d, k, scale=0.125)
        return d, (lambda x: float(-0.5 * (x - mu) @ P @ (x - mu))), (lambda x: -P @ (x - mu)), "gaussian"
    if name == "well1":
        return 1, (lambda x: float(-(x[0] ** 2 - 1.0) ** 2)), (lambda x: np.array([-4.0 * x[0] * (x[0] ** 2 - 1.0)])), "nongaussian"
    if name == "banana2":
        b = [0.5, 0.25, 1.0][k]

        def lp(x):
            return float(-0.5 * (x[0] ** 2 / 4.0 + (x[1] + b * x[0] ** 2 - 1.0) ** 2))

        def gr(x):
            t = x[1] + b * x[0] ** 2 - 1.0
            return np.array([-(x[0] / 4.0 + t * 2 * b * x[0]), -t])
        return 2, lp, gr, "nongaussian"
    if name == "stiff2":
        # magnitude facet: a concentrated, anisotropic Gaussian N(0, diag(h, h/6)), h = 2^-13.  From tail states the log target
        # ratio and the log proposal ratio of a Langevin / random-walk move each leave the range of exp() (|.| > 745), in
        # opposite directions for the Langevin move with scale h: only a log-domain test decides such moves correctly
        h = STIFF_H
        w = np.array([1.0 / h, 6.0 / h])
        return 2, (lambda x: float(-0.5 * np.sum(w * x * x))), (lambda x: -w * x), "stiff"
    if name in ("nanhalf1", "nanhalf2", "infhalf1", "infhalf2"):
        d = int(name[-1])
        bad = float("nan") if name.startswith("nan") else float("-inf")

        def lp(x):
            return bad if x[0] > 1.3371 else float(-0.5 * np.sum(x ** 2))

        def gr(x):
            return np.full(d, np.nan) if x[0] > 1.3371 else -x
        return d, lp, gr, ("nan" if name.startswith("nan") else "neginf")
    raise KeyError(name)


class Target:
    """A target together with the reference pi and the recorder."""

    def __init__(self, name, k, kernel):
        import cuqi
        self.name = name
        self.rec = Rec()
        self.kernel = kernel
        self.prior_mean = None
        if kernel == "PCN":
            self._make_posterior(name, k)
            return
        if name == "libgauss2":
            self.dim = 2
            self.obj = cuqi.distribution.Gaussian(refs.dyadic_vec(2, k, scale=0.125), refs.spd_matrix(2, k))
            self.family = "gaussian"
            self.logpi = lambda x: float(np.asarray(self.obj.logd(x)).ravel()[0])
            self.rec = None
            return
        if name == "libpost2":
            A = cuqi.model.LinearModel(refs.full_matrix(3, 2, k))
            x = cuqi.distribution.Gaussian(np.array([0.25, -0.5]), 1.5, name="x")
            y = cuqi.distribution.Gaussian(A(x), 0.5, name="y")
            self.obj = cuqi.distribution.JointDistribution(x, y)(y=refs.dyadic_vec(3, k, scale=0.25))
            self.dim = 2
            self.family = "posterior"
            self.logpi = lambda z: float(np.asarray(self.obj.logd(z)).ravel()[0])
            self.rec = None
            return
        d, lp, gr, fam = _logp_fns(name, k)
        self.dim, self.family = d, fam
        self.logpi = lp
        self.obj = cuqi.distribution.UserDefinedDistribution(dim=d, logpdf_func=self.rec.wrap(lp), gradient_func=gr)

    def _make_posterior(self, name, k):
        import cuqi
        lik_name, prior_name = name.split("+")
        d = 2 if prior_name.endswith("2") else 1
        self.dim = d
        if prior_name.startswith("zero"):
            mean = np.zeros(d)
        elif prior_name.startswith("shift"):
            mean = np.array([1.0, -0.5])[:d] * (1 + 0.5 * k)
        if prior_name.startswith("normal"):      # cuqi Normal prior (iid), shifted
            mean = np.array([0.75, -0.25])[:d]
            std = np.array([1.0, 0.5])[:d]
            prior = cuqi.distribution.Normal(mean, std, name="x")
            C = np.diag(std ** 2)
        else:
            C = refs.spd_matrix(d, k) if d > 1 else np.array([[1.5]])
            prior = cuqi.distribution.Gaussian(mean, C, name="x")
        self.prior_mean = mean
        if lik_name == "quart":
            ll = lambda x: float(-0.5 * np.sum((x - 0.5) ** 4))
            fam = "nongaussian"
        elif lik_name == "glik":
            ll = lambda x: float(-0.5 * np.sum((x - 0.75) ** 2) / 0.5)
            fam = "gaussian"
        elif lik_name == "nanlik":
            ll = lambda x: float("nan") if x[0] > 1.3371 else float(-0.5 * np.sum((x - 0.5) ** 2))
            fam = "nan"
        elif lik_name == "inflik":
            ll = lambda x: float("-inf") if x[0] > 1.3371 else float(-0.5 * np.sum((x - 0.5) ** 2))
            fam = "neginf"
        else:
            raise KeyError(lik_name)
        self.family = "prior-mean=zero" if np.all(mean == 0) else "prior-mean=nonzero"
        self.loglik = ll
        lik = cuqi.likelihood.UserDefinedLikelihood(dim=d, logpdf_func=self.rec.wrap(ll), name="y")
        self.obj = cuqi.distribution.Posterior(lik, prior)
        self.pair = (lik, prior)
        self.logpi = lambda x: ll(np.asarray(x, float)) + refs.gauss_logpdf(x, mean, C)


def target_names(kernel, tier):
    if kernel == "PCN":
        names = ["glik+zero1", "quart+zero2", "quart+shift2", "glik+shift1", "glik+normal2", "nanlik+zero2", "inflik+zero1"]
        return names
    names = ["gauss1", "gauss2c", "well1", "banana2", "nanhalf1", "infhalf2"]
    if kernel == "CWMH":
        names = ["gauss1", "gauss2c", "well1", "banana2", "nanhalf2", "infhalf2"]
    if kernel in ("MH", "CWMH"):
        names += ["libgauss2", "libpost2"]
    if kernel == "MALA":
        names += ["libgauss2"]
    names += ["stiff2"]
    if tier == "thorough":
        names += ["gauss3", "nanhalf2", "infhalf1"]
    return names


def cells(tier, seed):
    k = refs.cat(seed)
    # history "block sampler inside HybridGibbs": the kernel is re-targeted to a new conditional before every transition
    for kernel in ("MH", "PCN", "MALA"):
        for sc in ("s0.3", "s0.6"):
            for start in (0, 1):
                yield {"iface": "exp", "kernel": kernel, "hist": "gibbs-block", "scale": sc, "start": start, "cat": k, "tier": tier,
                       "sweeps": 3 if tier == "quick" else 4}
    for iface in IFACES:
        for kernel in KERNELS:
            for t in target_names(kernel, tier):
                scales = ["s0.05", "s0.6", "s1.0"]
                if kernel == "CWMH":
                    scales = ["s0.05", "s0.6", "vec"]
                if kernel == "MH" and t == "gauss2c":
                    scales.append("covprop")
                if kernel == "CWMH" and t in ("gauss2c", "banana2"):
                    # user-supplied component proposals: a conditional distribution whose conditioning variables come out
                    # scale-first, and a plain callable (both are the documented x_j + s_j * xi_j mechanism)
                    scales += ["userprop-dist-sl", "userprop-callable"]
                if t == "stiff2":
                    scales = ["s0.6", "sh"]       # a step far larger than the target's width, and the target's own h
                if kernel == "MH" and t in ("gauss2c", "gauss1"):
                    scales.append("userprop-shifted")    # user-defined proposal, symmetry flag unset, increments NOT symmetric
                for sc in scales:
                    yield {"iface": iface, "kernel": kernel, "target": t, "scale": sc, "cat": k, "tier": tier}
                    if sc == "s0.6" and t in ("gauss2c", "banana2", "libpost2", "quart+shift2", "glik+shift1"):
                        # representation of the initial point: integer-valued states handed over as an integer-dtype array
                        yield {"iface": iface, "kernel": kernel, "target": t, "scale": sc, "cat": k, "tier": tier, "x0rep": "int"}
                    if kernel == "PCN" and iface == "legacy" and (sc == "s0.6" or tier == "thorough"):
                        # documented second target form of the stateless pCN: the tuple (likelihood, prior)
                        yield {"iface": iface, "kernel": kernel, "target": t, "scale": sc, "cat": k, "tier": tier, "form": "tuple"}


# ----------------------------------------------------------------------------------------
# adapters: position a real sampler at a state / perform one transition
# ----------------------------------------------------------------------------------------
def _scale_value(cell, dim):
    sc = cell["scale"]
    if sc == "vec":
        return np.array([0.3, 0.8, 0.5])[:dim]
    if sc in ("covprop", "userprop-shifted"):
        return 0.6
    if sc == "sh":
        return STIFF_H
    if sc in ("userprop-dist-sl", "userprop-callable"):
        return np.array([0.3, 0.8, 0.5])[:dim]
    return float(sc[1:])


class Adapter:
    def __init__(self, cell, tgt):
        import cuqi
        self.cell, self.tgt = cell, tgt
        self.iface, self.kernel = cell["iface"], cell["kernel"]
        self.dim = tgt.dim
        self.scale = _scale_value(cell, self.dim)
        mod = cuqi.experimental.mcmc if self.iface == "exp" else cuqi.sampler
        cname = self.kernel if self.iface == "exp" or self.kernel != "PCN" else "pCN"
        self.cls = getattr(mod, cname)
        self.proposal = None
        if cell["scale"] == "covprop":
            self.proposal = cuqi.distribution.Gaussian(np.zeros(self.dim), np.array([[1.0, 0.3], [0.3, 0.5]]))
        if cell["scale"] == "userprop-dist-sl":
            self.proposal = cuqi.distribution.Normal(mean=lambda scale, location: location, std=lambda scale, location: scale, geometry=self.dim)
        if cell["scale"] == "userprop-callable":
            self.proposal = lambda x, s: x + s * np.random.standard_normal(len(x))
        if cell["scale"] == "userprop-shifted":
            # increments 0.5 + N(0, I): not symmetric about 0, and the user did not declare any symmetry (is_symmetric=None).
            # The sampler must refuse it, or account for q(x|x')/q(x'|x) in its acceptance probability.
            dim = self.dim
            self.proposal = cuqi.distribution.UserDefinedDistribution(dim=dim, sample_func=lambda: 0.5 + np.random.standard_normal(dim))

    def construct_after_sibling(self, x):
        """A SIBLING sampler of the same class on the SAME target object, with another scale, is built and takes one step
        first (two independent sampler objects in one process must not influence each other); then the sampler under test."""
        other = copy.deepcopy(self.scale) * 0.25
        kw = {"proposal": self.proposal} if self.proposal is not None else {}
        xs = np.array(x, dtype=float)
        try:
            if self.iface == "exp":
                sib = self.cls(self.tgt.obj, scale=other, initial_point=xs, **kw)
                sib.initialize()
            else:
                target = self.tgt.pair if self.cell.get("form") == "tuple" else self.tgt.obj
                sib = self.cls(target, scale=other, x0=xs, **kw)
            st = Stream(normal=lambda n, i: 0.25 * np.ones(n))
            with st.installed():
                if self.iface == "exp":
                    sib.step()
                else:
                    sib.sample(2)
        except Exception:
            pass          # the sibling itself is not under test here
        return self.construct(x)

    def construct_rescaled(self, x, how):
        """ONE live sampler: constructed with ANOTHER scale (a quarter of the cell's), advanced by two direct transitions
        (accept, then reject) under catalogue noise, and only then given the cell's scale - by attribute assignment
        (how='rescale-attr') or through its public state dictionary (how='rescale-state').  No sample()/warmup() call and no
        re-initialisation happens between the assignment and the transitions that are judged afterwards."""
        new = copy.deepcopy(self.scale)
        self.scale = new * 0.25
        try:
            s = self.construct(x)
        finally:
            self.scale = new
        noise = lambda n, i: refs.dyadic_vec(n, i + self.cell["cat"], scale=0.25)
        st = Stream(normal=noise, decisions=Decisions([True, False]))
        with st.installed():
            if self.iface == "exp":
                s.step()
                s.step()
            else:
                s.sample(3)
        if how == "rescale-attr":
            s.scale = copy.deepcopy(new)
        else:
            state = copy.deepcopy(s.get_state())
            old = state["state"]["scale"]
            state["state"]["scale"] = (np.ones_like(np.asarray(old, dtype=float)) * new) if np.ndim(old) else float(new)
            s.set_state(state)
        return s

    def construct(self, x):
        x = np.array(x, dtype=float)
        if self.cell.get("x0rep") == "int" and np.all(x == np.round(x)):
            x = np.array(np.round(x), dtype=int)      # (auxiliary constructions at non-integer points stay float)
        kw = {}
        if self.proposal is not None:
            kw["proposal"] = self.proposal
        if self.iface == "exp":
            s = self.cls(self.tgt.obj, scale=copy.deepcopy(self.scale), initial_point=x, **kw)
            s.initialize()
        else:
            target = self.tgt.pair if self.cell.get("form") == "tuple" else self.tgt.obj
            s = self.cls(target, scale=copy.deepcopy(self.scale), x0=x, **kw)
        return s

    # --- one transition under the stream -----------------------------------------------
    def step(self, s, stream):
        if self.tgt.rec is not None:
            self.tgt.rec.calls = []
        with stream.installed():
            if self.iface == "exp":
                s.step()
                x = np.array(s.current_point, dtype=float)
                if self.kernel == "PCN":
                    lp = s.current_likelihood_logd
                    g = None
                else:
                    lp = s.current_target_logd
                    g = getattr(s, "current_target_grad", None) if self.kernel == "MALA" else None
            else:
                x0 = np.array(s.x0, dtype=float, copy=True)
                r = s.sample(2)
                x = np.array(r.samples[:, 1], dtype=float)
                lp = r.loglike_eval[1]
                g = None
        calls = [] if self.tgt.rec is None else list(self.tgt.rec.calls)
        if self.iface == "legacy" and calls:
            calls = calls[1:]      # sample(2) first evaluates the target at x0 itself
        return {"x": x, "cache_logd": _f(lp), "cache_grad": None if g is None else np.array(g, dtype=float),
                "calls": calls}

    # --- histories ------------------------------------------------------------------------
    def warm(self, s, pattern, Nb):
        """Warm-up driven by a forced decision pattern and catalogue noise."""
        noise = lambda n, i: refs.dyadic_vec(n, i + self.cell["cat"], scale=0.25)
        st = Stream(normal=noise, decisions=Decisions(pattern))
        with st.installed():
            if self.iface == "exp":
                s.warmup(Nb)
            else:
                s.sample_adapt(10)   # adaptation interval int(0.1*10)=1: the scale is re-tuned after every step
        return st.decisions

    def relocate(self, s, x, fresh_object):
        """Position a (possibly warmed-up) sampler at x through public API only."""
        x = np.array(x, dtype=float)
        if self.iface == "legacy":
            s.x0 = x
            return s
        state = copy.deepcopy(s.get_state())
        for key in list(state["state"].keys()):
            if key == "current_point":
                state["state"][key] = x
            elif key == "current_likelihood_logd":
                state["state"][key] = self.tgt.obj.likelihood.logd(x)
            elif key == "current_target_logd":
                state["state"][key] = self.tgt.obj.logd(x)
            elif key == "current_target_grad":
                state["state"][key] = self.tgt.obj.gradient(x)
        if fresh_object:
            s = self.construct(np.ones(self.dim) * 0.125)
        s.set_state(state)
        return s


def _f(v):
    try:
        return float(np.asarray(v).ravel()[0])
    except Exception:
        return float("nan")


# ----------------------------------------------------------------------------------------
# alphabets
# ----------------------------------------------------------------------------------------
def states_for(tgt, tier, k, rep=None):
    d = tgt.dim
    if rep == "int":
        return [np.array(b, dtype=float) for b in {1: [[1], [-1], [0]], 2: [[1, -1], [0, 1], [-1, 0]], 3: [[1, -1, 0], [0, 1, 1]]}[d]]
    if tgt.name == "stiff2":
        # two tail states (log-density about -5e3 .. -1e4) and two states within a few standard deviations of the mode
        sc = 1.0 + 0.125 * k
        return [sc * np.array(b) for b in ([1.0, 0.1875], [-0.5, 0.25], [2.0 ** -7, -2.0 ** -8], [-1.5 * 2.0 ** -6, 2.0 ** -7])]
    base = {1: [[-1.25], [-0.25], [0.5], [0.75]],
            2: [[-1.0, 0.5], [0.25, -0.75], [0.5, 1.25], [-0.5, -0.25]],
            3: [[-1.0, 0.5, 0.25], [0.25, -0.75, 0.5], [0.5, 1.0, -0.5]]}[d]
    if tier == "thorough" and d < 3:
        base = base + [[0.875] * d]
    out = [np.array(b) + 0.0625 * k for b in base]
    if tgt.family == "neginf" or tgt.name.startswith("inflik"):
        # current states OUTSIDE the support (log-density -inf, e.g. an initial point or a reloaded state): the ratio is
        # +inf for every proposal inside the support, so such a proposal is accepted with probability 1
        out += [np.array(b) + 0.0625 * k for b in {1: [[1.5], [2.25]], 2: [[1.75, 0.5], [1.5, -0.75]], 3: [[1.5, 0.25, -0.5]]}[d]]
    return out


def answers_for(d, tier):
    L = [-1.5, -0.5, 0.5, 1.5]
    if d == 1:
        return [np.array([a]) for a in L]
    if d == 2:
        full = [np.array(p) for p in itertools.product(L, L)]
        if tier == "thorough":
            return full
        return [full[i] for i in (0, 3, 5, 6, 9, 10, 12, 15)]
    out = []
    for i in range(3):
        for s in (-1.5, 0.5):
            e = np.zeros(3)
            e[i] = s
            out.append(e + 0.0)
    out += [np.array([0.5, -1.5, 0.5]), np.array([-0.5, 0.5, 1.5]), np.array([1.5, 1.5, -0.5]), np.array([-1.5, -0.5, -1.5])]
    if tier == "thorough":
        out += [np.array([0.5, 0.5, 0.5]), np.array([-0.5, 1.5, -1.5]), np.array([1.5, -0.5, 0.5]), np.array([-1.5, 1.5, 1.5])]
    return out


def histories(cell):
    tier, kernel, iface = cell["tier"], cell["kernel"], cell["iface"]
    hs = [("fresh", None)]
    if cell["scale"] == "s0.6" and not cell.get("x0rep") and not cell.get("form"):
        hs.insert(0, ("sibling", None))      # first: the sibling must be the first sampler ever built on this target object
    if cell.get("x0rep"):
        return hs         # the representation of the initial point only matters for a freshly constructed sampler
    Nbs = (2,) if tier == "quick" else (1, 3)
    for Nb in Nbs:
        nd = Nb * (1 if kernel != "CWMH" else 2)
        if iface == "legacy":
            # sample_adapt(10): 9 transitions; all-accept + each single rejection among the first 3
            pats = [[]] + [[True] * i + [False] for i in range(3)]
        elif kernel == "CWMH":
            pats = [[]] + [[True] * i + [False] for i in range(nd)]
        else:
            pats = [list(p) for p in itertools.product([True, False], repeat=Nb)]
        for p in pats:
            hs.append(("warm", (Nb, p)))
    if iface == "exp":
        hs.append(("reload", (Nbs[-1], [True, False, True][:Nbs[-1]])))
    if cell["scale"] == "s0.6" and not cell.get("form"):
        # tuning-parameter re-assignment on ONE live sampler: built with another scale, advanced by two direct transitions,
        # then the cell's scale is assigned (attribute / state dictionary) and the sampler is stepped again directly
        hs.append(("rescale-attr", None))
        if iface == "exp":
            hs.append(("rescale-state", None))
    return hs


# ----------------------------------------------------------------------------------------
# the cell
# ----------------------------------------------------------------------------------------
def eval_cell(cell):
    if cell.get("hist") == "gibbs-block":
        return eval_gibbs_block(cell)
    res = CellResult(cell)
    k = cell["cat"]
    tgt = Target(cell["target"], k, cell["kernel"])
    ad = Adapter(cell, tgt)
    comp = "%s.%s" % (cell["iface"], cell["kernel"])
    if cell.get("form"):
        comp += "(target=%s)" % cell["form"]
    if cell.get("x0rep"):
        comp += "(x0=%s)" % cell["x0rep"]
    if cell["scale"] == "userprop-shifted":
        comp += "(proposal=user,symmetry-undeclared)"
    if cell["scale"] in ("userprop-dist-sl", "userprop-callable"):
        comp += "(proposal=%s)" % cell["scale"][9:]
    fails = {}   # (op) -> {hist kinds}; first (message, focus, detail) per (op, hist)
    nontriv = False

    def fail(op, hist, msg, focus=None, **detail):
        fails.setdefault(op, {})
        if hist not in fails[op]:
            fails[op][hist] = (msg, focus, detail)

    X = states_for(tgt, cell["tier"], k, cell.get("x0rep"))
    XI = answers_for(tgt.dim, cell["tier"])
    for hkind, hpar in histories(cell):
        # ---- prepare the history once; `pos(x)` positions a sampler at x --------------
        try:
            if hkind == "fresh":
                pos = lambda x: ad.construct(x)
            elif hkind == "sibling":
                pos = lambda x: ad.construct_after_sibling(x)
            else:
                if hkind.startswith("rescale"):
                    base = ad.construct_rescaled(X[0], hkind)
                else:
                    Nb, pattern = hpar
                    base = ad.construct(X[0])
                    ad.warm(base, pattern, Nb)
                if cell["iface"] == "exp":
                    saved = copy.deepcopy(base.get_state())

                    def pos(x, base=base, saved=saved, hkind=hkind):
                        base.set_state(copy.deepcopy(saved))
                        return ad.relocate(base, x, fresh_object=(hkind == "reload"))
                else:
                    pos = lambda x, base=base: ad.relocate(base, x, False)
        except HarnessError:
            raise
        except Exception as e:
            # warm-up itself crashed: not a C02 matter unless it is the NaN target (states can run into NaN)
            res.refused += 1
            res.outcomes.add("history-refused:%s:%s" % (hkind, type(e).__name__))
            continue
        hname = hkind if hkind != "warm" else "warm"
        res.state("%s:%s" % (hkind, hpar))
        for x in X:
            lpx = tgt.logpi(x)
            if np.isnan(lpx) or lpx == np.inf:
                continue
            if lpx == -np.inf and cell["kernel"] == "MALA":
                continue       # the Langevin proposal needs the gradient at the current state: undefined outside the support
            try:
                ident_x = identify(ad, pos, x, res)
                if ident_x is None:
                    fail("proposal-not-affine", hname, "proposal is not an affine function of the noise at x=%s" % x, focus={"x": x})
                    continue
                if hkind.startswith("rescale"):
                    # differential oracle: the proposal map in effect after the assignment is that of a sampler that was
                    # constructed with this scale in the first place (the scale is the only tuning parameter of these kernels)
                    ident_f = identify(ad, lambda y: ad.construct(y), x, res)
                    if ident_f is None or not (close(ident_x[0], ident_f[0], 1e-9, atol=1e-12) and close(ident_x[1], ident_f[1], 1e-9, atol=1e-12)):
                        fail("proposal-after-reassign", hname, "after the scale was re-assigned on the live sampler its proposal map "
                             "m(x)+T xi (T=%s) is not the one of a sampler constructed with that scale (T=%s)"
                             % (ident_x[1].tolist(), None if ident_f is None else ident_f[1].tolist()), focus={"x": x})
                for xi in XI:
                    out = one_transition(ad, tgt, pos, x, xi, ident_x, res, hname, fail, cell)
                    nontriv = nontriv or out
            except HarnessError:
                raise
            except Exception as e:
                # the sampler crashed on this target (e.g. a component-wise sampler on a 1-D target):
                # a refusal, not a wrong acceptance
                res.refused += 1
                res.outcomes.add("transition-raised:%s:%s" % (hkind, type(e).__name__))
                break
    res.nontrivial = nontriv
    # ---- signatures: a failure seen in the fresh history is reported without history facet ---
    for op, byh in fails.items():
        if op in ("nan-accepted", "neginf-accepted"):
            # one defect per component whatever the target family / history it was reached through
            msg, focus, detail = byh.get("fresh") or sorted(byh.items())[0][1]
            res.fail("C02|%s|%s|" % (comp, op), msg, focus=focus, **detail)
        elif "fresh" in byh:
            msg, focus, detail = byh["fresh"]
            res.fail("C02|%s|%s|target=%s" % (comp, op, tgt.family), msg, focus=focus, **detail)
        else:
            for h, (msg, focus, detail) in byh.items():
                res.fail("C02|%s|%s|target=%s,history=%s" % (comp, op, tgt.family, h), msg, focus=focus, **detail)
    return res


def propose(ad, pos, x, xi):
    """The proposal the implementation generates at state x for noise xi (None if it cannot be observed)."""
    s = pos(x)
    d = Decisions()
    st = Stream(normal=[xi], decisions=d)
    obs = ad.step(s, st)
    if ad.kernel == "CWMH":
        calls = obs["calls"]
        if len(calls) >= ad.dim:
            return np.array([calls[j][j] for j in range(ad.dim)])
        if all(c for (_, c, _) in d.points):   # all-accept leaf: the new state is the proposal vector
            return obs["x"]
        return None
    if obs["calls"]:
        return obs["calls"][-1]
    if any(c and p > 0 for (p, c, _) in d.points):
        return obs["x"]
    return None


def identify(ad, pos, x, res):
    """m(x), T(x) of the affine proposal map from the complete basis (+ linearity probe)."""
    n = ad.dim
    z0 = propose(ad, pos, x, np.zeros(n))
    if z0 is None:
        return None
    cols = []
    for i in range(n):
        e = np.zeros(n)
        e[i] = 1.0
        z = propose(ad, pos, x, e)
        if z is None:
            return None
        cols.append(z - z0)
    T = np.array(cols).T
    v = np.array([(-1) ** i * (0.5 + 0.25 * i) for i in range(n)])
    z = propose(ad, pos, x, v)
    res.transitions += n + 2
    if z is None or not close(z, z0 + T @ v, 1e-9):
        return None
    return z0, T


def logq(y, m, T):
    r = np.linalg.solve(T, y - m)
    return float(-0.5 * r @ r - np.log(abs(np.linalg.det(T))))


def one_transition(ad, tgt, pos, x, xi, ident_x, res, hname, fail, cell):
    """Explore the complete decision tree of one transition from x with noise xi and compare with the
    reference MH kernel.  Returns True if some branch probability was strictly inside (0,1)."""
    m_x, T_x = ident_x
    focus = {"history": hname, "x": x, "xi": xi}
    lp_x = tgt.logpi(x)

    def run(d):
        s = pos(x)
        st = Stream(normal=[xi], decisions=d)
        obs = ad.step(s, st)
        obs["log"] = st.log
        return obs
    leaves = explore(run)
    res.transitions += len(leaves)
    res.traces += 1
    res.evaluations += 1
    ptot = sum(d.prob for d, _ in leaves)
    if not close(ptot, 1.0, 1e-12):
        # the same prepared state answered the same decision point with different probabilities in different executions:
        # the positioning API (set_state) does not restore everything the acceptance depends on (stale cached density)
        fail("state-not-restored", hname, "executions prepared identically through the sampler's state API disagree on the "
             "acceptance probability (leaf probabilities sum to %.6g): a cached log-density/gradient that the acceptance uses "
             "is not part of the saved state" % ptot, focus=focus)
        return False
    inside = any(0.0 < p < 1.0 for d, _ in leaves for (p, _, _) in d.points)

    if ad.kernel == "CWMH":
        return cwmh_compare(ad, tgt, x, xi, m_x, T_x, leaves, res, hname, fail, focus) or inside

    xp = m_x + T_x @ xi
    rec_p = [o["calls"][-1] for _, o in leaves if o["calls"]]
    if rec_p:
        if not close(rec_p[0], xp, 1e-9):
            fail("proposal-not-affine", hname, "recorded proposal %s != m(x)+T xi = %s" % (rec_p[0], xp), focus=focus)
            return inside
        xp = rec_p[0]          # bit-exact point the implementation evaluated (matters at support boundaries)
    lp_p = tgt.logpi(xp)
    # implementation's acceptance probability: total probability of leaves whose state is the proposal
    moved = [(d, o) for d, o in leaves if not np.array_equal(o["x"], x)]
    a_impl = sum(d.prob for d, _ in moved)
    for d, o in moved:
        if not close(o["x"], xp, 1e-9):
            fail("new-state", hname, "accepted state %s is not the proposal m(x)+T xi = %s" % (o["x"], xp), focus=focus)
    # reference acceptance probability for the identified proposal mechanism
    if lp_x == -np.inf and (np.isnan(lp_p) or lp_p == -np.inf):
        # current state and proposal both have zero density: the ratio is 0/0, the statement's two clauses do not
        # single out one answer (moving between zero-density states does not affect invariance) - either is accepted
        res.count("undefined-ratio(0/0)-skipped")
        res.outcomes.add("%s:0/0" % hname)
        return inside
    if np.isnan(lp_p) or lp_p == -np.inf:
        a_ref = 0.0
        if a_impl > 0:
            op = "nan-accepted" if np.isnan(lp_p) else "neginf-accepted"
            fail(op, hname, "proposal with target log-density %r accepted with probability %r" % (lp_p, a_impl),
                 focus=focus, proposal=xp)
        res.outcomes.add("%s:%s:a=0" % (hname, "bad"))
        return inside
    ident_p = identify(ad, pos, xp, res)
    if ident_p is None:
        fail("proposal-not-affine", hname, "proposal is not affine in the noise at x'=%s" % xp, focus=focus)
        return inside
    m_p, T_p = ident_p
    lq_fwd = logq(xp, m_x, T_x)
    lq_bwd = logq(x, m_p, T_p)
    log_r = lp_p - lp_x + lq_bwd - lq_fwd
    a_ref = float(min(1.0, np.exp(log_r)))
    res.outcomes.add("%s:a=%.3f" % (hname, a_ref))
    if not close(a_impl, a_ref, 1e-8, atol=1e-9):
        fail("acceptance-prob", hname,
             "acceptance probability %.12g != min(1, pi(x')q(x|x')/(pi(x)q(x'|x))) = %.12g for the proposal the "
             "sampler uses" % (a_impl, a_ref), focus=focus, proposal=xp, log_target_ratio=lp_p - lp_x,
             log_q_ratio=lq_bwd - lq_fwd)
    # caches on each branch
    s0 = pos(x)
    for d, o in leaves:
        if np.array_equal(o["x"], x):
            ref_cache = _cache_ref(ad, tgt, x)
        else:
            ref_cache = _cache_ref(ad, tgt, o["x"])
        if ref_cache is not None and np.isfinite(o["cache_logd"]) and not close(o["cache_logd"], ref_cache[0], 1e-10):
            op = "reject-cache" if np.array_equal(o["x"], x) else "accept-cache"
            fail(op, hname, "cached log-density %r does not belong to the current point (%r)" % (o["cache_logd"], ref_cache[0]), focus=focus)
        if o["cache_grad"] is not None and ref_cache is not None and ref_cache[1] is not None:
            if not close(o["cache_grad"], ref_cache[1], 1e-10):
                fail("grad-cache", hname, "cached gradient does not belong to the current point", focus=focus)
    # detailed balance on the explored edge: run the reverse move on the real code
    if a_ref > 0 and ad.dim <= 3:
        xi_b = np.linalg.solve(T_p, x - m_p)

        def run_b(d):
            s = pos(xp)
            st = Stream(normal=[xi_b], decisions=d)
            return ad.step(s, st)
        lb = explore(run_b)
        res.transitions += len(lb)
        a_back = sum(d.prob for d, o in lb if not np.array_equal(o["x"], xp))
        for d, o in lb:
            if not np.array_equal(o["x"], xp) and not close(o["x"], x, 1e-8):
                fail("reverse-move", hname, "reverse noise does not propose x back", focus=focus)
        lhs = lp_x + lq_fwd + np.log(max(a_impl, 1e-300))
        rhs = lp_p + lq_bwd + np.log(max(a_back, 1e-300))
        if a_impl > 0 and a_back > 0 and not close(lhs, rhs, 1e-8, atol=1e-7):
            fail("detailed-balance", hname, "pi(x)q(x'|x)a(x->x') != pi(x')q(x|x')a(x'->x): log sides %.10g vs %.10g" % (lhs, rhs),
                 focus=focus, proposal=xp)
        if (a_impl > 0) != (a_back > 0) and min(np.exp(log_r), np.exp(-log_r)) > 1e-12:
            fail("detailed-balance", hname, "one direction of an edge has zero acceptance (%.3g vs %.3g)" % (a_impl, a_back), focus=focus)
    if res.sample is None:
        res.sample = {"history": hname, "x": x, "xi": xi, "proposal": xp, "a_impl": a_impl, "a_ref": a_ref,
                      "leaves": [{"choices": d.choices, "prob": d.prob, "x_new": o["x"]} for d, o in leaves]}
    return inside


def _cache_ref(ad, tgt, x):
    """What the cached log-density (and gradient) must be at the point x."""
    try:
        if ad.kernel == "PCN":
            return (tgt.loglik(x), None)
        g = None
        if ad.kernel == "MALA" and ad.iface == "exp":
            g = np.asarray(tgt.obj.gradient(x), dtype=float)
        return (tgt.logpi(x), g)
    except Exception:
        return None


def cwmh_compare(ad, tgt, x, xi, m_x, T_x, leaves, res, hname, fail, focus):
    """Reference component-wise kernel: sequential 1-D Metropolis updates with proposals c = m + T xi."""
    n = ad.dim
    c = m_x + T_x @ xi
    for _, o in leaves:
        if len(o["calls"]) >= n:
            c_rec = np.array([o["calls"][j][j] for j in range(n)])
            if close(c_rec, c, 1e-9):
                c = c_rec      # bit-exact component proposals
            break
    offd = T_x - np.diag(np.diag(T_x))
    if not close(offd, np.zeros_like(offd), 1e-12, atol=1e-12) or not close(m_x, x, 1e-12):
        fail("proposal-structure", hname, "component proposals are not x_j + s_j*xi_j", focus=focus)
        return False
    ref = {}
    for bits in itertools.product([True, False], repeat=n):
        cur = np.array(x, dtype=float)
        lp = tgt.logpi(cur)
        pr = 1.0
        path = []
        for j in range(n):
            prop = cur.copy()
            prop[j] = c[j]
            lps = tgt.logpi(prop)
            if lp == -np.inf and (np.isnan(lps) or lps == -np.inf):
                res.count("undefined-ratio(0/0)-skipped")     # see one_transition: either answer is accepted
                res.outcomes.add("%s:cw:0/0" % hname)
                return False
            a = 0.0 if (np.isnan(lps) or lps == -np.inf) else float(min(1.0, np.exp(lps - lp)))
            # a decision point only exists when 0<a<1; otherwise the branch is forced
            if a <= 0.0:
                take = False
            elif a >= 1.0:
                take = True
            else:
                take = bits[len(path)] if len(path) < n else True
                path.append(take)
                pr *= a if take else (1 - a)
            if take:
                cur, lp = prop, lps
        key = tuple(path)
        if key not in ref:
            ref[key] = (pr, cur, lp)
    # group implementation leaves by their free decisions
    impl = {}
    for d, o in leaves:
        key = tuple(cch for (p, cch, _) in d.points if 0.0 < p < 1.0)
        impl[key] = (d.prob, o["x"], o["cache_logd"])
    # compare distributions over final states (robust to where forced decisions sit)
    def dist(table):
        out = {}
        for pr, st, lp in table.values():
            kx = tuple(np.round(st, 10))
            out[kx] = out.get(kx, 0.0) + pr
        return out
    di, dr = dist(impl), dist(ref)
    bad_nan = [kx for kx in di if not np.isfinite(tgt.logpi(np.array(kx))) and di[kx] > 0]
    if bad_nan:
        lpb = tgt.logpi(np.array(bad_nan[0]))
        fail("nan-accepted" if np.isnan(lpb) else "neginf-accepted", hname,
             "state with target log-density %r reached with probability %r" % (lpb, di[bad_nan[0]]), focus=focus)
    elif set(di) != set(dr) or any(not close(di[kx], dr[kx], 1e-8, atol=1e-9) for kx in dr):
        fail("acceptance-prob", hname, "distribution of the state after the component sweep differs from sequential "
             "1-D Metropolis updates: impl %s vs reference %s" % (sorted(di.items())[:4], sorted(dr.items())[:4]), focus=focus)
    for pr, st, lp in impl.values():
        r = tgt.logpi(st)
        if np.isfinite(r) and np.isfinite(lp) and not close(lp, r, 1e-10):
            fail("accept-cache", hname, "cached log-density %r does not belong to the current point (%r)" % (lp, r), focus=focus)
    res.outcomes.add("%s:cw:%d" % (hname, len(di)))
    if res.sample is None:
        res.sample = {"history": hname, "x": x, "xi": xi, "component_proposals": c,
                      "final_state_distribution": [[list(kx), p] for kx, p in sorted(di.items())]}
    return len(di) > 1



# ----------------------------------------------------------------------------------------
# history: the kernel as a block sampler inside HybridGibbs
# ----------------------------------------------------------------------------------------
def eval_gibbs_block(cell):
    """s ~ Gamma, x | s ~ N(0, I/s), y | x ~ N(A x, 0.5 I); x is updated by the kernel under test, s by Conjugate.  ALL
    accept/reject patterns of `sweeps` consecutive sweeps are enumerated; at every x-transition the decision probability of
    the real code must be the Metropolis-Hastings probability for the block's CURRENT conditional target (the value of s drawn
    in the same sweep) and the proposal mechanism the kernel uses (validated on the accepted branch)."""
    import cuqi
    res = CellResult(cell)
    k, K = cell["cat"], cell["sweeps"]
    kernel = cell["kernel"]
    comp = "exp.%s(HybridGibbs-block)" % kernel
    scale = float(cell["scale"][1:])
    A = refs.full_matrix(3, 2, k)
    dat = refs.dyadic_vec(3, k, scale=0.25)
    x0 = [np.array([0.5, -0.25]), np.array([-0.75, 1.0])][cell["start"]] + 0.0625 * k
    noise = lambda n, i: refs.dyadic_vec(n, (i + k) % 5, scale=0.25)
    gam = lambda rec, i: np.full(rec["shape"] or [1], [1.5, 0.75, 2.0, 0.5][(i + k) % 4])
    loglik = lambda x: float(-0.5 * np.sum((A @ x - dat) ** 2) / 0.5)

    def logpi(x, sval):
        return loglik(x) + refs.gauss_logpdf(x, np.zeros(2), np.eye(2) / sval)

    def gradpi(x, sval):
        return A.T @ (dat - A @ x) / 0.5 - sval * x

    def logq_mala(y, x, sval):       # Langevin proposal N(y; x + scale/2 grad, scale I)
        r = y - (x + 0.5 * scale * gradpi(x, sval))
        return float(-0.5 * r @ r / scale)

    def run(d):
        s = cuqi.distribution.Gamma(2, 1, name="s")
        x = cuqi.distribution.Gaussian(np.zeros(2), cov=lambda s: 1 / s, name="x")
        y = cuqi.distribution.Gaussian(cuqi.model.LinearModel(A)(x), 0.5, name="y")
        J = cuqi.distribution.JointDistribution(s, x, y)(y=dat)
        cls = getattr(cuqi.experimental.mcmc, kernel)
        G = cuqi.experimental.mcmc.HybridGibbs(J, {"x": cls(scale=scale, initial_point=np.array(x0)), "s": cuqi.experimental.mcmc.Conjugate()})
        st = Stream(normal=noise, gamma=gam, decisions=d)
        with st.installed():
            G.sample(K)
        S = G.get_samples()
        return {"x": np.array(S["x"].samples, float), "s": np.array(S["s"].samples, float).ravel(), "order": list(G.target.get_parameter_names()),
                "kinds": [r["kind"] for r in st.log]}
    try:
        leaves = explore(run)
    except HarnessError:
        raise
    except Exception as e:
        res.refused += 1
        res.transitions += 1
        res.state("refused")
        res.nontrivial = False
        res.outcomes.add("gibbs-block-refused:%s" % type(e).__name__)
        return res
    res.transitions += len(leaves) * K
    reported = set()

    def fail(op, msg, focus):
        if op not in reported:
            reported.add(op)
            res.fail("C02|%s|%s|" % (comp, op), msg, focus=focus)
    inside = False
    for d, o in leaves:
        res.traces += 1
        pts = [(p, ch) for (p, ch, _) in d.points]
        if len(pts) != K or o["x"].shape[1] != K:
            fail("decision-count", "%d uniform decisions and %d stored states for %d sweeps" % (len(pts), o["x"].shape[1], K), {"choices": d.choices})
            continue
        s_first = o["order"].index("s") < o["order"].index("x")
        xt = np.array(x0, float)
        for t in range(K):
            p_impl, ch = pts[t]
            # value of s the x-block is conditioned on in sweep t
            s_cur = o["s"][t] if s_first else (o["s"][t - 1] if t > 0 else None)
            x_new = o["x"][:, t]
            res.state("sweep=%d:%s" % (t, tuple(d.choices[:t + 1])))
            if s_cur is None:
                xt = x_new
                continue
            focus = {"sweep": t, "choices": d.choices, "x": xt, "s": s_cur}
            if ch:     # accepted branch: the new state is the proposal
                xi = noise(2, t)
                if kernel == "MH":
                    prop_ref = xt + scale * xi
                    a_ref = float(min(1.0, np.exp(logpi(x_new, s_cur) - logpi(xt, s_cur))))
                elif kernel == "MALA":
                    prop_ref = xt + 0.5 * scale * gradpi(xt, s_cur) + np.sqrt(scale) * xi
                    a_ref = float(min(1.0, np.exp(logpi(x_new, s_cur) - logpi(xt, s_cur)
                                                  + logq_mala(xt, x_new, s_cur) - logq_mala(x_new, xt, s_cur))))
                else:
                    prop_ref = np.sqrt(1 - scale ** 2) * xt + scale * np.sqrt(1.0 / s_cur) * xi
                    a_ref = float(min(1.0, np.exp(loglik(x_new) - loglik(xt))))
                res.evaluations += 1
                inside = inside or (0.0 < a_ref < 1.0)
                if not close(x_new, prop_ref, 1e-9):
                    fail("proposal", "accepted state %s is not the %s proposal for the current conditional (%s)" % (x_new, kernel, prop_ref), focus)
                elif not close(p_impl, a_ref, 1e-8, atol=1e-9):
                    fail("acceptance-prob", "acceptance probability %.12g of the block transition != Metropolis-Hastings probability %.12g "
                         "for the block's current conditional target (s=%g) and proposal" % (p_impl, a_ref, s_cur), focus)
                res.outcomes.add("t=%d:a=%.3f" % (t, a_ref))
                xt = x_new
            else:
                if not np.array_equal(x_new, xt):
                    fail("reject-moves", "state changed although the proposal was rejected", focus)
                xt = x_new
    res.nontrivial = inside
    if res.sample is None and leaves:
        d, o = leaves[0]
        res.sample = {"choices": d.choices, "probabilities": [p for (p, _, _) in d.points], "x": o["x"], "s": o["s"]}
    return res
